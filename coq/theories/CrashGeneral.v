(* CrashGeneral.v — property C10 for ALL start states and ALL crash points (no menu).

   Setting: a world w0 satisfying the representation invariant [Spec.Inv], one API call that names
   a pid p, run sequentially (thread 0) and interrupted before its n-th operation, for every n.

   Method: a Hoare-style predicate [Safe m G Q] over programs with a ghost state G (the content of
   the call's own temp files, what the last probes said, and the pending truncation of a cid
   list).  Every operation has a precondition [oppre]; [step_sound] shows that a step obeying it
   keeps the world invariant [WI]: every permanent file well typed (complete, rightly named), and
   every OTHER pid's reference, metadata, list membership and object exactly as in w0.  [api_ok]
   shows that every API program obeys the discipline. *)
From HS Require Import Base PyVal FS Ops Spec Sched RefineLemmas Refine SeqProps CrashFault Integrity.

Definition tyb (a : addr) : bool :=
  match a with AObj _ | AMeta _ _ | APidRef _ | ACidRef _ => true | _ => false end.

(* what a file at a typed address may hold *)
Definition good2 (a : addr) (v : fcontent) : Prop :=
  match a with
  | AObj c => exists n, v = CData c n n
  | AMeta _ _ => exists b n, v = CData b n n
  | APidRef _ => exists c, v = CCid c
  | ACidRef _ => exists l, v = CLines l
  | _ => True
  end.

Lemma good2_untyped : forall a v, tyb a = false -> good2 a v.
Proof. destruct a; simpl; intros; try discriminate; exact I. Qed.

Definition typed (m : fmap) : Prop := forall a v, lookup a m = Some v -> good2 a v.

Record ghost := mkG {
  gT : tmap;                       (* own temp files: present, with exactly this content *)
  gK : addr -> option bool;        (* what the probes since the last mutation said *)
  gP : option (cid * nat)          (* a rewritten cid list waiting for its truncation *)
}.

Definition kempty : addr -> option bool := fun _ => None.
Definition kupd (K : addr -> option bool) (a : addr) (b : bool) : addr -> option bool :=
  fun x => if addr_eqb x a then Some b else K x.
Definition g0 : ghost := mkG tempty kempty None.

Section Frame.
  Variable w0 : world.          (* the start world *)
  Variable p : pid.             (* the pid the interrupted call names *)
  (* what the call may publish: the content of a new object, the content of p's new reference *)
  Variable pubO : cid -> fcontent -> Prop.
  Variable pubP : fcontent -> Prop.

  Definition pubok (d : addr) (v : fcontent) : Prop :=
    match d with AObj k => pubO k v | APidRef _ => pubP v | _ => True end.

  Definition bound0 (q : pid) (k : cid) : Prop := lookup (APidRef q) (fs w0) = Some (CCid k).
  (* no OTHER pid is bound to c in the start world *)
  Definition free (c : cid) : Prop := forall q, q <> p -> ~ bound0 q c.
  (* ... or the start world has no object c *)
  Definition objfree (c : cid) : Prop := free c \/ lookup (AObj c) (fs w0) = None.

  (* the addresses the call may rename from / onto / remove / write *)
  Definition mine (a : addr) : Prop :=
    match a with
    | APidRef q => q = p
    | AMeta q _ => q = p
    | ATmp _ _ _ => True
    | ADel _ => True
    | AObj c => objfree c
    | ACidRef c => free c
    end.

  (* the world invariant, relative to w0 and p *)
  Definition WI (w : world) : Prop :=
    typed (fs w) /\
    (forall q, q <> p -> lookup (APidRef q) (fs w) = lookup (APidRef q) (fs w0)) /\
    (forall q f, q <> p -> lookup (AMeta q f) (fs w) = lookup (AMeta q f) (fs w0)) /\
    (forall q k, q <> p -> bound0 q k ->
       (exists l, lookup (ACidRef k) (fs w) = Some (CLines l) /\ In q l) /\
       (forall x, lookup (AObj k) (fs w0) = Some x -> lookup (AObj k) (fs w) = Some x)).

  Definition agreeG (G : ghost) (w : world) : Prop :=
    (forall a v, ownb 0 a = true -> gT G a = Some v -> lookup a (fs w) = Some v) /\
    (forall a b, gK G a = Some b -> present a (fs w) = b) /\
    (forall c n, gP G = Some (c, n) ->
       forall l, lookup (ACidRef c) (fs w) = Some (CLines l) ->
       forall q, q <> p -> In q l -> In q (firstn n l)).

  Definition cid_of (a : addr) : option cid := match a with ACidRef c => Some c | _ => None end.

  Definition oppre (o : op) (G : ghost) : Prop :=
    match o with
    | WriteChunk t => ownb 0 t = true /\ exists b n j, gT G t = Some (CData b n j)
    | OpenWr t _ => ownb 0 t = true
    | Rename s d =>
        tmpb d = false /\ mine s /\ mine d /\
        (if ownb 0 s
         then tyb d = true -> exists v, gT G s = Some v /\ good2 d v /\ pubok d v
         else tmpb s = false /\ tyb d = false)
    | Remove a => (tmpb a = true -> ownb 0 a = true) /\ mine a
    | AppendOpen a | AppendWrite a _ => exists c, a = ACidRef c
    | RewriteWrite a q => (exists c, a = ACidRef c) /\ q = p
    | Truncate a n => exists c, a = ACidRef c /\ gP G = Some (c, n)
    | _ => True
    end.

  Definition absent_fact (a : addr) : Prop :=
    match a with ACidRef c => free c | AObj c => objfree c | _ => True end.

  Definition size_fact (a : addr) : Prop :=
    match a with ACidRef c => free c | _ => True end.

  Definition ansok (o : op) (G : ghost) (x : ans) : Prop :=
    match o with
    | MkTmp ar _ => exists n, x = AAddr (ATmp ar 0 n) /\ gT G (ATmp ar 0 n) = None
    | WriteChunk _ => x = AUnit
    | ListDir q => exists l, x = AList l /\ forall a, In a l -> owned_by q a = true
    | Probe a => exists b, x = ABool b /\ (forall b', gK G a = Some b' -> b = b') /\
                           (b = false -> absent_fact a)
    | SizeLines a => x = ANat 0 -> size_fact a
    | _ => True
    end.

  Definition reset (T : tmap) : ghost := mkG T kempty None.

  Definition opnext (o : op) (G : ghost) (x : ans) : ghost :=
    match o with
    | Probe a => match x with ABool b => mkG (gT G) (kupd (gK G) a b) (gP G) | _ => G end
    | MkTmp _ init => match x with AAddr a => reset (tupd (gT G) a init) | _ => reset (gT G) end
    | WriteChunk t =>
        match gT G t with Some (CData b n j) => reset (tupd (gT G) t (CData b n (S j))) | _ => reset (gT G) end
    | OpenWr t c => reset (tupd (gT G) t c)
    | Rename s _ => reset (if ownb 0 s then tdel (gT G) s else gT G)
    | Remove a => reset (if ownb 0 a then tdel (gT G) a else gT G)
    | AppendOpen _ | AppendWrite _ _ | Truncate _ _ => reset (gT G)
    | RewriteWrite a _ =>
        match cid_of a, x with
        | Some c, ANat n => mkG (gT G) kempty (Some (c, n))
        | _, _ => reset (gT G)
        end
    | _ => G
    end.

  Fixpoint Safe {A} (m : prog A) (G : ghost) (Q : A -> ghost -> Prop) : Prop :=
    match m with
    | Ret a => Q a G
    | Bad => True
    | Vis o k => oppre o G /\ forall x, ansok o G x -> Safe (k x) (opnext o G x) Q
    end.

  (* ---------- frame lemmas for WI ---------- *)

  Lemma mine_not_other_pid : forall q, q <> p -> ~ mine (APidRef q).
  Proof. intros q H Hm. simpl in Hm. contradiction. Qed.

  (* a step that changes only addresses that are [mine], and leaves changed files well typed *)
  Lemma WI_frame : forall w m',
    WI w ->
    (forall a, lookup a m' = lookup a (fs w) \/ mine a) ->
    (forall a v, lookup a m' = Some v -> lookup a (fs w) = Some v \/ good2 a v) ->
    WI (set_fs w m').
  Proof.
    intros w m' (Ht & H1 & H2 & H3) Hch Hty. unfold WI. simpl.
    split; [|split; [|split]].
    - intros a v Hl. destruct (Hty a v Hl) as [H|H]; auto.
    - intros q Hq. destruct (Hch (APidRef q)) as [H|H]; [rewrite H; auto|].
      simpl in H. contradiction.
    - intros q f Hq. destruct (Hch (AMeta q f)) as [H|H]; [rewrite H; auto|].
      simpl in H. contradiction.
    - intros q k Hq Hb. destruct (H3 q k Hq Hb) as [Hl Ho]. split.
      + destruct (Hch (ACidRef k)) as [H|H]; [rewrite H; exact Hl|].
        simpl in H. exfalso. exact (H q Hq Hb).
      + intros x Hx. destruct (Hch (AObj k)) as [H|H]; [rewrite H; auto|].
        simpl in H. destruct H as [H|H]; [exfalso; exact (H q Hq Hb)|congruence].
  Qed.

  (* an in-place rewrite of a cid list that keeps every other pid listed *)
  Lemma WI_cidref : forall w c l',
    WI w ->
    (forall l q, lookup (ACidRef c) (fs w) = Some (CLines l) -> q <> p -> In q l -> In q l') ->
    WI (set_fs w (update (ACidRef c) (CLines l') (fs w))).
  Proof.
    intros w c l' (Ht & H1 & H2 & H3) Hk. unfold WI. simpl.
    split; [|split; [|split]].
    - intros a v Hl. rewrite lookup_update in Hl.
      destruct (addr_eqb a (ACidRef c)) eqn:E; [|auto].
      apply addr_eqb_true in E. subst. inversion Hl; subst. simpl. eauto.
    - intros q Hq. rewrite lookup_update_neq by discriminate. auto.
    - intros q f Hq. rewrite lookup_update_neq by discriminate. auto.
    - intros q k Hq Hb. destruct (H3 q k Hq Hb) as [[l [Hl Hin]] Ho]. split.
      + rewrite lookup_update. destruct (addr_eqb (ACidRef k) (ACidRef c)) eqn:E.
        * apply addr_eqb_true in E. inversion E; subst k.
          exists l'. split; [reflexivity|]. eapply Hk; eauto.
        * eauto.
      + intros x Hx. rewrite lookup_update_neq by discriminate. auto.
  Qed.

  Lemma agree_reset : forall T w,
    (forall a v, ownb 0 a = true -> T a = Some v -> lookup a (fs w) = Some v) -> agreeG (reset T) w.
  Proof.
    intros T w H. split; [exact H|]. split.
    - intros a b Hk. discriminate.
    - intros c n Hp. discriminate.
  Qed.

  Lemma own_neq_nontmp0 : forall a d, ownb 0 a = true -> tmpb d = false -> a <> d.
  Proof. intros a d Ha Hd E. subst. apply ownb_tmpb in Ha. congruence. Qed.

  Lemma mine_tmp : forall a, tmpb a = true -> mine a.
  Proof. destruct a; simpl; intros; try discriminate; exact I. Qed.

  Lemma firstn_filter_keep : forall (l : list pid) q,
    q <> p -> In q l ->
    In q (filter_lines p l ++ skipn (length (filter_lines p l)) l).
  Proof.
    intros l q Hq Hin. apply in_or_app. left. unfold filter_lines. apply filter_In.
    split; [exact Hin|]. apply negb_true_iff. apply Nat.eqb_neq. exact Hq.
  Qed.

  Lemma In_skipn_in : forall (A : Type) n (l : list A) x, In x (skipn n l) -> In x l.
  Proof. intros A n l x H. rewrite <- (firstn_skipn n l). apply in_or_app. auto. Qed.

  Lemma firstn_app_exact : forall (A : Type) (l1 l2 : list A), firstn (length l1) (l1 ++ l2) = l1.
  Proof. induction l1; simpl; intros; [destruct l2; reflexivity|]. f_equal. auto. Qed.

  (* ---------- soundness of one step ---------- *)

  Theorem step_sound : forall o G w x w',
    agreeG G w -> WI w -> oppre o G -> exec_op 0 o w = Some (x, w') ->
    ansok o G x /\ agreeG (opnext o G x) w' /\ WI w'.
  Proof.
    intros o G [m L] xans w' Hag HW Hpre Hex.
    destruct Hag as (HaT & HaK & HaP).
    destruct o; simpl in Hex, Hpre; simpl ansok; simpl opnext.
    - (* Probe *)
      inversion Hex; subst; clear Hex.
      split; [|split; [|exact HW]].
      + eexists. split; [reflexivity|]. split.
        * intros b' Hk. apply HaK in Hk. unfold present in Hk. simpl in Hk. exact Hk.
        * intros Hb. destruct HW as (Ht & H1 & H2 & H3). simpl in *.
          destruct (lookup a m) eqn:El; [discriminate|].
          destruct a; simpl; auto.
          -- (* AObj *)
             destruct (lookup (AObj c) (fs w0)) as [x0|] eqn:E0; [|right; exact E0].
             left. intros q Hq Hbq. destruct (H3 q c Hq Hbq) as [_ Ho].
             specialize (Ho x0 E0). congruence.
          -- (* ACidRef *)
             intros q Hq Hbq. destruct (H3 q c Hq Hbq) as [[l [Hl _]] _]. congruence.
      + split; [exact HaT|]. split; [|exact HaP].
        intros a' b Hk. simpl in Hk. unfold kupd in Hk.
        destruct (addr_eqb a' a) eqn:E; [|auto].
        apply addr_eqb_true in E. subst. inversion Hk; subst. unfold present. simpl.
        destruct (lookup a m); reflexivity.
    - (* SizeLines *)
      assert (Hfact : xans = ANat 0 -> size_fact a).
      { intros ->. destruct a; simpl; auto.
        destruct (lookup (ACidRef c) m) as [[b' n' i'|c'|l|]|] eqn:El; inversion Hex; subst; try discriminate.
        destruct l; [|discriminate].
        intros q Hq Hbq. destruct HW as (_ & _ & _ & H3).
        destruct (H3 q c Hq Hbq) as [[l [Hl Hin]] _]. simpl in Hl. rewrite El in Hl.
        inversion Hl; subst. contradiction. }
      destruct (lookup a m) as [[]|]; inversion Hex; subst; clear Hex;
        (split; [exact Hfact|split; [split; auto|exact HW]]).
    - (* Read *)
      destruct (lookup a m); inversion Hex; subst; (split; [exact I|split; [split; auto|exact HW]]).
    - (* OpenSrc *) inversion Hex; subst. (split; [exact I|split; [split; auto|exact HW]]).
    - (* MkTmp *)
      inversion Hex; subst; clear Hex.
      destruct (fresh_tmp_shape ar 0 m) as [n Hn].
      pose proof (fresh_tmp_absent ar 0 m) as Hab. rewrite Hn in *.
      split; [|split].
      + exists n. split; [reflexivity|].
        destruct (gT G (ATmp ar 0 n)) eqn:E; auto.
        apply HaT in E; [|reflexivity]. simpl in E. congruence.
      + apply agree_reset. intros a v Ha Hv. simpl. rewrite lookup_update. unfold tupd in Hv.
        destruct (addr_eqb a (ATmp ar 0 n)); auto.
      + apply WI_frame; [exact HW| |].
        * intros a. simpl. rewrite lookup_update.
          destruct (addr_eqb a (ATmp ar 0 n)) eqn:E; [|auto].
          apply addr_eqb_true in E. subst. right. exact I.
        * intros a v Hl. rewrite lookup_update in Hl.
          destruct (addr_eqb a (ATmp ar 0 n)) eqn:E; [|auto].
          apply addr_eqb_true in E. subst. right. exact I.
    - (* WriteChunk *)
      destruct Hpre as [Hown [b [n [j HT]]]].
      pose proof (HaT _ _ Hown HT) as Hl. simpl in Hl. rewrite Hl in Hex.
      inversion Hex; subst; clear Hex. rewrite HT.
      split; [reflexivity|]. split.
      + apply agree_reset. intros a v Ha Hv. simpl. rewrite lookup_update. unfold tupd in Hv.
        destruct (addr_eqb a t); auto.
      + apply WI_frame; [exact HW| |].
        * intros a. simpl. rewrite lookup_update.
          destruct (addr_eqb a t) eqn:E; [|auto].
          apply addr_eqb_true in E. subst. right. apply mine_tmp. eapply ownb_tmpb; eauto.
        * intros a v Hl'. rewrite lookup_update in Hl'.
          destruct (addr_eqb a t) eqn:E; [|auto].
          apply addr_eqb_true in E. subst. right. apply good2_untyped.
          destruct t; simpl in Hown; try discriminate; reflexivity.
    - (* OpenWr *)
      inversion Hex; subst; clear Hex.
      split; [exact I|]. split.
      + apply agree_reset. intros a v Ha Hv. simpl. rewrite lookup_update. unfold tupd in Hv.
        destruct (addr_eqb a t); auto.
      + apply WI_frame; [exact HW| |].
        * intros a. simpl. rewrite lookup_update.
          destruct (addr_eqb a t) eqn:E; [|auto].
          apply addr_eqb_true in E. subst. right. apply mine_tmp. eapply ownb_tmpb; eauto.
        * intros a v Hl'. rewrite lookup_update in Hl'.
          destruct (addr_eqb a t) eqn:E; [|auto].
          apply addr_eqb_true in E. subst. right. apply good2_untyped.
          destruct t; simpl in Hpre; try discriminate; reflexivity.
    - (* Rename *)
      destruct Hpre as (Hd & Hms & Hmd & Hs).
      destruct (lookup src m) as [c|] eqn:El.
      + inversion Hex; subst; clear Hex.
        split; [exact I|]. split.
        * apply agree_reset. intros a v Ha Hv. simpl.
          rewrite lookup_update_neq by (apply own_neq_nontmp0; auto).
          rewrite lookup_delete. destruct (ownb 0 src) eqn:Eo.
          -- unfold tdel in Hv. destruct (addr_eqb a src); [discriminate|]. auto.
          -- destruct (addr_eqb a src) eqn:E; [|auto].
             apply addr_eqb_true in E. subst. congruence.
        * apply WI_frame; [exact HW| |].
          -- intros a. simpl. rewrite lookup_update.
             destruct (addr_eqb a dst) eqn:E; [apply addr_eqb_true in E; subst; auto|].
             rewrite lookup_delete.
             destruct (addr_eqb a src) eqn:E2; [apply addr_eqb_true in E2; subst; auto|auto].
          -- intros a v Hl'. rewrite lookup_update in Hl'.
             destruct (addr_eqb a dst) eqn:E.
             ++ apply addr_eqb_true in E. subst. inversion Hl'; subst. right.
                destruct (tyb dst) eqn:Et; [|apply good2_untyped; exact Et].
                destruct (ownb 0 src) eqn:Eo; [|destruct Hs; congruence].
                destruct (Hs eq_refl) as [v' [HT [Hg _]]].
                apply HaT in HT; auto. simpl in HT. congruence.
             ++ rewrite lookup_delete in Hl'. destruct (addr_eqb a src); [discriminate|auto].
      + inversion Hex; subst; clear Hex.
        split; [exact I|]. split; [|exact HW].
        apply agree_reset. intros a v Ha Hv. destruct (ownb 0 src); [|auto].
        unfold tdel in Hv. destruct (addr_eqb a src); [discriminate|auto].
    - (* Remove *)
      destruct Hpre as [Hown Hm].
      destruct (lookup a m) as [c|] eqn:El.
      + inversion Hex; subst; clear Hex.
        split; [exact I|]. split.
        * apply agree_reset. intros y v Hy Hv. simpl. rewrite lookup_delete.
          destruct (ownb 0 a) eqn:Eo.
          -- unfold tdel in Hv. destruct (addr_eqb y a); [discriminate|auto].
          -- destruct (addr_eqb y a) eqn:E; [|auto].
             apply addr_eqb_true in E. subst. congruence.
        * apply WI_frame; [exact HW| |].
          -- intros y. simpl. rewrite lookup_delete.
             destruct (addr_eqb y a) eqn:E; [apply addr_eqb_true in E; subst; auto|auto].
          -- intros y v Hl'. rewrite lookup_delete in Hl'.
             destruct (addr_eqb y a); [discriminate|auto].
      + inversion Hex; subst; clear Hex.
        split; [exact I|]. split; [|exact HW].
        apply agree_reset. intros y v Hy Hv. destruct (ownb 0 a); [|auto].
        unfold tdel in Hv. destruct (addr_eqb y a); [discriminate|auto].
    - (* MkDirs *) inversion Hex; subst. (split; [exact I|split; [split; auto|exact HW]]).
    - (* ListDir *)
      inversion Hex; subst; clear Hex. split; [|split; [split; auto|exact HW]].
      eexists. split; [reflexivity|]. intros a Ha. apply filter_In in Ha. apply Ha.
    - (* AppendOpen *)
      destruct Hpre as [c ->].
      destruct (lookup (ACidRef c) m) eqn:El; inversion Hex; subst; clear Hex.
      + split; [exact I|]. split; [apply agree_reset; exact HaT|exact HW].
      + split; [exact I|]. split.
        * apply agree_reset. intros y v Hy Hv. simpl. rewrite lookup_update_neq; auto.
          intros ->. discriminate.
        * apply (WI_cidref (mkWorld m L) c []); [exact HW|].
          intros l q Hl. simpl in Hl. congruence.
    - (* AppendWrite *)
      destruct Hpre as [c ->].
      destruct (lookup (ACidRef c) m) as [[b' n' i'|c'|l|]|] eqn:El; inversion Hex; subst; clear Hex;
        try (split; [exact I|]; split; [apply agree_reset; exact HaT|exact HW]).
      + split; [exact I|]. split.
        * apply agree_reset. intros y v Hy Hv. simpl. rewrite lookup_update_neq; auto.
          intros ->. discriminate.
        * apply (WI_cidref (mkWorld m L) c (l ++ [p0])); [exact HW|].
          intros l1 q Hl. simpl in Hl. rewrite El in Hl. inversion Hl; subst.
          intros _ Hin. apply in_or_app. auto.
      + split; [exact I|]. split.
        * apply agree_reset. intros y v Hy Hv. simpl. rewrite lookup_update_neq; auto.
          intros ->. discriminate.
        * apply (WI_cidref (mkWorld m L) c [p0]); [exact HW|].
          intros l1 q Hl. simpl in Hl. congruence.
    - (* OpenRW *)
      destruct (lookup a m); inversion Hex; subst; (split; [exact I|split; [split; auto|exact HW]]).
    - (* RewriteWrite *)
      destruct Hpre as [[c ->] ->]. simpl.
      destruct (lookup (ACidRef c) m) as [[b' n' i'|c'|l|]|] eqn:El; inversion Hex; subst; clear Hex;
        try (split; [exact I|]; split; [apply agree_reset; exact HaT|exact HW]).
      split; [exact I|]. split.
      + split; [|split].
        * intros y v Hy Hv. simpl in *. rewrite lookup_update_neq; auto. intros ->. discriminate.
        * intros y b Hk. discriminate.
        * intros c' n Hp. simpl in Hp. inversion Hp; subst c' n.
          intros l1 Hl1. simpl in Hl1. rewrite lookup_update_eq in Hl1. inversion Hl1; subst l1.
          intros q Hq Hin. rewrite firstn_app_exact.
          apply in_app_or in Hin. destruct Hin as [Hin|Hin]; [exact Hin|].
          unfold filter_lines. apply filter_In. split.
          -- eapply In_skipn_in. exact Hin.
          -- apply negb_true_iff. apply Nat.eqb_neq. exact Hq.
      + apply (WI_cidref (mkWorld m L) c); [exact HW|].
        intros l1 q Hl. simpl in Hl. rewrite El in Hl. inversion Hl; subst.
        intros Hq Hin. apply firstn_filter_keep; assumption.
    - (* Truncate *)
      destruct Hpre as [c [-> HP]].
      destruct (lookup (ACidRef c) m) as [[b' n' i'|c'|l|]|] eqn:El; inversion Hex; subst; clear Hex;
        try (split; [exact I|]; split; [apply agree_reset; exact HaT|exact HW]).
      split; [exact I|]. split.
      + apply agree_reset. intros y v Hy Hv. simpl. rewrite lookup_update_neq; auto.
        intros ->. discriminate.
      + apply (WI_cidref (mkWorld m L) c); [exact HW|].
        intros l1 q Hl. simpl in Hl. rewrite El in Hl. inversion Hl; subst.
        intros Hq Hin. eapply HaP; eauto.
    - (* Acquire *)
      destruct (memb lock_eqb (cls, i) L); inversion Hex; subst; clear Hex.
      split; [exact I|split; [split; auto|exact HW]].
    - (* Release *)
      destruct (memb lock_eqb (cls, i) L); inversion Hex; subst; clear Hex;
        (split; [exact I|split; [split; auto|exact HW]]).
    - (* Peek *) inversion Hex; subst. (split; [exact I|split; [split; auto|exact HW]]).
    - (* Held *) inversion Hex; subst. (split; [exact I|split; [split; auto|exact HW]]).
  Qed.

  (* ---------- where objects and p's reference come from ---------- *)

  Definition OP (w : world) : Prop :=
    (forall k x, lookup (AObj k) (fs w) = Some x -> lookup (AObj k) (fs w0) = Some x \/ pubO k x) /\
    (forall v, lookup (APidRef p) (fs w) = Some v -> lookup (APidRef p) (fs w0) = Some v \/ pubP v).

  Definition pubaddr (a : addr) : bool := match a with AObj _ | APidRef _ => true | _ => false end.

  Lemma step_new_content : forall o G w x w' a v,
    agreeG G w -> oppre o G -> exec_op 0 o w = Some (x, w') -> pubaddr a = true ->
    lookup a (fs w') = Some v -> lookup a (fs w) = Some v \/ pubok a v.
  Proof.
    intros o G w x w' a v Hag Hpre Hex Ha Hv.
    destruct (lookup a (fs w)) as [v0|] eqn:E0.
    - destruct (fcontent_eqb v0 v) eqn:Ev; [apply fcontent_eqb_true in Ev; subst; auto|].
      assert (Hne : lookup a (fs w) <> lookup a (fs w')).
      { rewrite E0, Hv. intros H. inversion H; subst.
        assert (fcontent_eqb v v = true).
        { destruct v; simpl; rewrite ?Nat.eqb_refl; auto.
          apply (list_eqb_refl Nat.eqb Nat.eqb_refl). }
        congruence. }
      destruct (change_needs_rename_or_remove 0 o w x w' a Hex Hne) as [[s ->]|[[d ->]|[->|[Hi|Hm]]]].
      + destruct w as [m L]. simpl in *. destruct Hpre as (Hd & _ & _ & Hs).
        destruct (lookup s m) as [c|] eqn:El; inversion Hex; subst; clear Hex; [|simpl in Hv; first [congruence | left; congruence]].
        simpl in Hv. rewrite lookup_update_eq in Hv. inversion Hv; subst c.
        destruct (ownb 0 s) eqn:Eo.
        * assert (Ht : tyb a = true) by (destruct a; simpl in *; congruence).
          destruct (Hs Ht) as [v' [HT [_ Hp]]]. destruct Hag as (HaT & _).
          apply HaT in HT; auto. simpl in HT. right. congruence.
        * destruct Hs as [_ Ht]. destruct a; simpl in *; congruence.
      + destruct w as [m L]. simpl in *.
        destruct (lookup a m) as [c|] eqn:El; inversion Hex; subst; clear Hex; [|simpl in Hv; first [congruence | left; congruence]].
        simpl in Hv. rewrite lookup_update in Hv.
        destruct (addr_eqb a d) eqn:E; [inversion Hv; subst; left; congruence|].
        rewrite lookup_delete_eq in Hv. discriminate.
      + destruct w as [m L]. simpl in *.
        destruct (lookup a m) as [c|] eqn:El; inversion Hex; subst; clear Hex; [|simpl in Hv; first [congruence | left; congruence]].
        simpl in Hv. rewrite lookup_delete_eq in Hv. discriminate.
      + exfalso. destruct o; simpl in Hi; try discriminate; inversion Hi; subst; simpl in Hpre.
        * destruct Hpre as [H _]. destruct a; simpl in *; discriminate.
        * destruct a; simpl in *; discriminate.
        * destruct Hpre as [c ->]. discriminate.
        * destruct Hpre as [c ->]. discriminate.
        * destruct Hpre as [[c ->] _]. discriminate.
        * destruct Hpre as [c [-> _]]. discriminate.
      + exfalso. destruct Hm as [ar [init [_ Ht]]]. destruct a; simpl in *; discriminate.
    - assert (Hne : lookup a (fs w) <> lookup a (fs w')) by (rewrite E0, Hv; discriminate).
      destruct (change_needs_rename_or_remove 0 o w x w' a Hex Hne) as [[s ->]|[[d ->]|[->|[Hi|Hm]]]].
      + destruct w as [m L]. simpl in *. destruct Hpre as (Hd & _ & _ & Hs).
        destruct (lookup s m) as [c|] eqn:El; inversion Hex; subst; clear Hex; [|simpl in Hv; first [congruence | left; congruence]].
        simpl in Hv. rewrite lookup_update_eq in Hv. inversion Hv; subst c.
        destruct (ownb 0 s) eqn:Eo.
        * assert (Ht : tyb a = true) by (destruct a; simpl in *; congruence).
          destruct (Hs Ht) as [v' [HT [_ Hp]]]. destruct Hag as (HaT & _).
          apply HaT in HT; auto. simpl in HT. right. congruence.
        * destruct Hs as [_ Ht]. destruct a; simpl in *; congruence.
      + destruct w as [m L]. simpl in *. rewrite E0 in Hex. inversion Hex; subst. simpl in Hv. congruence.
      + destruct w as [m L]. simpl in *. rewrite E0 in Hex. inversion Hex; subst. simpl in Hv. congruence.
      + exfalso. destruct o; simpl in Hi; try discriminate; inversion Hi; subst; simpl in Hpre.
        * destruct Hpre as [H _]. destruct a; simpl in *; discriminate.
        * destruct a; simpl in *; discriminate.
        * destruct Hpre as [c ->]. discriminate.
        * destruct Hpre as [c ->]. discriminate.
        * destruct Hpre as [[c ->] _]. discriminate.
        * destruct Hpre as [c [-> _]]. discriminate.
      + exfalso. destruct Hm as [ar [init [_ Ht]]]. destruct a; simpl in *; discriminate.
  Qed.

  Lemma step_OP : forall o G w x w',
    agreeG G w -> oppre o G -> exec_op 0 o w = Some (x, w') -> OP w -> OP w'.
  Proof.
    intros o G w x w' Hag Hpre Hex [HO HP]. split.
    - intros k y Hy.
      destruct (step_new_content o G w x w' (AObj k) y Hag Hpre Hex eq_refl Hy) as [H|H]; auto.
    - intros v Hv.
      destruct (step_new_content o G w x w' (APidRef p) v Hag Hpre Hex eq_refl Hv) as [H|H]; auto.
  Qed.
End Frame.

Arguments Safe w0 p pubO pubP {A} m G Q.

(* ================================================================================== *)
(* Combinators and the API discipline                                                 *)
(* ================================================================================== *)

Section ApiFrame.
  Variable w0 : world.
  Variable p : pid.
  Variable pubO : cid -> fcontent -> Prop.
  Variable pubP : fcontent -> Prop.
  Notation Safe := (Safe w0 p pubO pubP).
  Notation oppre := (oppre w0 p pubO pubP).
  Notation free := (free w0 p).
  Notation objfree := (objfree w0 p).
  Notation mine := (mine w0 p).

  Lemma safe_weaken : forall A (m : prog A) G (Q Q' : A -> ghost -> Prop),
    Safe m G Q -> (forall a G', Q a G' -> Q' a G') -> Safe m G Q'.
  Proof.
    induction m as [a|o k IH|]; simpl; intros G Q Q' H HQ; auto.
    destruct H as [H1 H2]. split; auto. intros x Hx. eapply IH; eauto.
  Qed.

  Lemma safe_bind : forall A B (m : prog A) (f : A -> prog B) G Q1 Q,
    Safe m G Q1 -> (forall a G', Q1 a G' -> Safe (f a) G' Q) -> Safe (bind m f) G Q.
  Proof.
    induction m as [a|o k IH|]; simpl; intros f G Q1 Q H Hf; auto.
    destruct H as [H1 H2]. split; auto. intros x Hx. eapply IH; eauto.
  Qed.

  Lemma safe_mbind : forall A B (m : M A) (f : A -> M B) G Q1 Q,
    Safe m G Q1 ->
    (forall a G', Q1 (Val a) G' -> Safe (f a) G' Q) ->
    (forall e G', Q1 (Exn e) G' -> Q (Exn e) G') ->
    Safe (mbind m f) G Q.
  Proof.
    intros A B m f G Q1 Q H Hf He. unfold mbind. eapply safe_bind; [exact H|].
    intros [a|e] G' HQ; simpl; auto.
  Qed.

  Definition post_v {A} (P : A -> Prop) : outcome A -> ghost -> Prop :=
    fun r _ => match r with Val a => P a | Exn _ => True end.

  Definition OkV {A} (m : M A) (P : A -> Prop) : Prop := forall G, Safe m G (post_v P).
  Notation Ok m := (OkV m (fun _ => True)).

  Lemma okv_ret : forall A (a : A) (P : A -> Prop), P a -> OkV (ret a) P.
  Proof. intros A a P H G. exact H. Qed.
  Lemma ok_ret : forall A (a : A), Ok (ret a).
  Proof. intros A a G. exact I. Qed.
  Lemma okv_raise : forall A e (P : A -> Prop), OkV (raise e) P.
  Proof. intros A e P G. exact I. Qed.
  Lemma okv_bad : forall A (P : A -> Prop), OkV Bad P.
  Proof. intros A P G. exact I. Qed.

  Lemma okv_weaken : forall A (m : M A) (P P' : A -> Prop),
    OkV m P -> (forall a, P a -> P' a) -> OkV m P'.
  Proof.
    intros A m P P' H HP G. eapply safe_weaken; [apply H|].
    intros [a|e] G' HQ; simpl in *; auto.
  Qed.

  Lemma okv_mbind : forall A B (m : M A) (f : A -> M B) (P : A -> Prop) (Q : B -> Prop),
    OkV m P -> (forall a, P a -> OkV (f a) Q) -> OkV (mbind m f) Q.
  Proof.
    intros A B m f P Q Hm Hf G. eapply safe_mbind; [apply Hm| |].
    - intros a G' HP. apply Hf. exact HP.
    - intros e G' _. exact I.
  Qed.

  Lemma ok_mbind : forall A B (m : M A) (f : A -> M B) (Q : B -> Prop),
    Ok m -> (forall a, OkV (f a) Q) -> OkV (mbind m f) Q.
  Proof. intros. eapply okv_mbind; [eassumption|]. intros a _. auto. Qed.

  Lemma okv_catch : forall A (m : M A) (P : A -> Prop),
    OkV m P -> OkV (catch m) (fun r => match r with Val a => P a | Exn _ => True end).
  Proof.
    intros A m P H G. unfold catch. eapply safe_bind; [apply H|].
    intros [a|e] G' HQ; simpl in *; auto.
  Qed.
  Lemma ok_catch : forall A (m : M A), Ok m -> Ok (catch m).
  Proof. intros A m H. eapply okv_weaken; [apply okv_catch; exact H|]. auto. Qed.

  Lemma safe_try_finally : forall A (m : M A) (fin : M unit) G (P : A -> Prop),
    Safe m G (post_v P) -> Ok fin -> Safe (try_finally m fin) G (post_v P).
  Proof.
    intros A m fin G P Hm Hf. unfold try_finally. eapply safe_bind; [exact Hm|].
    intros r G' Hr. eapply safe_bind; [apply Hf|].
    intros [[]|e] G'' _; simpl; auto.
  Qed.

  Lemma okv_try_finally : forall A (m : M A) (fin : M unit) (P : A -> Prop),
    OkV m P -> Ok fin -> OkV (try_finally m fin) P.
  Proof. intros A m fin P Hm Hf G. apply safe_try_finally; auto. Qed.

  Lemma okv_vis : forall A o (k : ans -> M A) (P : A -> Prop),
    (forall G, oppre o G) -> (forall x, OkV (k x) P) -> OkV (Vis o k) P.
  Proof. intros A o k P Hpre Hk G. simpl. split; [apply Hpre|]. intros x _. apply Hk. Qed.

  (* ---------- the typed wrappers ---------- *)

  Lemma okv_probe : forall a, OkV (probe a) (fun b => b = false -> absent_fact w0 p a).
  Proof.
    intros a G. simpl. split; [exact I|]. intros x [b [-> [_ Hf]]]. simpl. exact Hf.
  Qed.
  Lemma ok_probe : forall a, Ok (probe a).
  Proof. intros a. eapply okv_weaken; [apply okv_probe|]. auto. Qed.
  Lemma ok_read : forall a, Ok (read a).
  Proof.
    intros a. apply okv_vis; [intros; exact I|].
    intros []; try apply okv_bad; try apply ok_ret; apply okv_raise.
  Qed.
  Lemma okv_size_lines : forall a, OkV (size_lines a) (fun n => n = 0 -> size_fact w0 p a).
  Proof.
    intros a G. simpl. split; [exact I|]. intros x Hx. destruct x; simpl; auto;
      try (intros ->; apply Hx; reflexivity).
  Qed.
  Lemma ok_size_lines : forall a, Ok (size_lines a).
  Proof. intros a. eapply okv_weaken; [apply okv_size_lines|]. auto. Qed.
  Lemma ok_peek : forall cls x, Ok (peek cls x).
  Proof. intros. apply okv_vis; [intros; exact I|]. intros []; try apply okv_bad. apply ok_ret. Qed.
  Lemma ok_held : forall cls x, Ok (held cls x).
  Proof. intros. apply okv_vis; [intros; exact I|]. intros []; try apply okv_bad. apply ok_ret. Qed.
  Lemma ok_acquire : forall cls x, Ok (acquire cls x).
  Proof. intros. apply okv_vis; [intros; exact I|]. intros []; try apply okv_bad. apply ok_ret. Qed.
  Lemma ok_release : forall cls x, Ok (release cls x).
  Proof.
    intros. apply okv_vis; [intros; exact I|].
    intros []; try apply okv_bad; try apply ok_ret; apply okv_raise.
  Qed.
  Lemma ok_funlock : forall a, Ok (funlock a).
  Proof. intros. apply okv_vis; [intros; exact I|]. intros []; try apply okv_bad; apply ok_ret. Qed.

  Lemma ok_unit_op : forall o, (forall G, oppre o G) -> Ok (unit_op o).
  Proof.
    intros o H. apply okv_vis; [exact H|].
    intros []; try apply okv_bad; try apply ok_ret; apply okv_raise.
  Qed.
  Lemma ok_swallow_op : forall o, (forall G, oppre o G) -> Ok (swallow_op o).
  Proof.
    intros o H. apply okv_vis; [exact H|]. intros []; try apply okv_bad; apply ok_ret.
  Qed.

  Definition ol (l : list addr) : Prop := forall a, In a l -> owned_by p a = true.
  Definition dl (l : list addr) : Prop := forall a, In a l -> exists x, a = ADel x.

  Lemma okv_listdir : OkV (listdir p) ol.
  Proof. intros G. simpl. split; [exact I|]. intros x [l [-> Hl]]. simpl. exact Hl. Qed.

  Lemma owned_mine : forall a, owned_by p a = true -> tmpb a = false /\ mine a.
  Proof.
    intros a H. unfold owned_by in H. destruct a; simpl in *; try discriminate.
    - apply Nat.eqb_eq in H. auto.
    - auto.
  Qed.

  Lemma pre_rename_del : forall a G, tmpb a = false -> mine a -> oppre (Rename a (ADel a)) G.
  Proof.
    intros a G H Hm. simpl. split; [reflexivity|]. split; [exact Hm|]. split; [exact I|].
    assert (Ho : ownb 0 a = false) by (destruct a; simpl in *; congruence).
    rewrite Ho. auto.
  Qed.
  Lemma pre_remove_nt : forall a G, tmpb a = false -> mine a -> oppre (Remove a) G.
  Proof. intros a G H Hm. simpl. split; [congruence|exact Hm]. Qed.
  Lemma pre_remove_own : forall a G, ownb 0 a = true -> oppre (Remove a) G.
  Proof.
    intros a G H. simpl. split; [auto|]. apply mine_tmp. eapply ownb_tmpb. exact H.
  Qed.

  Lemma ok_unit_remove_own : forall t, ownb 0 t = true -> Ok (unit_op (Remove t)).
  Proof. intros. apply ok_unit_op. intros. apply pre_remove_own. assumption. Qed.
  Lemma ok_swallow_remove_own : forall t, ownb 0 t = true -> Ok (swallow_op (Remove t)).
  Proof. intros. apply ok_swallow_op. intros. apply pre_remove_own. assumption. Qed.
  Lemma ok_unit_remove_nt : forall a, tmpb a = false -> mine a -> Ok (unit_op (Remove a)).
  Proof. intros. apply ok_unit_op. intros. apply pre_remove_nt; assumption. Qed.
  Lemma ok_swallow_remove_nt : forall a, tmpb a = false -> mine a -> Ok (swallow_op (Remove a)).
  Proof. intros. apply ok_swallow_op. intros. apply pre_remove_nt; assumption. Qed.
  Lemma ok_unit_mkdirs : forall a, Ok (unit_op (MkDirs a)).
  Proof. intros. apply ok_unit_op. intros. exact I. Qed.
  Lemma ok_unit_openrw : forall a, Ok (unit_op (OpenRW a)).
  Proof. intros. apply ok_unit_op. intros. exact I. Qed.
  Lemma ok_unit_opensrc : Ok (unit_op OpenSrc).
  Proof. intros. apply ok_unit_op. intros. exact I. Qed.
  Lemma ok_unit_acquire : forall cls x, Ok (unit_op (Acquire cls x)).
  Proof. intros. apply ok_unit_op. intros. exact I. Qed.
  Lemma ok_unit_appendopen : forall c, Ok (unit_op (AppendOpen (ACidRef c))).
  Proof. intros. apply ok_unit_op. intros. simpl. eauto. Qed.
  Lemma ok_unit_appendwrite : forall c q, Ok (unit_op (AppendWrite (ACidRef c) q)).
  Proof. intros. apply ok_unit_op. intros. simpl. eauto. Qed.

  Hint Resolve ok_probe ok_read ok_size_lines ok_peek ok_held ok_acquire ok_release ok_funlock
       ok_unit_remove_own ok_swallow_remove_own ok_unit_mkdirs ok_unit_openrw ok_unit_opensrc
       ok_unit_acquire ok_unit_appendopen ok_unit_appendwrite ok_ret okv_raise okv_bad : okdb.

  Ltac okauto :=
    repeat (intros; first
      [ solve [eauto 3 with okdb]
      | apply ok_mbind
      | apply ok_catch
      | apply okv_try_finally
      | apply okv_ret; reflexivity
      | match goal with
        | |- OkV (match ?x with _ => _ end) _ => destruct x
        end ]).
  Ltac okd := solve [okauto].

  Lemma ok_read_cid : forall a, Ok (read_cid a).
  Proof. unfold read_cid. okauto. Qed.
  Hint Resolve ok_read_cid : okdb.
  Lemma ok_read_lines : forall a, Ok (read_lines a).
  Proof. unfold read_lines. okauto. Qed.
  Hint Resolve ok_read_lines : okdb.
  Lemma ok_is_in_refs : forall q a, Ok (is_in_refs q a).
  Proof. unfold is_in_refs. okauto. Qed.
  Hint Resolve ok_is_in_refs : okdb.
  Lemma ok_find_object : forall q, Ok (find_object q).
  Proof. unfold find_object. okauto. Qed.
  Hint Resolve ok_find_object : okdb.
  Lemma ok_open_object : forall c, Ok (open_object c).
  Proof. unfold open_object. okauto. Qed.
  Hint Resolve ok_open_object : okdb.
  Lemma ok_retrieve_object : forall q, Ok (retrieve_object q).
  Proof. unfold retrieve_object. okauto. Qed.
  Hint Resolve ok_retrieve_object : okdb.
  Lemma ok_get_hex_digest : forall q, Ok (get_hex_digest q).
  Proof. unfold get_hex_digest. okauto. Qed.
  Hint Resolve ok_get_hex_digest : okdb.

  Definition isdel (d : addr) : Prop := exists x, d = ADel x.

  Lemma okv_rename_for_deletion : forall a, tmpb a = false -> mine a ->
    OkV (rename_for_deletion a) isdel.
  Proof.
    intros a H Hm. unfold rename_for_deletion. apply ok_mbind.
    - apply ok_unit_op. intros. apply pre_rename_del; assumption.
    - intros _. apply okv_ret. exists a. reflexivity.
  Qed.

  Lemma dl_nil : dl [].
  Proof. intros a []. Qed.
  Lemma dl_cons : forall a l, isdel a -> dl l -> dl (a :: l).
  Proof. intros a l H Hl x [<-|Hx]; auto. Qed.
  Lemma dl_app : forall l1 l2, dl l1 -> dl l2 -> dl (l1 ++ l2).
  Proof. intros l1 l2 H1 H2 x Hx. apply in_app_or in Hx. destruct Hx; auto. Qed.
  Lemma dl_inv : forall a l, dl (a :: l) -> isdel a /\ dl l.
  Proof. intros a l H. split; [apply H; left; reflexivity|]. intros x Hx. apply H. right. exact Hx. Qed.
  Hint Resolve dl_nil dl_cons dl_app : okdb.

  Lemma ok_delete_marked : forall l, dl l -> Ok (delete_marked l).
  Proof.
    induction l as [|a l IH]; intros H; simpl.
    - apply ok_ret.
    - apply dl_inv in H. destruct H as [[x ->] Hl]. apply ok_mbind.
      + apply ok_swallow_remove_nt; [reflexivity|exact I].
      + intros _. auto.
  Qed.
  Hint Resolve ok_delete_marked : okdb.

  (* the rewrite of a cid list and its truncation: only p is dropped *)
  Lemma ok_rewrite_truncate : forall c,
    Ok (k <- rewrite_write (ACidRef c) p ;; unit_op (Truncate (ACidRef c) k)).
  Proof.
    intros c G. unfold rewrite_write, unit_op, mbind, ret, raise. simpl.
    split; [split; eauto|]. intros x _. destruct x; simpl; auto.
    split; [exists c; split; reflexivity|]. intros x _. destruct x; simpl; auto.
  Qed.

  Lemma ok_update_refs_remove : forall c, Ok (update_refs_remove (ACidRef c) p).
  Proof.
    intros. unfold update_refs_remove.
    apply ok_mbind; [okd|]. intros b. destruct (negb b); [apply okv_raise|].
    apply ok_mbind; [okd|]. intros _.
    apply okv_try_finally; [|okd].
    apply ok_mbind; [okd|]. intros _. apply ok_rewrite_truncate.
  Qed.
  Hint Resolve ok_update_refs_remove : okdb.
  Lemma ok_update_refs_add : forall c q, Ok (update_refs_add (ACidRef c) q).
  Proof. intros. unfold update_refs_add. okauto. Qed.
  Hint Resolve ok_update_refs_add : okdb.
  Lemma ok_verify_refs : forall q c, Ok (verify_refs q c).
  Proof. intros. unfold verify_refs. okauto. Qed.
  Hint Resolve ok_verify_refs : okdb.
  Lemma ok_validate : forall c c', Ok (validate_and_check_cid_lock c c').
  Proof. intros. unfold validate_and_check_cid_lock. okauto. Qed.
  Hint Resolve ok_validate : okdb.

  Lemma mine_pidref : mine (APidRef p).
  Proof. reflexivity. Qed.

  Lemma okv_mark_pid_refs : OkV (mark_pid_refs p) dl.
  Proof.
    unfold mark_pid_refs.
    eapply okv_mbind;
      [apply okv_catch; apply (okv_rename_for_deletion (APidRef p)); [reflexivity|apply mine_pidref]|].
    intros [d|e] H; apply okv_ret; auto with okdb.
  Qed.

  Lemma okv_remove_pid_and_handle_cid : forall c, OkV (remove_pid_and_handle_cid p c) dl.
  Proof.
    intros c. unfold remove_pid_and_handle_cid.
    eapply okv_mbind with (P := fun r => match r with Val l => dl l | Exn _ => True end).
    - apply okv_catch. apply ok_mbind; [okd|]. intros _.
      eapply okv_mbind; [apply okv_size_lines|]. intros n Hn. destruct (Nat.eqb n 0) eqn:En.
      + apply Nat.eqb_eq in En. specialize (Hn En). simpl in Hn.
        eapply okv_mbind; [apply (okv_rename_for_deletion (ACidRef c)); [reflexivity|exact Hn]|].
        intros d Hd. apply okv_ret. auto with okdb.
      + apply okv_ret. auto with okdb.
    - intros [l|e] H; apply okv_ret; auto with okdb.
  Qed.

  Lemma ok_untag_object : forall c, Ok (untag_object p c).
  Proof.
    intros c. unfold untag_object.
    apply ok_mbind; [okd|]. intros h. destruct (negb h); [apply okv_raise|].
    apply ok_mbind; [okd|]. intros r.
    assert (H12 : Ok (l1 <- mark_pid_refs p ;; l2 <- remove_pid_and_handle_cid p c ;; delete_marked (l1 ++ l2))).
    { eapply okv_mbind; [apply okv_mark_pid_refs|]. intros l1 H1.
      eapply okv_mbind; [apply okv_remove_pid_and_handle_cid|]. intros l2 H2.
      auto with okdb. }
    assert (H1 : Ok (l1 <- mark_pid_refs p ;; delete_marked l1)).
    { eapply okv_mbind; [apply okv_mark_pid_refs|]. intros l1 H1. auto with okdb. }
    assert (H2 : Ok (l2 <- remove_pid_and_handle_cid p c ;; delete_marked l2)).
    { eapply okv_mbind; [apply okv_remove_pid_and_handle_cid|]. intros l1 H1'. auto with okdb. }
    destruct r as [c'|e]; [okauto|].
    destruct e; okauto.
  Qed.
  Hint Resolve ok_untag_object : okdb.

  Lemma ok_and_sc : forall m1 m2, Ok m1 -> Ok m2 -> Ok (and_sc m1 m2).
  Proof. intros. unfold and_sc. okauto. Qed.
  Lemma ok_notm : forall m, Ok m -> Ok (notm m).
  Proof. intros. unfold notm. okauto. Qed.
  Hint Resolve ok_and_sc ok_notm : okdb.
  (* ---------- the staging sequences ---------- *)

  Lemma write_refs_tmp_safe : forall content G,
    Safe (write_refs_tmp content) G
      (fun r G' => match r with
                   | Val t => ownb 0 t = true /\ gT G' t = Some content /\
                              (forall x v, gT G x = Some v -> gT G' x = Some v)
                   | Exn _ => True
                   end).
  Proof.
    intros content G. unfold write_refs_tmp, mktmp, unit_op, mbind, ret, raise. simpl.
    split; [exact I|]. intros x [n [-> Hn]]. simpl.
    split; [reflexivity|]. intros x _. destruct x; simpl; auto.
    split; [reflexivity|]. split; [apply tupd_eq|].
    intros x v Hx. unfold tupd. destruct (addr_eqb x (ATmp ArRefs 0 n)) eqn:E; auto.
    apply addr_eqb_true in E. subst. congruence.
  Qed.

  Lemma safe_rename_own : forall t d G v (Q : outcome unit -> ghost -> Prop),
    ownb 0 t = true -> tmpb d = false -> mine d -> gT G t = Some v -> good2 d v ->
    pubok pubO pubP d v ->
    (forall r, Q r (reset (tdel (gT G) t))) ->
    Safe (unit_op (Rename t d)) G Q.
  Proof.
    intros t d G v Q Hown Hd Hm HT Hg Hpub HQ. unfold unit_op. simpl.
    split.
    - split; [exact Hd|]. split; [apply mine_tmp; eapply ownb_tmpb; eauto|]. split; [exact Hm|].
      rewrite Hown. intros _. eauto.
    - intros x _. rewrite Hown. destruct x; simpl; auto.
  Qed.

  (* one probe, as a step that records its answer *)
  Definition Gk (G : ghost) (a : addr) (b : bool) : ghost := mkG (gT G) (kupd (gK G) a b) (gP G).

  Lemma safe_probe_mbind : forall B a (f : bool -> M B) G Q,
    (forall b, (forall b', gK G a = Some b' -> b = b') -> (b = false -> absent_fact w0 p a) ->
               Safe (f b) (Gk G a b) Q) ->
    Safe (mbind (probe a) f) G Q.
  Proof.
    intros B a f G Q H. unfold mbind, probe. simpl. split; [exact I|].
    intros x [b [-> [Hk Hf]]]. simpl. apply H; assumption.
  Qed.

  Lemma safe_probe : forall a G (Q : outcome bool -> ghost -> Prop),
    (forall b, (forall b', gK G a = Some b' -> b = b') -> (b = false -> absent_fact w0 p a) ->
               Q (Val b) (Gk G a b)) ->
    Safe (probe a) G Q.
  Proof.
    intros a G Q H. unfold probe. simpl. split; [exact I|].
    intros x [b [-> [Hk Hf]]]. simpl. apply H; assumption.
  Qed.

  Lemma kupd_eq : forall K a b, kupd K a b a = Some b.
  Proof. intros. unfold kupd. rewrite addr_eqb_refl. reflexivity. Qed.

  (* the three tests of _store_hashstore_refs_files, which re-probe the same two files *)
  Lemma round1 : forall c G,
    Safe (and_sc (probe (APidRef p)) (probe (ACidRef c))) G
      (fun r G' => exists b, r = Val b /\
         (b = false -> gK G' (APidRef p) = Some false \/
                       (gK G' (APidRef p) = Some true /\ gK G' (ACidRef c) = Some false))).
  Proof.
    intros c G. unfold and_sc. apply safe_probe_mbind. intros b1 _ _. destruct b1.
    - apply safe_probe. intros b2 _ _. simpl. exists b2. split; [reflexivity|].
      intros ->. right. split; [|apply kupd_eq]. unfold Gk, kupd. simpl. rewrite Nat.eqb_refl. reflexivity.
    - simpl. exists false. split; [reflexivity|]. intros _. left. apply kupd_eq.
  Qed.

  Lemma round2 : forall c G,
    gK G (APidRef p) = Some false \/ (gK G (APidRef p) = Some true /\ gK G (ACidRef c) = Some false) ->
    Safe (and_sc (probe (APidRef p)) (notm (probe (ACidRef c)))) G
      (fun r G' => exists b, r = Val b /\ (b = false -> gK G' (APidRef p) = Some false)).
  Proof.
    intros c G HK. unfold and_sc, notm. apply safe_probe_mbind. intros b1 Hk1 _. destruct b1.
    - apply safe_probe_mbind. intros b2 Hk2 _. simpl. exists (negb b2). split; [reflexivity|].
      intros Hb. exfalso. destruct HK as [HK|[_ HK]].
      + specialize (Hk1 _ HK). discriminate.
      + simpl in Hk2. specialize (Hk2 _ HK). subst. discriminate.
    - simpl. exists false. split; [reflexivity|]. intros _. apply kupd_eq.
  Qed.

  Lemma round3 : forall c G,
    gK G (APidRef p) = Some false ->
    Safe (and_sc (notm (probe (APidRef p))) (probe (ACidRef c))) G
      (fun r G' => exists b, r = Val b /\ (b = false -> free c)).
  Proof.
    intros c G HK. unfold and_sc, notm.
    unfold mbind at 1. unfold mbind at 1.
    (* notm (probe P) then the second probe *)
    unfold probe at 1. simpl. split; [exact I|].
    intros x [b1 [-> [Hk1 _]]]. simpl. specialize (Hk1 _ HK). subst b1. simpl.
    split; [exact I|]. intros x [b2 [-> [_ Hf]]]. simpl. exists b2. split; [reflexivity|exact Hf].
  Qed.

  Lemma ok_store_refs_body : forall c, pubP (CCid c) -> Ok (store_refs_body p c).
  Proof.
    intros c HpubP. unfold store_refs_body.
    apply ok_mbind; [okd|]. intros _.
    apply ok_mbind; [okd|]. intros _.
    intros G. eapply safe_mbind; [apply round1| |intros e G' [b [H _]]; discriminate].
    intros c1 G1 [b [Hb HK1]]. inversion Hb; subst b; clear Hb.
    destruct c1.
    { assert (H : Ok (catch (verify_refs p c) ;;; @raise unit EHashStoreRefsAlreadyExists)) by okauto.
      apply H. }
    specialize (HK1 eq_refl).
    eapply safe_mbind; [apply round2; exact HK1| |intros e G' [b [H _]]; discriminate].
    intros c2 G2 [b [Hb HK2]]. inversion Hb; subst b; clear Hb.
    destruct c2; [exact I|]. specialize (HK2 eq_refl).
    eapply safe_mbind; [apply round3; exact HK2| |intros e G' [b [H _]]; discriminate].
    intros c3 G3 [b [Hb Hfree]]. inversion Hb; subst b; clear Hb.
    destruct c3.
    - eapply safe_mbind; [apply write_refs_tmp_safe| |intros; exact I].
      intros t T1 (Hown & Ht & _).
      eapply safe_mbind with (Q1 := fun _ _ => True); [|intros _ T2 _|intros; exact I].
      + eapply safe_rename_own; eauto; simpl; eauto.
      + assert (Hrest : Ok (m <- is_in_refs p (ACidRef c) ;;
                            (if m then ret tt else update_refs_add (ACidRef c) p) ;;; verify_refs p c))
          by okauto.
        apply Hrest.
    - specialize (Hfree eq_refl).
      eapply safe_mbind; [apply write_refs_tmp_safe| |intros; exact I].
      intros t1 T1 (Hown1 & Ht1 & _).
      eapply safe_mbind; [apply write_refs_tmp_safe| |intros; exact I].
      intros t2 T2 (Hown2 & Ht2 & Hkeep). apply Hkeep in Ht1.
      assert (Hne : t2 <> t1) by (intros ->; congruence).
      eapply safe_mbind with (Q1 := fun _ G' => G' = reset (tdel (gT T2) t1));
        [|intros _ T3 ->|intros; exact I].
      + eapply safe_rename_own; eauto; simpl; eauto.
      + eapply safe_mbind with (Q1 := fun _ _ => True); [|intros _ T3 _|intros; exact I].
        * eapply safe_rename_own with (v := CLines [p]); eauto; simpl; eauto.
          unfold tdel. apply addr_eqb_neq in Hne. rewrite Hne. exact Ht2.
        * apply (ok_verify_refs p c).
  Qed.
  Hint Resolve ok_store_refs_body : okdb.

  Lemma ok_tag_object : forall c, pubP (CCid c) -> Ok (tag_object p c).
  Proof.
    intros c HpubP. unfold tag_object.
    apply okv_try_finally; [|okauto].
    apply ok_mbind; [okd|]. intros _.
    apply ok_mbind; [okd|]. intros _.
    apply ok_mbind; [okd|]. intros r.
    destruct r as [u|e]; [okauto|]. destruct e; okauto.
  Qed.
  Hint Resolve ok_tag_object : okdb.

  Lemma ok_verify_object : forall pg t sz ck, ownb 0 t = true -> Ok (verify_object pg t sz ck).
  Proof. intros pg t sz ck H. unfold verify_object. destruct sz, ck, pg; okauto. Qed.
  Hint Resolve ok_verify_object : okdb.

  Lemma verify_object_keep : forall pg t sz ck G, ownb 0 t = true ->
    Safe (verify_object pg t sz ck) G
      (fun r G' => match r with Val _ => G' = G | Exn _ => True end).
  Proof.
    intros pg t sz ck G H. unfold verify_object, unit_op, mbind, ret, raise.
    destruct sz, ck, pg; simpl; auto;
      (split; [split; [auto|apply mine_tmp; eapply ownb_tmpb; eauto]|];
       intros x _; destruct x; simpl; auto).
  Qed.

  Lemma keep_mkdirs : forall a G, Safe (unit_op (MkDirs a)) G (fun _ G' => G' = G).
  Proof. intros a G. unfold unit_op. simpl. split; [exact I|]. intros x _. destruct x; simpl; auto. Qed.

  Lemma write_chunks_safe : forall k G t b n j,
    ownb 0 t = true -> gT G t = Some (CData b n j) ->
    Safe (write_chunks t k) G
      (fun r G' => match r with Val _ => gT G' t = Some (CData b n (j + k)) | Exn _ => True end).
  Proof.
    induction k as [|k IH]; intros G t b n j Hown HT.
    - simpl. rewrite Nat.add_0_r. exact HT.
    - simpl. unfold mbind, unit_op. simpl. split; [split; eauto|].
      intros x ->. simpl. rewrite HT.
      replace (j + S k) with (S j + k) by lia.
      apply (IH (reset (tupd (gT G) t (CData b n (S j)))) t b n (S j)); auto. apply tupd_eq.
  Qed.

  Lemma ok_delete_object_file : forall c, objfree c -> Ok (delete_object_file c).
  Proof.
    intros c Hc. unfold delete_object_file.
    apply ok_mbind; [okd|]. intros e. destruct e; [|apply okv_raise].
    apply ok_unit_remove_nt; [reflexivity|exact Hc].
  Qed.

  Lemma ok_move_and_get_checksums : forall po b n sz ck, pubO b (CData b n n) ->
    OkV (move_and_get_checksums po b n sz ck) (fun c0 => c0 = b).
  Proof.
    intros po b n sz ck HpubO G. unfold move_and_get_checksums.
    eapply safe_mbind with
      (Q1 := fun r G' => match r with
                         | Val t => ownb 0 t = true /\ gT G' t = Some (CData b n 0)
                         | Exn _ => True end); [| |intros; exact I].
    { unfold mktmp. simpl. split; [exact I|]. intros x [k [-> Hk]]. simpl.
      split; [reflexivity|apply tupd_eq]. }
    intros t G1 [Hown Ht].
    eapply safe_mbind with
      (Q1 := fun r G' => match r with
                         | Val (Val _) => gT G' t = Some (CData b n n)
                         | _ => True end); [| |intros; exact I].
    { unfold catch. eapply safe_bind; [apply (write_chunks_safe n G1 t b n 0 Hown Ht)|].
      intros [u|e] G' H; simpl; auto. }
    intros w G2 Hw. destruct w as [u|e].
    2:{ assert (H : OkV (swallow_op (Remove t) ;;; @raise cid EGeneric) (fun c0 => c0 = b)) by okauto. apply H. }
    apply safe_probe_mbind. intros e _ Hf. destruct e; simpl negb; cbv iota.
    - assert (H : OkV (r <- catch (verify_object match po with Some _ => true | None => false end t sz ck) ;;
                      match r with
                      | Val _ => unit_op (Remove t);;; ret b
                      | Exn ENonMatchingObjSize =>
                          (if match po with Some _ => true | None => false end
                           then ret tt else unit_op (Remove t));;; raise ENonMatchingObjSize
                      | Exn ENonMatchingChecksum =>
                          (if match po with Some _ => true | None => false end
                           then ret tt else unit_op (Remove t));;; raise ENonMatchingChecksum
                      | Exn other => unit_op (Remove t);;; raise other
                      end) (fun c0 => c0 = b)).
      { apply ok_mbind; [okauto|]. intros [u'|e']; [okauto|]. destruct e'; okauto. }
      apply H.
    - specialize (Hf eq_refl). simpl in Hf.
      set (G3 := Gk G2 (AObj b) false).
      assert (Ht3 : gT G3 t = Some (CData b n n)) by exact Hw.
      eapply safe_mbind with
        (Q1 := fun r G' => match r with Val _ => G' = G3 | Exn _ => True end);
        [apply verify_object_keep; exact Hown| |intros; exact I].
      intros _ G4 ->.
      eapply safe_mbind with (Q1 := fun _ G' => G' = G3); [apply keep_mkdirs| |intros; exact I].
      intros _ G4 ->.
      eapply safe_mbind with (Q1 := fun _ _ => True); [| |intros; exact I].
      + unfold catch. eapply safe_bind with (Q1 := fun _ _ => True); [|intros; exact I].
        eapply safe_rename_own; eauto. simpl. eauto.
      + intros r G4 _. destruct r as [u'|err]; [reflexivity|].
        pose proof (ok_delete_object_file b Hf) as Hdel.
        assert (H : OkV (e2 <- probe (AObj b) ;;
                        if e2
                        then match po with
                             | Some p' =>
                                 d <- get_hex_digest p';;
                                 match d with
                                 | CData b' _ _ =>
                                     if b' =? b then raise err else delete_object_file b;;; raise err
                                 | _ => delete_object_file b;;; raise err
                                 end
                             | None => raise EValueError
                             end
                        else unit_op (Remove t);;; @raise cid err) (fun c0 => c0 = b)) by okauto.
        apply H.
  Qed.
  Lemma ok_move_and_get_checksums' : forall po b n sz ck, pubO b (CData b n n) ->
    Ok (move_and_get_checksums po b n sz ck).
  Proof. intros. eapply okv_weaken; [apply ok_move_and_get_checksums; assumption|]. auto. Qed.
  Hint Resolve ok_move_and_get_checksums' : okdb.

  Lemma ok_open_source : forall s, Ok (open_source s).
  Proof. intros []; simpl; auto with okdb. Qed.
  Hint Resolve ok_open_source : okdb.

  Lemma ok_store_object_pid : forall s b n sz ck, pubO b (CData b n n) -> pubP (CCid b) ->
    Ok (store_object (Some p) s b n sz ck).
  Proof.
    intros s b n sz ck HpubO HpubP.
    pose proof (ok_tag_object b HpubP) as Htag.
    unfold store_object.
    apply ok_mbind; [okd|]. intros busy. destruct busy; [apply okv_raise|].
    apply okv_try_finally; [|okd].
    apply ok_mbind; [okd|]. intros _.
    apply ok_mbind; [okd|]. intros _.
    eapply okv_mbind; [apply (ok_move_and_get_checksums (Some p) b n sz ck HpubO)|].
    intros c0 ->. okauto.
  Qed.
  Lemma ok_store_object_nopid : forall s b n sz ck, pubO b (CData b n n) ->
    Ok (store_object None s b n sz ck).
  Proof.
    intros s b n sz ck HpubO.
    pose proof (ok_move_and_get_checksums' None b n VSzNone VCkNone HpubO) as Hmv.
    unfold store_object. okauto.
  Qed.

  Lemma ol_inv : forall a l, ol (a :: l) -> owned_by p a = true /\ ol l.
  Proof. intros a l H. split; [apply H; left; reflexivity|]. intros x Hx. apply H. right. exact Hx. Qed.

  Lemma okv_probe_all : forall l, ol l -> OkV (probe_all l) ol.
  Proof.
    induction l as [|a l IH]; intros H; simpl.
    - apply okv_ret. intros x [].
    - apply ol_inv in H. destruct H as [Ha Hl].
      apply ok_mbind; [okd|]. intros b.
      eapply okv_mbind; [apply IH; exact Hl|]. intros r Hr.
      apply okv_ret. destruct b; auto. intros x [<-|Hx]; auto.
  Qed.

  Lemma okv_mark_docs : forall l, ol l -> OkV (mark_docs l) dl.
  Proof.
    induction l as [|a l IH]; intros H; simpl.
    - apply okv_ret. apply dl_nil.
    - apply ol_inv in H. destruct H as [Ha Hl]. apply owned_mine in Ha. destruct Ha as [Ha Hm].
      apply ok_mbind; [okd|]. intros _.
      eapply okv_mbind with (P := dl).
      + apply okv_try_finally; [|okd].
        apply ok_mbind; [okd|]. intros b. destruct b.
        * eapply okv_mbind; [apply okv_catch; apply okv_rename_for_deletion; assumption|].
          intros [d|e] Hd.
          -- apply okv_ret. auto with okdb.
          -- destruct e; try apply okv_raise. apply okv_ret. apply dl_nil.
        * apply okv_ret. apply dl_nil.
      + intros d Hd. eapply okv_mbind; [apply IH; exact Hl|]. intros r Hr.
        apply okv_ret. auto with okdb.
  Qed.

  Lemma ok_delete_metadata : forall f, Ok (delete_metadata p f).
  Proof.
    intros f. unfold delete_metadata. destruct f as [f'|].
    - apply ok_mbind; [okd|]. intros _. apply okv_try_finally; [|okd].
      apply ok_mbind; [okd|]. intros b. destruct b; [|apply ok_ret].
      apply ok_unit_remove_nt; reflexivity.
    - eapply okv_mbind; [apply okv_listdir|]. intros l Hl.
      eapply okv_mbind; [apply okv_probe_all; exact Hl|]. intros l' Hl'.
      eapply okv_mbind; [apply okv_mark_docs; exact Hl'|]. intros ds Hds.
      auto with okdb.
  Qed.
  Hint Resolve ok_delete_metadata : okdb.

  Lemma free_objfree : forall c, free c -> objfree c.
  Proof. intros c H. left. exact H. Qed.

  Lemma ok_delete_object : Ok (delete_object p).
  Proof.
    unfold delete_object.
    apply okv_try_finally; [|okd].
    apply ok_mbind; [okd|]. intros _.
    apply ok_mbind; [okd|]. intros _.
    apply ok_mbind; [okd|]. intros r.
    assert (Hd : Ok (d <- rename_for_deletion (APidRef p) ;; delete_metadata p None ;;; delete_marked [d])).
    { eapply okv_mbind; [apply (okv_rename_for_deletion (APidRef p)); [reflexivity|apply mine_pidref]|].
      intros d Hd. apply ok_mbind; [okd|]. intros _. auto with okdb. }
    destruct r as [c|e].
    - apply ok_mbind; [okd|]. intros _.
      apply okv_try_finally; [|okd].
      eapply okv_mbind; [apply (okv_rename_for_deletion (APidRef p)); [reflexivity|apply mine_pidref]|].
      intros d1 Hd1.
      apply ok_mbind; [okd|]. intros _.
      eapply okv_mbind; [apply okv_size_lines|]. intros n Hn.
      eapply okv_mbind with (P := dl).
      + destruct (Nat.eqb n 0) eqn:En.
        * apply Nat.eqb_eq in En. specialize (Hn En). simpl in Hn.
          eapply okv_mbind; [apply (okv_rename_for_deletion (ACidRef c)); [reflexivity|exact Hn]|].
          intros d2 Hd2.
          eapply okv_mbind;
            [apply (okv_rename_for_deletion (AObj c)); [reflexivity|apply free_objfree; exact Hn]|].
          intros d3 Hd3. apply okv_ret. auto with okdb.
        * apply okv_ret. auto with okdb.
      + intros l Hl. apply ok_mbind; [okd|]. intros _. auto with okdb.
    - destruct e; try apply okv_raise; try exact Hd.
      apply ok_mbind; [okd|]. intros c.
      eapply okv_mbind; [apply (okv_rename_for_deletion (APidRef p)); [reflexivity|apply mine_pidref]|].
      intros d Hd'.
      eapply okv_mbind with (P := dl).
      + apply okv_try_finally; [|okd].
        apply ok_mbind; [okd|]. intros _.
        apply ok_mbind; [okd|]. intros m.
        apply ok_mbind; [destruct m; okd|]. intros _.
        eapply okv_mbind; [apply okv_size_lines|]. intros n Hn.
        destruct (Nat.eqb n 0) eqn:En.
        * apply Nat.eqb_eq in En. specialize (Hn En). simpl in Hn.
          eapply okv_mbind; [apply (okv_rename_for_deletion (ACidRef c)); [reflexivity|exact Hn]|].
          intros d2 Hd2. apply okv_ret. auto with okdb.
        * apply okv_ret. auto with okdb.
      + intros l Hl. apply ok_mbind; [okd|]. intros _. auto with okdb.
  Qed.

  Lemma ok_delete_object_unfixed : Ok (delete_object_unfixed p).
  Proof.
    unfold delete_object_unfixed.
    apply okv_try_finally; [|okd].
    apply ok_mbind; [okd|]. intros _.
    apply ok_mbind; [okd|]. intros r.
    destruct r as [c|e]; [apply okv_raise|]. destruct e; try apply okv_raise.
    eapply okv_mbind; [apply (okv_rename_for_deletion (APidRef p)); [reflexivity|apply mine_pidref]|].
    intros d Hd.
    apply ok_mbind; [okd|]. intros c.
    apply ok_mbind.
    - apply okv_try_finally; [|okd].
      apply ok_mbind; [okd|]. intros _.
      apply ok_mbind; [okd|]. intros m. destruct m; okd.
    - intros _. apply ok_mbind; [okd|]. intros _. auto with okdb.
  Qed.

  Lemma ok_store_metadata : forall f s v n, Ok (store_metadata p f s v n).
  Proof.
    intros f s v n G. unfold store_metadata.
    eapply safe_mbind; [apply (ok_acquire LMeta (IDoc (AMeta p f)))| |intros; exact I].
    intros _ G0 _. apply safe_try_finally; [|okauto].
    eapply safe_mbind; [apply (ok_open_source s)| |intros; exact I].
    intros _ G0' _.
    eapply safe_mbind with
      (Q1 := fun r G' => match r with
                         | Val t => ownb 0 t = true /\ gT G' t = Some (CData v n 0)
                         | Exn _ => True end); [| |intros; exact I].
    { unfold mktmp. simpl. split; [exact I|]. intros x [k [-> Hk]]. simpl.
      split; [reflexivity|apply tupd_eq]. }
    intros t G1 [Hown Ht].
    eapply safe_mbind; [apply (write_chunks_safe n G1 t v n 0 Hown Ht)| |intros; exact I].
    intros u0 G2 Ht2. simpl in Ht2.
    eapply safe_mbind with (Q1 := fun _ _ => True); [| |intros; exact I].
    - unfold catch. eapply safe_bind with (Q1 := fun _ _ => True); [|intros; exact I].
      eapply safe_mbind with (Q1 := fun _ G' => G' = G2); [apply keep_mkdirs| |intros; exact I].
      intros _ G3 ->. eapply safe_rename_own; eauto; simpl; eauto.
    - intros r G3 _. destruct r as [u|e]; [exact I|].
      assert (H : Ok (unit_op (Remove t) ;;; @raise value e)) by okauto.
      apply H.
  Qed.

  Lemma ok_retrieve_metadata : forall q f, Ok (retrieve_metadata q f).
  Proof. intros. unfold retrieve_metadata. okauto. Qed.

  Lemma ok_delete_object_only : forall c, Ok (delete_object_only c).
  Proof.
    intros c. unfold delete_object_only.
    apply okv_try_finally; [|okd].
    apply ok_mbind; [okd|]. intros _.
    eapply okv_mbind; [apply okv_probe|]. intros b Hb. destruct b; [apply ok_ret|].
    apply ok_delete_object_file. apply free_objfree. exact (Hb eq_refl).
  Qed.
  Hint Resolve ok_delete_object_only : okdb.
  Lemma ok_delete_if_invalid : forall c sz pre ok, Ok (delete_if_invalid c sz pre ok).
  Proof.
    intros. unfold delete_if_invalid.
    apply ok_mbind; [apply ok_catch; destruct sz, pre, ok; okauto|].
    intros [u|e]; [okauto|]. destruct e; okauto.
  Qed.

  Lemma ok_lift_unit : forall m, Ok m -> Ok (lift_unit m).
  Proof. intros. unfold lift_unit. okauto. Qed.

  (* every call that names pid p, or no pid at all, obeys the discipline *)
  Definition pub_call (c : call) : Prop :=
    match c with
    | CStore _ _ b n _ _ => pubO b (CData b n n) /\ pubP (CCid b)
    | CTag _ k => pubP (CCid k)
    | _ => True
    end.

  Theorem api_ok : forall c, (forall p', call_pid c = Some p' -> p' = p) -> pub_call c -> Ok (api c).
  Proof.
    intros c Hc Hpub. destruct c; simpl in Hc, Hpub |- *;
      try (assert (Hp : p0 = p) by (apply Hc; reflexivity); subst p0).
    - destruct Hpub as [HO HP]. destruct p0 as [p'|].
      + rewrite (Hc p' eq_refl). apply ok_store_object_pid; assumption.
      + apply ok_store_object_nopid; assumption.
    - apply ok_lift_unit. apply ok_tag_object. exact Hpub.
    - apply ok_lift_unit. apply ok_delete_object.
    - apply ok_lift_unit. apply ok_delete_if_invalid.
    - apply ok_store_metadata.
    - apply ok_retrieve_metadata.
    - apply ok_lift_unit. apply ok_delete_metadata.
    - okauto.
    - okauto.
    - apply okv_raise.
    - apply ok_lift_unit. apply ok_delete_object_unfixed.
  Qed.
End ApiFrame.

(* ================================================================================== *)
(* The crash theorems                                                                 *)
(* ================================================================================== *)

Definition pubT1 : cid -> fcontent -> Prop := fun _ _ => True.
Definition pubT2 : fcontent -> Prop := fun _ => True.

Lemma pub_call_trivial : forall c, pub_call pubT1 pubT2 c.
Proof. destruct c; simpl; unfold pubT1, pubT2; auto. Qed.

Lemma run_crash_WI : forall w0 p pubO pubP A n (m : prog A) G w,
  Safe w0 p pubO pubP m G (fun _ _ => True) -> agreeG p G w -> WI w0 p w ->
  WI w0 p (run_crash n w m).
Proof.
  induction n as [|n IH]; intros m G w Hs Hag HW; simpl; [exact HW|].
  destruct m as [a|o k|]; try exact HW.
  destruct (exec_op 0 o w) as [[x w1]|] eqn:Ex; [|exact HW].
  simpl in Hs. destruct Hs as [Hpre Hk].
  destruct (step_sound w0 p pubO pubP o G w x w1 Hag HW Hpre Ex) as [Hans [Hag' HW']].
  eapply IH; [apply Hk; exact Hans|exact Hag'|exact HW'].
Qed.

Lemma run_crash_OP : forall w0 p pubO pubP A n (m : prog A) G w,
  Safe w0 p pubO pubP m G (fun _ _ => True) -> agreeG p G w -> WI w0 p w -> OP w0 p pubO pubP w ->
  OP w0 p pubO pubP (run_crash n w m).
Proof.
  induction n as [|n IH]; intros m G w Hs Hag HW HO; simpl; [exact HO|].
  destruct m as [a|o k|]; try exact HO.
  destruct (exec_op 0 o w) as [[x w1]|] eqn:Ex; [|exact HO].
  simpl in Hs. destruct Hs as [Hpre Hk].
  destruct (step_sound w0 p pubO pubP o G w x w1 Hag HW Hpre Ex) as [Hans [Hag' HW']].
  pose proof (step_OP w0 p pubO pubP o G w x w1 Hag Hpre Ex HO) as HO'.
  eapply IH; [apply Hk; exact Hans|exact Hag'|exact HW'|exact HO'].
Qed.

Lemma Inv_WI : forall w0 p, Inv w0 -> WI w0 p w0 /\ agreeG p g0 w0.
Proof.
  intros w0 p [(W & I1 & I2) HL]. split.
  - split; [|split; [|split]].
    + intros a v Hl. specialize (W a v Hl). destruct a; simpl in *; auto.
    + auto.
    + auto.
    + intros q k Hq Hb. split; [apply I1; exact Hb|auto].
  - split; [|split]; intros; discriminate.
Qed.

Theorem crash_WI : forall w0 c p n,
  Inv w0 -> (forall p', call_pid c = Some p' -> p' = p) ->
  WI w0 p (reopen (run_crash n w0 (api c))).
Proof.
  intros w0 c p n HI Hc. destruct (Inv_WI w0 p HI) as [HW Hag].
  assert (H : WI w0 p (run_crash n w0 (api c))).
  { eapply run_crash_WI; [|exact Hag|exact HW].
    eapply safe_weaken; [apply (api_ok w0 p pubT1 pubT2 c Hc (pub_call_trivial c))|]. auto. }
  exact H.
Qed.

(* ---------- what retrieve_object answers in a well-typed store ---------- *)

Definition retr_fun (m : fmap) (q : pid) : outcome fcontent :=
  match sem_find m q with
  | Val c => match lookup (AObj c) m with Some x => Val x | None => Exn EFileNotFound end
  | Exn e => Exn e
  end.

Lemma retr_spec : forall w q, typed (fs w) -> retr w q = Some (retr_fun (fs w) q).
Proof.
  intros [m L] q Ht. unfold retr, retr_fun, sem_find, retrieve_object, find_object, open_object, present.
  simpl fs.
  destruct (lookup (APidRef q) m) as [x|] eqn:Hp.
  - destruct (Ht _ _ Hp) as [c ->].
    destruct (lookup (ACidRef c) m) as [y|] eqn:Hc.
    + destruct (Ht _ _ Hc) as [l ->].
      destruct (memb Nat.eqb q l) eqn:Hm.
      * destruct (lookup (AObj c) m) eqn:Ho; steps; reflexivity.
      * steps. reflexivity.
    + steps. reflexivity.
  - steps. reflexivity.
Qed.

(* (T1) OTHERS UNTOUCHED, every start state, every call naming p (or no pid), every crash point *)
Theorem others_untouched : forall w0 c p n,
  Inv w0 -> (forall p', call_pid c = Some p' -> p' = p) ->
  let w := reopen (run_crash n w0 (api c)) in
  forall q, q <> p ->
    lookup (APidRef q) (fs w) = lookup (APidRef q) (fs w0) /\
    (forall f, lookup (AMeta q f) (fs w) = lookup (AMeta q f) (fs w0)) /\
    (forall k, lookup (APidRef q) (fs w0) = Some (CCid k) ->
       (exists l, lookup (ACidRef k) (fs w) = Some (CLines l) /\ In q l) /\
       (forall x, lookup (AObj k) (fs w0) = Some x -> lookup (AObj k) (fs w) = Some x)) /\
    ((forall k, lookup (APidRef q) (fs w0) = Some (CCid k) -> lookup (AObj k) (fs w0) <> None) ->
       exists r, retr w0 q = Some r /\ retr w q = Some r).
Proof.
  intros w0 c p n HI Hc w q Hq.
  pose proof (crash_WI w0 c p n HI Hc) as HW. fold w in HW.
  destruct HW as (Ht & H1 & H2 & H3).
  split; [apply H1; exact Hq|]. split; [intros f; apply H2; exact Hq|].
  split; [intros k Hk; apply (H3 q k Hq Hk)|].
  intros Hnd.
  destruct (Inv_WI w0 p HI) as [(Ht0 & _) _].
  destruct HI as [(W & I1 & I2) HL].
  rewrite (retr_spec w0 q Ht0), (retr_spec w q Ht).
  eexists. split; [reflexivity|]. f_equal.
  unfold retr_fun, sem_find. rewrite (H1 q Hq).
  destruct (lookup (APidRef q) (fs w0)) as [x|] eqn:Hp; [|reflexivity].
  destruct (Ht0 _ _ Hp) as [k ->].
  destruct (I1 q k Hp) as (l0 & Hl0 & Hin0).
  destruct (H3 q k Hq Hp) as [(l & Hl & Hin) Ho].
  rewrite Hl0, Hl.
  apply (proj2 (memb_In Nat.eqb nat_eqb_true Nat.eqb_refl q l0)) in Hin0.
  apply (proj2 (memb_In Nat.eqb nat_eqb_true Nat.eqb_refl q l)) in Hin.
  rewrite Hin0, Hin. unfold present.
  destruct (lookup (AObj k) (fs w0)) as [x0|] eqn:E0; [|exfalso; exact (Hnd k eq_refl E0)].
  rewrite (Ho x0 eq_refl). cbv beta iota. rewrite (Ho x0 eq_refl), E0. reflexivity.
Qed.

(* (T2) NEVER WRONG BYTES: in the store left by the crash, retrieve_object of ANY pid (so also of
   the interrupted one) answers the complete content named by the cid the pid is bound to, or one
   of the four not-found / inconsistent exceptions *)
Theorem crash_never_wrong_bytes : forall w0 c p n,
  Inv w0 -> (forall p', call_pid c = Some p' -> p' = p) ->
  let w := reopen (run_crash n w0 (api c)) in
  forall q,
    (exists b m, retr w q = Some (Val (CData b m m)) /\
                 lookup (APidRef q) (fs w) = Some (CCid b) /\
                 lookup (AObj b) (fs w) = Some (CData b m m))
    \/ (exists e, retr w q = Some (Exn e) /\ NotFoundOrInconsistent e).
Proof.
  intros w0 c p n HI Hc w q.
  pose proof (crash_WI w0 c p n HI Hc) as HW. fold w in HW. destruct HW as (Ht & _).
  rewrite (retr_spec w q Ht). unfold retr_fun, sem_find, NotFoundOrInconsistent.
  destruct (lookup (APidRef q) (fs w)) as [x|] eqn:Hp; [|right; eexists; split; [reflexivity|tauto]].
  destruct (Ht _ _ Hp) as [b ->].
  destruct (lookup (ACidRef b) (fs w)) as [y|] eqn:Hcr; [|right; eexists; split; [reflexivity|tauto]].
  destruct (Ht _ _ Hcr) as [l ->].
  destruct (memb Nat.eqb q l); [|right; eexists; split; [reflexivity|tauto]].
  unfold present. destruct (lookup (AObj b) (fs w)) as [x|] eqn:Ho;
    [|right; eexists; split; [reflexivity|tauto]].
  destruct (Ht _ _ Ho) as [m ->]. left. exists b, m. cbv beta iota. rewrite ?Ho. auto.
Qed.

(* ================================================================================== *)
(* Composition: any sequence of calls on p, each completed or interrupted             *)
(* ================================================================================== *)

Lemma run_seq_WI : forall w0 p pubO pubP A (m : prog A) G w w' r,
  Safe w0 p pubO pubP m G (fun _ _ => True) -> agreeG p G w -> WI w0 p w ->
  run_seq w m = Some (w', r) -> WI w0 p w'.
Proof.
  induction m as [a|o k IH|]; intros G w w' r Hs Hag HW Hrun; simpl in Hrun.
  - inversion Hrun; subst. exact HW.
  - destruct (exec_op 0 o w) as [[x w1]|] eqn:Ex; [|discriminate].
    simpl in Hs. destruct Hs as [Hpre Hk].
    destruct (step_sound w0 p pubO pubP o G w x w1 Hag HW Hpre Ex) as [Hans [Hag' HW']].
    eapply IH; [apply Hk; exact Hans|exact Hag'|exact HW'|exact Hrun].
  - discriminate.
Qed.

Lemma run_seq_OP : forall w0 p pubO pubP A (m : prog A) G w w' r,
  Safe w0 p pubO pubP m G (fun _ _ => True) -> agreeG p G w -> WI w0 p w -> OP w0 p pubO pubP w ->
  run_seq w m = Some (w', r) -> OP w0 p pubO pubP w'.
Proof.
  induction m as [a|o k IH|]; intros G w w' r Hs Hag HW HO Hrun; simpl in Hrun.
  - inversion Hrun; subst. exact HO.
  - destruct (exec_op 0 o w) as [[x w1]|] eqn:Ex; [|discriminate].
    simpl in Hs. destruct Hs as [Hpre Hk].
    destruct (step_sound w0 p pubO pubP o G w x w1 Hag HW Hpre Ex) as [Hans [Hag' HW']].
    pose proof (step_OP w0 p pubO pubP o G w x w1 Hag Hpre Ex HO) as HO'.
    eapply IH; [apply Hk; exact Hans|exact Hag'|exact HW'|exact HO'|exact Hrun].
  - discriminate.
Qed.

Lemma agree_g0 : forall p w, agreeG p g0 w.
Proof. intros p w. split; [|split]; intros; discriminate. Qed.

Lemma WI_reopen : forall w0 p w, WI w0 p w -> WI w0 p (reopen w).
Proof. intros w0 p w H. exact H. Qed.

(* WI is kept by a further call on p that completes ... *)
Theorem followup_call_WI : forall w0 p w c w' r,
  WI w0 p w -> (forall p', call_pid c = Some p' -> p' = p) ->
  run_seq w (api c) = Some (w', r) -> WI w0 p w'.
Proof.
  intros w0 p w c w' r HW Hc Hrun.
  eapply run_seq_WI; [|apply agree_g0|exact HW|exact Hrun].
  eapply safe_weaken; [apply (api_ok w0 p pubT1 pubT2 c Hc (pub_call_trivial c))|]. auto.
Qed.

(* ... or is interrupted at any point, the process dying and the store being reopened *)
Theorem followup_crash_WI : forall w0 p w c n,
  WI w0 p w -> (forall p', call_pid c = Some p' -> p' = p) ->
  WI w0 p (reopen (run_crash n w (api c))).
Proof.
  intros w0 p w c n HW Hc. apply WI_reopen.
  eapply run_crash_WI; [|apply agree_g0|exact HW].
  eapply safe_weaken; [apply (api_ok w0 p pubT1 pubT2 c Hc (pub_call_trivial c))|]. auto.
Qed.

(* what WI says about the other pids, with retrieve_object's answer *)
Lemma WI_others : forall w0 p w, Inv w0 -> WI w0 p w ->
  forall q, q <> p ->
    lookup (APidRef q) (fs w) = lookup (APidRef q) (fs w0) /\
    (forall f, lookup (AMeta q f) (fs w) = lookup (AMeta q f) (fs w0)) /\
    (forall k, lookup (APidRef q) (fs w0) = Some (CCid k) ->
       (exists l, lookup (ACidRef k) (fs w) = Some (CLines l) /\ In q l) /\
       (forall x, lookup (AObj k) (fs w0) = Some x -> lookup (AObj k) (fs w) = Some x)) /\
    ((forall k, lookup (APidRef q) (fs w0) = Some (CCid k) -> lookup (AObj k) (fs w0) <> None) ->
       exists r, retr w0 q = Some r /\ retr w q = Some r).
Proof.
  intros w0 p w HI HW q Hq.
  destruct HW as (Ht & H1 & H2 & H3).
  split; [apply H1; exact Hq|]. split; [intros f; apply H2; exact Hq|].
  split; [intros k Hk; apply (H3 q k Hq Hk)|].
  intros Hnd.
  destruct (Inv_WI w0 p HI) as [(Ht0 & _) _].
  destruct HI as [(W & I1 & I2) HL].
  rewrite (retr_spec w0 q Ht0), (retr_spec w q Ht).
  eexists. split; [reflexivity|]. f_equal.
  unfold retr_fun, sem_find. rewrite (H1 q Hq).
  destruct (lookup (APidRef q) (fs w0)) as [x|] eqn:Hp; [|reflexivity].
  destruct (Ht0 _ _ Hp) as [k ->].
  destruct (I1 q k Hp) as (l0 & Hl0 & Hin0).
  destruct (H3 q k Hq Hp) as [(l & Hl & Hin) Ho].
  rewrite Hl0, Hl.
  apply (proj2 (memb_In Nat.eqb nat_eqb_true Nat.eqb_refl q l0)) in Hin0.
  apply (proj2 (memb_In Nat.eqb nat_eqb_true Nat.eqb_refl q l)) in Hin.
  rewrite Hin0, Hin. unfold present.
  destruct (lookup (AObj k) (fs w0)) as [x0|] eqn:E0; [|exfalso; exact (Hnd k eq_refl E0)].
  rewrite (Ho x0 eq_refl). cbv beta iota. rewrite (Ho x0 eq_refl), E0. reflexivity.
Qed.

(* the spelled-out "other pid untouched" of CrashFault.v, for every list of formats *)
Lemma WI_other_untouched : forall w0 p w, Inv w0 -> WI w0 p w ->
  forall q fmts, q <> p ->
    (forall k, lookup (APidRef q) (fs w0) = Some (CCid k) -> lookup (AObj k) (fs w0) <> None) ->
    other_untouched fmts w0 w q.
Proof.
  intros w0 p w HI HW q fmts Hq Hnd.
  destruct (WI_others w0 p w HI HW q Hq) as (H1 & H2 & H3 & H4).
  split; [exact H1|]. split; [intros f _; apply H2|]. split; [apply H4; exact Hnd|].
  intros k Hk. apply (H3 k Hk).
Qed.

(* ================================================================================== *)
(* The full statement, what is proved of it, and why it is false as literally stated   *)
(* ================================================================================== *)

(* C10 for ALL start states and ALL crash points, in the vocabulary of CrashFault.v *)
Definition C10_general_statement : Prop :=
  forall (w0 : world) (c : call) (p : pid) (n : nat),
    Inv w0 -> call_pid c = Some p -> proper_call c ->
    let w := reopen (run_crash n w0 (api c)) in
    (forall q fmts, q <> p -> other_untouched fmts w0 w q) /\
    pid_retrievable_or_notfound w0 c p w /\
    (forall d others fmts, recovers fmts w0 p others w d).

(* no pid of the start world is bound to a cid whose object does not exist (tag_object allows it) *)
Definition no_dangling (w0 : world) : Prop :=
  forall q k, lookup (APidRef q) (fs w0) = Some (CCid k) -> lookup (AObj k) (fs w0) <> None.

(* the same with that hypothesis *)
Definition C10_general_statement_nd : Prop :=
  forall (w0 : world) (c : call) (p : pid) (n : nat),
    Inv w0 -> no_dangling w0 -> call_pid c = Some p -> proper_call c ->
    let w := reopen (run_crash n w0 (api c)) in
    (forall q fmts, q <> p -> other_untouched fmts w0 w q) /\
    pid_retrievable_or_notfound w0 c p w /\
    (forall d others fmts, recovers fmts w0 p others w d).

(* FINDING (model level): without [no_dangling] clause (a) is false.  pid 2 is tagged to cid 7
   whose object does not exist; store_object(pid 1, content 7) dies after publishing the object:
   retrieve_object(2), which answered RefsFileExistsButCidObjMissing, now returns the bytes. *)
Definition dangling_w0 : world := mkWorld [(APidRef 2, CCid 7); (ACidRef 7, CLines [2])] [].

Lemma dangling_w0_reached : run_history empty_world [CTag 2 7] = Some (dangling_w0, [Val VUnit]).
Proof. vm_compute. reflexivity. Qed.

Lemma Inv_run_seq : forall w c w' r,
  Inv w -> proper_call c -> run_seq w (api c) = Some (w', r) -> Inv w'.
Proof.
  intros w c w' r HI Hc Hrun.
  destruct (Refine.api_refines w c HI Hc) as (w'' & Hr & He & HL).
  rewrite Hrun in Hr. inversion Hr; subst w''. split; [|exact HL].
  eapply InvF_fs_eq; [apply fs_eq_sym; exact He|]. apply SeqProps.sem_inv. apply HI.
Qed.

Lemma dangling_w0_Inv : Inv dangling_w0.
Proof.
  assert (H : run_seq empty_world (api (CTag 2 7)) = Some (dangling_w0, Val VUnit))
    by (vm_compute; reflexivity).
  eapply Inv_run_seq; [apply Refine.inv_empty| |exact H]. exact I.
Qed.

Theorem C10_general_statement_false : ~ C10_general_statement.
Proof.
  intros H.
  destruct (H dangling_w0 (CStore (Some 1) SrcPath 7 1 VSzNone VCkNone) 1 9
              dangling_w0_Inv eq_refl I) as [Ha _].
  destruct (Ha 2 [] ltac:(discriminate)) as (_ & _ & (r & Hr0 & Hr) & _).
  vm_compute in Hr0, Hr. congruence.
Qed.

(* WHAT IS PROVED of the statement (every start state, every call, every crash point):
   (a)  in full under [no_dangling]; without it everything except the equality of
        retrieve_object's answer (see [others_untouched]);
   (b)  the interrupted pid gets the complete bytes named by the cid it is bound to, or one of the
        four exceptions — without the clause "that content is the old one or the call's";
   (c)  of the recovery: whatever delete_object(p) and store_object(p, d) do after the crash, if
        they return, every other pid is still untouched and every permanent file well typed.
   MISSING: in (b) membership of the content in [allowed_contents]; in (c) that the two calls DO
   return, delete_object with success or PidRefsDoesNotExist and store_object with success, and
   that p is then retrievable with d. *)
Theorem C10_general_partial :
  forall (w0 : world) (c : call) (p : pid) (n : nat),
    Inv w0 -> call_pid c = Some p ->
    let w := reopen (run_crash n w0 (api c)) in
    (* (a) *)
    (forall q fmts, q <> p ->
       (forall k, lookup (APidRef q) (fs w0) = Some (CCid k) -> lookup (AObj k) (fs w0) <> None) ->
       other_untouched fmts w0 w q) /\
    (* (b) *)
    ((exists b m, retr w p = Some (Val (CData b m m)) /\
                  lookup (APidRef p) (fs w) = Some (CCid b) /\
                  lookup (AObj b) (fs w) = Some (CData b m m))
     \/ (exists e, retr w p = Some (Exn e) /\ NotFoundOrInconsistent e)) /\
    (* (c) *)
    (forall d w1 r1 w2 r2,
       run_seq w (delete_object p) = Some (w1, r1) ->
       run_seq w1 (store_object (Some p) SrcPath d 1 VSzNone VCkNone) = Some (w2, r2) ->
       typed (fs w2) /\
       forall q fmts, q <> p ->
         (forall k, lookup (APidRef q) (fs w0) = Some (CCid k) -> lookup (AObj k) (fs w0) <> None) ->
         other_untouched fmts w0 w2 q).
Proof.
  intros w0 c p n HI Hc w.
  assert (Hc' : forall p', call_pid c = Some p' -> p' = p) by (intros p' H; congruence).
  pose proof (crash_WI w0 c p n HI Hc') as HW. fold w in HW.
  split; [|split].
  - intros q fmts Hq Hnd. eapply WI_other_untouched; eauto.
  - apply (crash_never_wrong_bytes w0 c p n HI Hc' p).
  - intros d w1 r1 w2 r2 H1 H2.
    assert (HW1 : WI w0 p w1).
    { eapply run_seq_WI; [|apply agree_g0|exact HW|exact H1].
      eapply safe_weaken; [apply (ok_delete_object w0 p pubT1 pubT2)|]. auto. }
    assert (HW2 : WI w0 p w2).
    { eapply run_seq_WI; [|apply agree_g0|exact HW1|exact H2].
      eapply safe_weaken; [apply (ok_store_object_pid w0 p pubT1 pubT2); exact I|]. auto. }
    split; [apply HW2|].
    intros q fmts Hq Hnd. eapply WI_other_untouched; eauto.
Qed.

(* ================================================================================== *)
(* Clause (b) in full: the content served to the interrupted pid is the old one or the *)
(* call's                                                                              *)
(* ================================================================================== *)

(* what the call may publish *)
Definition call_pubO (c : call) : cid -> fcontent -> Prop :=
  fun k x => match c with CStore _ _ b n _ _ => k = b /\ x = CData b n n | _ => False end.
Definition call_pubP (c : call) : fcontent -> Prop :=
  fun v => match c with CStore _ _ b _ _ _ => v = CCid b | CTag _ k => v = CCid k | _ => False end.

Lemma pub_call_self : forall c, pub_call (call_pubO c) (call_pubP c) c.
Proof. destruct c; simpl; auto. Qed.

(* SIZE CONSISTENCY.  In the token model the chunk count n of a content is an argument independent
   of its cid b; in reality it is a function of the bytes.  The hypothesis says the call's (b, n)
   agrees with an object b that the start world already holds. *)
Definition call_size_ok (w0 : world) (c : call) : Prop :=
  match c with
  | CStore _ _ b n _ _ => forall x, lookup (AObj b) (fs w0) = Some x -> x = CData b n n
  | _ => True
  end.

Lemma OP_start : forall w0 p pubO pubP, OP w0 p pubO pubP w0.
Proof. intros. split; intros; left; assumption. Qed.

Theorem crash_OP : forall w0 c p n,
  Inv w0 -> (forall p', call_pid c = Some p' -> p' = p) ->
  OP w0 p (call_pubO c) (call_pubP c) (reopen (run_crash n w0 (api c))).
Proof.
  intros w0 c p n HI Hc. destruct (Inv_WI w0 p HI) as [HW Hag].
  assert (H : OP w0 p (call_pubO c) (call_pubP c) (run_crash n w0 (api c))).
  { eapply run_crash_OP; [|exact Hag|exact HW|apply OP_start].
    eapply safe_weaken; [apply (api_ok w0 p _ _ c Hc (pub_call_self c))|]. auto. }
  exact H.
Qed.

Theorem crash_pid_retrievable_or_notfound : forall w0 c p n,
  Inv w0 -> call_pid c = Some p -> call_size_ok w0 c ->
  pid_retrievable_or_notfound w0 c p (reopen (run_crash n w0 (api c))).
Proof.
  intros w0 c p n HI Hcp Hsz.
  assert (Hc : forall p', call_pid c = Some p' -> p' = p) by (intros p' H; congruence).
  set (w := reopen (run_crash n w0 (api c))).
  destruct (crash_never_wrong_bytes w0 c p n HI Hc p) as [(b & m & Hr & Hp & Ho)|Hex];
    [|right; exact Hex].
  fold w in Hr, Hp, Ho. left. exists b, m. split; [exact Hr|]. split; [|exact Hp].
  destruct (crash_OP w0 c p n HI Hc) as [HO HP]. fold w in HO, HP.
  unfold allowed_contents. apply in_or_app.
  destruct (HP _ Hp) as [Hp0|Hpub].
  - (* the reference is the old one *)
    destruct (HO _ _ Ho) as [Ho0|Hpo].
    + left. unfold old_contents.
      destruct (Inv_WI w0 p HI) as [(Ht0 & _) _].
      rewrite (retr_spec w0 p Ht0). unfold retr_fun, sem_find. rewrite Hp0.
      destruct HI as [(W & I1 & I2) HL]. destruct (I1 p b Hp0) as (l & Hl & Hin).
      rewrite Hl. apply (proj2 (memb_In Nat.eqb nat_eqb_true Nat.eqb_refl p l)) in Hin.
      rewrite Hin. unfold present. rewrite Ho0. cbv beta iota. rewrite Ho0. left. reflexivity.
    + right. destruct c; simpl in Hpo; try contradiction. destruct Hpo as [-> Hx].
      simpl in Hcp. subst p0. simpl. rewrite Nat.eqb_refl. left. symmetry. exact Hx.
  - (* the reference is the one the call was writing *)
    right. destruct c; simpl in Hpub; try contradiction.
    + inversion Hpub; subst b0. simpl in Hcp. subst p0. simpl. rewrite Nat.eqb_refl. left.
      destruct (HO _ _ Ho) as [Ho0|[_ Hx]]; [|symmetry; exact Hx].
      symmetry. apply (Hsz _ Ho0).
    + inversion Hpub; subst c. simpl in Hcp. inversion Hcp; subst p0. simpl. rewrite Nat.eqb_refl.
      destruct (HO _ _ Ho) as [Ho0|[]]. rewrite Ho0. left. reflexivity.
Qed.

(* the size-consistency hypothesis is necessary (a modelling artefact of tokens): the store holds
   content 7 as 3 chunks under pid 2; store_object(pid 1, content 7 "of 1 chunk") completes and
   pid 1 is served the 3 chunks, which is neither its old content nor the call's (7, 1) *)
Definition size_w0 : world :=
  mkWorld [(AObj 7, CData 7 3 3); (APidRef 2, CCid 7); (ACidRef 7, CLines [2])] [].
Definition size_call : call := CStore (Some 1) SrcPath 7 1 VSzNone VCkNone.

Lemma size_w0_Inv : Inv size_w0.
Proof.
  assert (H : run_seq empty_world (api (CStore (Some 2) SrcPath 7 3 VSzNone VCkNone)) =
              Some (size_w0, Val (VMeta 7 3))) by (vm_compute; reflexivity).
  eapply Inv_run_seq; [apply Refine.inv_empty| |exact H]. exact I.
Qed.

Example size_consistency_needed :
  Inv size_w0 /\ call_pid size_call = Some 1 /\ ~ call_size_ok size_w0 size_call /\
  ~ pid_retrievable_or_notfound size_w0 size_call 1 (reopen (run_crash 100 size_w0 (api size_call))).
Proof.
  split; [exact size_w0_Inv|]. split; [reflexivity|]. split.
  - intros H. specialize (H _ eq_refl). discriminate.
  - intros [(b & m & Hr & Hin & _)|(e & Hr & _)].
    + vm_compute in Hr. inversion Hr; subst. vm_compute in Hin. destruct Hin as [H|[]]. discriminate.
    + vm_compute in Hr. discriminate.
Qed.

(* ================================================================================== *)
(* (T3) RECOVERY from every crash state                                               *)
(* ================================================================================== *)

(* The half-states a crash of a call on p can leave.  It turns out that recovery needs no finer
   description than this: every permanent file well typed, the other pids framed as in w0, and
   empty lock lists (the process died).  Leftover temp files of any thread index, leftover
   deletion markers, a pid reference with or without its list line, a list line with or without
   its pid reference, an object present or absent: all are allowed, and recovery is proved from
   all of them. *)
Definition CrashInv (w0 : world) (p : pid) (w : world) : Prop := WI w0 p w /\ locks w = [].

Theorem crash_CrashInv : forall w0 c p n,
  Inv w0 -> (forall p', call_pid c = Some p' -> p' = p) ->
  CrashInv w0 p (reopen (run_crash n w0 (api c))).
Proof. intros. split; [apply crash_WI; assumption|reflexivity]. Qed.

(* ---------- total correctness of the sub-programs, from ANY well-typed file map:
   leftover temp files (fresh_tmp is arbitrary) and leftover deletion markers allowed ---------- *)

Lemma run_find_object_t : forall m L p, typed m ->
  run_seq (mkWorld m L) (find_object p) = Some (mkWorld m L, sem_find m p).
Proof.
  intros m L p Ht. unfold find_object, sem_find, present.
  destruct (lookup (APidRef p) m) as [x|] eqn:Hp.
  - destruct (Ht _ _ Hp) as [c ->].
    destruct (lookup (ACidRef c) m) as [y|] eqn:Hc.
    + destruct (Ht _ _ Hc) as [l ->].
      destruct (memb Nat.eqb p l) eqn:Hm.
      * destruct (lookup (AObj c) m) eqn:Ho; steps; reflexivity.
      * steps. reflexivity.
    + steps. reflexivity.
  - steps. reflexivity.
Qed.

Lemma run_mark_docs_gen : forall p l m L,
  (forall a, In a l -> owned_by p a = true) ->
  (forall a, memb lock_eqb (LMeta, IDoc a) L = false) ->
  exists m1 ds,
    run_seq (mkWorld m L) (mark_docs l) = Some (mkWorld m1 L, Val ds) /\
    (forall x, In x ds -> owned_by p x = true) /\
    (forall x, owned_by p x = false -> lookup x m1 = lookup x m).
Proof.
  intros p. induction l as [|a l IH]; intros m L Hl HL.
  - exists m, []. split; [reflexivity|]. split; [intros x []|auto].
  - assert (Ha : owned_by p a = true) by (apply Hl; left; reflexivity).
    assert (Hl' : forall a, In a l -> owned_by p a = true) by (intros; apply Hl; right; auto).
    cbn [mark_docs]. step1. step1. rewrite run_mbind, run_try_finally. step1. step1.
    destruct (lookup a m) as [v|] eqn:Hv.
    + unfold rename_for_deletion. steps.
      destruct (IH (update (ADel a) v (delete a m)) L Hl' HL) as (m1 & ds & Hr & Pd & P).
      rewrite Hr. cbn beta iota. rewrite run_ret.
      eexists. eexists. split; [reflexivity|]. split.
      { intros x [<-|Hx]; [rewrite owned_del; exact Ha|auto]. }
      intros x Hx. rewrite P by exact Hx. rewrite lookup_update, lookup_delete.
      destruct (addr_eqb x (ADel a)) eqn:E1.
      { apply addr_eqb_true in E1. subst. rewrite owned_del in Hx. congruence. }
      destruct (addr_eqb x a) eqn:E2; [|reflexivity].
      apply addr_eqb_true in E2. subst. congruence.
    + steps.
      destruct (IH m L Hl' HL) as (m1 & ds & Hr & Pd & P).
      rewrite Hr. cbn beta iota. rewrite run_ret.
      eexists. eexists. split; [reflexivity|]. split; [exact Pd|exact P].
Qed.

Lemma run_delete_metadata_gen : forall p m L,
  (forall a, memb lock_eqb (LMeta, IDoc a) L = false) ->
  exists m2, run_seq (mkWorld m L) (delete_metadata p None) = Some (mkWorld m2 L, Val tt) /\
             forall x, owned_by p x = false -> lookup x m2 = lookup x m.
Proof.
  intros p m L HL. cbn [delete_metadata]. step1. step1.
  rewrite run_mbind, run_probe_all. cbn beta iota.
  set (l' := filter (fun a => present a m) (filter (owned_by p) (keys m))).
  assert (Hl' : forall a, In a l' -> owned_by p a = true).
  { intros a Ha. apply filter_In in Ha. destruct Ha as [Ha _].
    apply filter_In in Ha. apply Ha. }
  destruct (run_mark_docs_gen p l' m L Hl' HL) as (m1 & ds & Hr & Pd & P).
  rewrite run_mbind, Hr. cbn beta iota.
  destruct (run_delete_marked ds m1 L) as (m2 & Hr2 & Hm2).
  exists m2. split; [exact Hr2|].
  intros x Hx. rewrite Hm2. destruct (memb addr_eqb x ds) eqn:E.
  - apply memb_addr_In in E. apply Pd in E. congruence.
  - apply P. exact Hx.
Qed.

(* delete_object *)
Ltac use_delmeta_g p :=
  match goal with
  | |- context [run_seq (mkWorld ?M ?L0) (delete_metadata p None)] =>
      let m2 := fresh "m2" in
      let Hr := fresh "Hr" in
      let Hm2 := fresh "Hm2" in
      destruct (run_delete_metadata_gen p M L0) as (m2 & Hr & Hm2);
      [ reflexivity | rewrite Hr ]
  end.

Ltac sub2 :=
  first
    [ rewrite run_write_refs_tmp
    | erewrite run_update_refs_add by (lk; first [reflexivity | eassumption])
    | erewrite run_update_refs_remove by (lk; first [reflexivity | eassumption])
    | erewrite run_verify_refs_ok by (lk; first [reflexivity | eassumption])
    | rewrite run_find_object_t by assumption ]; lk.
Ltac run2 := repeat first [ step1 | sub2 | progress lk ].

Ltac fin :=
  eexists; eexists; split; [reflexivity|]; split; [auto|];
  lk;
  repeat (match goal with
          | H : forall x, owned_by _ x = false -> lookup x _ = _ |- _ => rewrite H by reflexivity
          end; lk);
  try reflexivity; try assumption.

Lemma delete_object_total : forall m p, typed m ->
  exists m' r, run_seq (mkWorld m []) (delete_object p) = Some (mkWorld m' [], r) /\
    (r = Val tt \/ r = Exn EPidRefsDoesNotExist) /\ lookup (APidRef p) m' = None.
Proof.
  intros m p Ht. unfold delete_object.
  destruct (lookup (APidRef p) m) as [x|] eqn:Hp.
  - destruct (Ht _ _ Hp) as [c ->].
    run2. unfold sem_find, present. lk.
    destruct (lookup (ACidRef c) m) as [y|] eqn:Hc.
    + destruct (Ht _ _ Hc) as [l ->].
      destruct (memb Nat.eqb p l) eqn:Hm.
      * destruct (lookup (AObj c) m) as [o|] eqn:Ho; lk.
        -- unfold rename_for_deletion. run2.
           destruct (filter_lines p l) as [|q l'] eqn:Hnew; run2; cbn [delete_marked]; run2;
             use_delmeta_g p; run2; fin.
        -- unfold rename_for_deletion. run2.
           destruct (filter_lines p l) as [|q l'] eqn:Hnew; run2;
             use_delmeta_g p; cbn [delete_marked]; run2; fin.
      * unfold rename_for_deletion. run2. use_delmeta_g p. cbn [delete_marked]. run2. fin.
    + unfold rename_for_deletion. run2. use_delmeta_g p. cbn [delete_marked]. run2. fin.
  - run2. unfold sem_find. run2. eexists. eexists. split; [reflexivity|]. split; [auto|exact Hp].
Qed.

Ltac name_tmp :=
  match goal with
  | |- context [fresh_tmp ?ar 0 ?M] =>
      let n := fresh "n" in let Hn := fresh "Hn" in let Hab := fresh "Hab" in
      destruct (fresh_tmp_shape ar 0 M) as [n Hn];
      pose proof (fresh_tmp_absent ar 0 M) as Hab; rewrite Hn in *
  end.

Lemma run_mgc_gen : forall p b n m L,
  exists m', run_seq (mkWorld m L) (move_and_get_checksums (Some p) b n VSzNone VCkNone) =
               Some (mkWorld m' L, Val b) /\
             fs_eq m' (obj_added b n m).
Proof.
  intros p b n m L. unfold move_and_get_checksums, obj_added, present. cbv zeta.
  rewrite run_mbind, run_mktmp. name_tmp. cbn beta iota.
  rewrite run_mbind, run_catch.
  destruct (run_write_chunks n (ATmp ArObj 0 n0) b n 0 (update (ATmp ArObj 0 n0) (CData b n 0) m) L)
    as (m1 & Hr & Hm1); [apply lookup_update_eq|].
  rewrite Hr. cbn beta iota. cbn [Nat.add] in Hm1.
  destruct (lookup (AObj b) m) as [o|] eqn:Ho; cbn [verify_object]; steps; finish.
Qed.

Lemma tag_object_total : forall m L p c, typed m -> lookup (APidRef p) m = None ->
  memb lock_eqb (LRefPid, IPid p) L = false -> memb lock_eqb (LCid, ICid c) L = false ->
  memb lock_eqb (LFile, IDoc (ACidRef c)) L = false ->
  exists m', run_seq (mkWorld m L) (tag_object p c) = Some (mkWorld m' L, Val tt) /\
    lookup (APidRef p) m' = Some (CCid c) /\
    (exists l, lookup (ACidRef c) m' = Some (CLines l) /\ memb Nat.eqb p l = true) /\
    (forall k, lookup (AObj k) m' = lookup (AObj k) m).
Proof.
  intros m L p c Ht Hp HL1 HL2 HL3.
  unfold tag_object, store_refs_body, and_sc, notm.
  destruct (lookup (ACidRef c) m) as [y|] eqn:Hc.
  - destruct (Ht _ _ Hc) as [l ->].
    destruct (memb Nat.eqb p l) eqn:Hm.
    + run2. name_tmp. run2.
      eexists. split; [reflexivity|]. split; [lk; reflexivity|].
      split; [eexists; split; [lk; reflexivity|assumption]|intros k; lk; reflexivity].
    + run2. name_tmp. run2.
      eexists. split; [reflexivity|]. split; [lk; reflexivity|].
      split; [eexists; split; [lk; reflexivity|apply memb_app_last]|intros k; lk; reflexivity].
  - run2. name_tmp. run2. name_tmp.
    assert (Hne : Nat.eqb n n0 = false).
    { destruct (Nat.eqb n n0) eqn:E; auto. apply Nat.eqb_eq in E. subst n0.
      rewrite lookup_update_eq in Hab0. discriminate. }
    assert (Hne' : Nat.eqb n0 n = false) by (rewrite Nat.eqb_sym; exact Hne).
    repeat (run2; rewrite ?Hne, ?Hne'; cbn beta iota).
    eexists. split; [reflexivity|]. split; [lk; reflexivity|].
    split; [eexists; split; [lk; reflexivity|cbn; rewrite Nat.eqb_refl; reflexivity]|intros k; lk; reflexivity].
Qed.

Lemma store_object_total : forall m p d, typed m -> lookup (APidRef p) m = None ->
  (forall x, lookup (AObj d) m = Some x -> x = CData d 1 1) ->
  exists m2, run_seq (mkWorld m []) (store_object (Some p) SrcPath d 1 VSzNone VCkNone) =
               Some (mkWorld m2 [], Val (VMeta d 1)) /\
    lookup (APidRef p) m2 = Some (CCid d) /\
    (exists l, lookup (ACidRef d) m2 = Some (CLines l) /\ memb Nat.eqb p l = true) /\
    lookup (AObj d) m2 = Some (CData d 1 1).
Proof.
  intros m p d Ht Hp Hsz. unfold store_object. steps.
  match goal with
  | |- context [run_seq (mkWorld m ?L0) (move_and_get_checksums _ _ _ _ _)] =>
      destruct (run_mgc_gen p d 1 m L0) as (m1 & Hr & He); rewrite Hr
  end. steps.
  assert (Ht1 : typed m1).
  { intros a v Hl. rewrite He in Hl. unfold obj_added, present in Hl.
    destruct (lookup (AObj d) m) eqn:Ho; [apply Ht; exact Hl|].
    rewrite lookup_update in Hl. destruct (addr_eqb a (AObj d)) eqn:E; [|apply Ht; exact Hl].
    apply addr_eqb_true in E. subst. inversion Hl; subst. simpl. eauto. }
  assert (Hp1 : lookup (APidRef p) m1 = None).
  { rewrite He. unfold obj_added. destruct (present (AObj d) m); [exact Hp|].
    rewrite lookup_update_neq by discriminate. exact Hp. }
  assert (Ho1 : lookup (AObj d) m1 = Some (CData d 1 1)).
  { rewrite He. unfold obj_added, present. destruct (lookup (AObj d) m) eqn:Ho.
    - rewrite Ho. f_equal. apply Hsz. reflexivity.
    - apply lookup_update_eq. }
  match goal with
  | |- context [run_seq (mkWorld m1 ?L0) (tag_object _ _)] =>
      destruct (tag_object_total m1 L0 p d Ht1 Hp1 eq_refl eq_refl eq_refl) as (m2 & Hr2 & Q1 & Q2 & Q3);
      rewrite Hr2
  end. steps.
  exists m2. split; [reflexivity|]. split; [exact Q1|]. split; [exact Q2|]. rewrite Q3. exact Ho1.
Qed.

(* ---------- the recovery theorems ---------- *)

Lemma WI_self : forall w0 p w, WI w0 p w -> WI w p w.
Proof.
  intros w0 p w (Ht & H1 & H2 & H3). split; [exact Ht|]. split; [auto|]. split; [auto|].
  intros q k Hq Hb. unfold bound0 in Hb. split; [|auto].
  rewrite (H1 q Hq) in Hb. apply (H3 q k Hq Hb).
Qed.

Definition pubF1 : cid -> fcontent -> Prop := fun _ _ => False.
Definition pubF2 : fcontent -> Prop := fun _ => False.

(* (ii) delete_object p from any crash state: it returns, with success or "unknown pid"; p's
   reference is gone; no object appears or changes; the result is again a crash state *)
Theorem delete_after_crash : forall w0 p w,
  CrashInv w0 p w ->
  exists w1 r1,
    run_seq w (delete_object p) = Some (w1, r1) /\
    (r1 = Val tt \/ r1 = Exn EPidRefsDoesNotExist) /\
    lookup (APidRef p) (fs w1) = None /\
    CrashInv w0 p w1 /\
    (forall k x, lookup (AObj k) (fs w1) = Some x -> lookup (AObj k) (fs w) = Some x).
Proof.
  intros w0 p [m L] [HW HL]. simpl in HL. subst L.
  pose proof HW as (Ht & _).
  destruct (delete_object_total m p Ht) as (m' & r & Hrun & Hr & Hp).
  exists (mkWorld m' []), r. split; [exact Hrun|]. split; [exact Hr|]. split; [exact Hp|].
  split.
  - split; [|reflexivity].
    eapply run_seq_WI; [|apply agree_g0|exact HW|exact Hrun].
    eapply safe_weaken; [apply (ok_delete_object w0 p pubT1 pubT2)|]. auto.
  - assert (HO : OP (mkWorld m []) p pubF1 pubF2 (mkWorld m' [])).
    { eapply run_seq_OP; [|apply agree_g0|eapply WI_self; exact HW|apply OP_start|exact Hrun].
      eapply safe_weaken; [apply (ok_delete_object (mkWorld m []) p pubF1 pubF2)|]. auto. }
    intros k x Hx. destruct HO as [HO _]. destruct (HO k x Hx) as [H|[]]. exact H.
Qed.

(* (iii) store_object(p, d) from any crash state in which p has no reference: it succeeds and p is
   then retrievable with d *)
Theorem store_after_delete : forall w0 p w1 d,
  CrashInv w0 p w1 -> lookup (APidRef p) (fs w1) = None ->
  (forall x, lookup (AObj d) (fs w1) = Some x -> x = CData d 1 1) ->
  exists w2,
    run_seq w1 (store_object (Some p) SrcPath d 1 VSzNone VCkNone) = Some (w2, Val (VMeta d 1)) /\
    retr w2 p = Some (Val (CData d 1 1)) /\
    CrashInv w0 p w2.
Proof.
  intros w0 p [m L] d [HW HL] Hp Hsz. simpl in HL, Hp, Hsz. subst L.
  pose proof HW as (Ht & _).
  destruct (store_object_total m p d Ht Hp Hsz) as (m2 & Hrun & Q1 & (l & Q2 & Q2') & Q3).
  exists (mkWorld m2 []). split; [exact Hrun|].
  assert (HW2 : WI w0 p (mkWorld m2 [])).
  { eapply run_seq_WI; [|apply agree_g0|exact HW|exact Hrun].
    eapply safe_weaken; [apply (ok_store_object_pid w0 p pubT1 pubT2); exact I|]. auto. }
  split; [|split; [exact HW2|reflexivity]].
  rewrite (retr_spec (mkWorld m2 []) p (proj1 HW2)). unfold retr_fun, sem_find, present. simpl fs.
  rewrite Q1, Q2, Q2', Q3. cbv beta iota. rewrite Q3. reflexivity.
Qed.

(* SIZE CONSISTENCY for the recovery content d (stored as 1 chunk by [recovers]): an object d of
   the start world is that 1 chunk, and the interrupted call did not publish d with another count *)
Definition rec_size_ok (w0 : world) (c : call) (d : nat) : Prop :=
  (forall x, lookup (AObj d) (fs w0) = Some x -> x = CData d 1 1) /\
  match c with CStore _ _ b n _ _ => b = d -> n = 1 | _ => True end.

Theorem crash_recovers : forall w0 c p n d others fmts,
  Inv w0 -> no_dangling w0 -> call_pid c = Some p -> rec_size_ok w0 c d ->
  recovers fmts w0 p others (reopen (run_crash n w0 (api c))) d.
Proof.
  intros w0 c p n d others fmts HI Hnd Hcp [Hs0 Hsc].
  assert (Hc : forall p', call_pid c = Some p' -> p' = p) by (intros p' H; congruence).
  set (w := reopen (run_crash n w0 (api c))).
  pose proof (crash_CrashInv w0 c p n HI Hc) as HC. fold w in HC.
  destruct (delete_after_crash w0 p w HC) as (w1 & r1 & Hrun1 & Hr1 & Hp1 & HC1 & Hobj).
  assert (Hsz : forall x, lookup (AObj d) (fs w1) = Some x -> x = CData d 1 1).
  { intros x Hx. apply Hobj in Hx.
    destruct (crash_OP w0 c p n HI Hc) as [HO _]. fold w in HO.
    destruct (HO d x Hx) as [H0|Hpub]; [apply Hs0; exact H0|].
    destruct c; simpl in Hpub; try contradiction. destruct Hpub as [Hb ->].
    subst b. rewrite (Hsc eq_refl). reflexivity. }
  destruct (store_after_delete w0 p w1 d HC1 Hp1 Hsz) as (w2 & Hrun2 & Hretr & HC2).
  exists w1, r1, w2, (VMeta d 1). split; [exact Hrun1|]. split; [exact Hr1|].
  split; [exact Hrun2|]. split; [exact Hretr|].
  intros q _ Hq. eapply WI_other_untouched; [exact HI|apply HC2|exact Hq|].
  intros k Hk. eapply Hnd. exact Hk.
Qed.

(* "p is in no cid list after delete_object" is NOT true of every crash state: when the first
   delete_object died between renaming p's reference away and rewriting the list, the second one
   says PidRefsDoesNotExist and the stale line stays (store_object copes with it, see above) *)
Example stale_line_survives :
  let w0 := mkWorld [(AObj 7, CData 7 1 1); (APidRef 1, CCid 7); (ACidRef 7, CLines [1])] [] in
  let w := reopen (run_crash 13 w0 (api (CDelete 1))) in
  fs w = [(AObj 7, CData 7 1 1); (ACidRef 7, CLines [1]); (ADel (APidRef 1), CCid 7)] /\
  run_seq w (delete_object 1) = Some (w, Exn EPidRefsDoesNotExist).
Proof. vm_compute. split; reflexivity. Qed.

(* ---------- the corrected full statement, proved ---------- *)

Definition C10_general_statement_corrected : Prop :=
  forall (w0 : world) (c : call) (p : pid) (n : nat),
    Inv w0 -> no_dangling w0 -> call_pid c = Some p -> call_size_ok w0 c ->
    let w := reopen (run_crash n w0 (api c)) in
    (forall q fmts, q <> p -> other_untouched fmts w0 w q) /\
    pid_retrievable_or_notfound w0 c p w /\
    (forall d others fmts, rec_size_ok w0 c d -> recovers fmts w0 p others w d).

Theorem C10_general_corrected : C10_general_statement_corrected.
Proof.
  intros w0 c p n HI Hnd Hcp Hsz w.
  assert (Hc : forall p', call_pid c = Some p' -> p' = p) by (intros p' H; congruence).
  split; [|split].
  - intros q fmts Hq. eapply WI_other_untouched; [exact HI|exact (crash_WI w0 c p n HI Hc)|exact Hq|].
    intros k Hk. eapply Hnd. exact Hk.
  - apply crash_pid_retrievable_or_notfound; assumption.
  - intros d others fmts Hd. apply crash_recovers; assumption.
Qed.
