(* Refine.v — the transcribed programs of Ops.v refine the functional specification of Spec.v:
   from every world satisfying the invariant, each call returns exactly the specified outcome,
   leaves a file map pointwise equal to the specified one, and holds no lock afterwards. *)
From HS Require Import Base PyVal FS Ops Spec RefineLemmas RefineLemmas2.

Definition proper_call (c : call) : Prop :=
  match c with CDeleteUnfixed _ => False | _ => True end.

(* ---------- running sub-programs inside larger ones ---------- *)

Ltac side := lk; first [reflexivity | eassumption].
Ltac sub1 :=
  first
    [ rewrite run_write_refs_tmp
    | erewrite run_update_refs_add by side
    | erewrite run_update_refs_remove by side
    | erewrite run_verify_refs_ok by side
    | rewrite run_find_object by assumption ]; lk.
Ltac run := repeat first [ step1 | sub1 ].

(* ---------- tag_object ---------- *)

Lemma run_tag_object : forall m L p c, InvF m ->
  memb lock_eqb (LRefPid, IPid p) L = false ->
  memb lock_eqb (LCid, ICid c) L = false ->
  memb lock_eqb (LFile, IDoc (ACidRef c)) L = false ->
  exists m', run_seq (mkWorld m L) (tag_object p c) = Some (mkWorld m' L, snd (sem_tag m p c)) /\
             fs_eq m' (fst (sem_tag m p c)).
Proof.
  intros m L p c (W & I1 & I2) HL1 HL2 HL3.
  pose proof (wt_tmp m ArRefs 0 0 W) as Ht0. pose proof (wt_tmp m ArRefs 0 1 W) as Ht1.
  pose proof (fresh_tmp_0 _ _ Ht0) as Hf0.
  unfold tag_object, sem_tag, store_refs_body, and_sc, notm.
  destruct (lookup (APidRef p) m) as [x|] eqn:Hp; [destruct (wt_pidref _ _ _ W Hp) as [c' ->]|];
    (destruct (lookup (ACidRef c) m) as [y|] eqn:Hc; [destruct (wt_cidref _ _ _ W Hc) as [l ->]|]);
    steps.
  - (* both reference files exist: the verification runs, its verdict is ignored *)
    destruct (run_verify_refs_any m ((LCid, ICid c) :: (LRefPid, IPid p) :: L) p c W) as [r Hv].
    rewrite Hv. steps. finish.
  - finish.
  - (* the cid is known, the pid is new *)
    assert (Hm : memb Nat.eqb p l = false).
    { apply memb_nat_not_In. intros Hin. destruct (I2 _ _ Hc) as (_ & _ & Hb).
      rewrite (Hb _ Hin) in Hp. discriminate. }
    run. finish.
  - (* both are new: two temporary files *)
    assert (Hf1 : fresh_tmp ArRefs 0
                    (update (ATmp ArRefs 0 0) (CCid c) (update (ATmp ArRefs 0 0) CEmpty m))
                  = ATmp ArRefs 0 1) by (eapply fresh_tmp_1; side).
    run. finish.
Qed.

Lemma sem_tag_fs_eq : forall m1 m2 p c, fs_eq m1 m2 ->
  snd (sem_tag m1 p c) = snd (sem_tag m2 p c) /\
  fs_eq (fst (sem_tag m1 p c)) (fst (sem_tag m2 p c)).
Proof.
  intros m1 m2 p c E. unfold sem_tag. rewrite <- (E (APidRef p)), <- (E (ACidRef c)).
  destruct (lookup (APidRef p) m1) as [x|]; destruct (lookup (ACidRef c) m1) as [[]|];
    cbn [fst snd]; split; auto.
  - destruct (memb Nat.eqb p l); repeat apply fs_eq_update; auto.
  - repeat apply fs_eq_update; auto.
Qed.

Section PerCall.
  Variable m : fmap.
  Hypothesis HI : InvF m.
  Let w := mkWorld m [].

  Definition refines (c : call) : Prop :=
    exists m', run_seq w (api c) = Some (mkWorld m' [], snd (sem m c)) /\ fs_eq m' (fst (sem m c)).

  Lemma refines_tag : forall p c, refines (CTag p c).
  Proof.
    intros p c. unfold refines, w. cbn [api sem]. unfold lift_unit.
    destruct (run_tag_object m [] p c HI eq_refl eq_refl eq_refl) as (m' & Hr & He).
    rewrite run_mbind, Hr.
    destruct (sem_tag m p c) as [m2 [u|e]]; cbn [fst snd] in *; steps; eauto.
  Qed.
End PerCall.
