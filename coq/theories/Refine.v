(* Refine.v — the transcribed programs of Ops.v refine the functional specification of Spec.v:
   from every world satisfying the invariant, each call returns exactly the specified outcome,
   leaves a file map pointwise equal to the specified one, and holds no lock afterwards. *)
From HS Require Import Base PyVal FS Ops Spec.
From HS Require Export RefineLemmas RefineLemmas2.   (* InvF_fs_eq and the sub-program specifications live there *)

Definition proper_call (c : call) : Prop :=
  match c with CDeleteUnfixed _ => False | _ => True end.

(* ---------- running sub-programs inside larger ones ---------- *)

Ltac side := lk; first [reflexivity | eassumption].
Ltac sub1 :=
  first
    [ rewrite run_write_refs_tmp
    | erewrite run_update_refs_add by side
    | erewrite run_update_refs_remove by side
    | erewrite run_verify_refs_ok by side
    | rewrite run_find_object by assumption ]; lk.
Ltac run := repeat first [ step1 | sub1 | progress lk ].

(* ---------- tag_object ---------- *)

Lemma run_tag_object : forall m L p c, InvF m ->
  memb lock_eqb (LRefPid, IPid p) L = false ->
  memb lock_eqb (LCid, ICid c) L = false ->
  memb lock_eqb (LFile, IDoc (ACidRef c)) L = false ->
  exists m', run_seq (mkWorld m L) (tag_object p c) = Some (mkWorld m' L, snd (sem_tag m p c)) /\
             fs_eq m' (fst (sem_tag m p c)).
Proof.
  intros m L p c (W & I1 & I2) HL1 HL2 HL3.
  pose proof (wt_tmp m ArRefs 0 0 W) as Ht0. pose proof (wt_tmp m ArRefs 0 1 W) as Ht1.
  pose proof (fresh_tmp_0 _ _ Ht0) as Hf0.
  unfold tag_object, sem_tag, store_refs_body, and_sc, notm.
  destruct (lookup (APidRef p) m) as [x|] eqn:Hp; [destruct (wt_pidref _ _ _ W Hp) as [c' ->]|];
    (destruct (lookup (ACidRef c) m) as [y|] eqn:Hc; [destruct (wt_cidref _ _ _ W Hc) as [l ->]|]);
    steps.
  - (* both reference files exist: the verification runs, its verdict is ignored *)
    destruct (run_verify_refs_any m ((LCid, ICid c) :: (LRefPid, IPid p) :: L) p c W) as [r Hv].
    rewrite Hv. steps. finish.
  - finish.
  - (* the cid is known, the pid is new *)
    assert (Hm : memb Nat.eqb p l = false).
    { apply memb_nat_not_In. intros Hin. destruct (I2 _ _ Hc) as (_ & _ & Hb).
      rewrite (Hb _ Hin) in Hp. discriminate. }
    run. finish.
  - (* both are new: two temporary files *)
    assert (Hf1 : fresh_tmp ArRefs 0
                    (update (ATmp ArRefs 0 0) (CCid c) (update (ATmp ArRefs 0 0) CEmpty m))
                  = ATmp ArRefs 0 1) by (eapply fresh_tmp_1; side).
    run. finish.
Qed.

Lemma sem_tag_fs_eq : forall m1 m2 p c, fs_eq m1 m2 ->
  snd (sem_tag m1 p c) = snd (sem_tag m2 p c) /\
  fs_eq (fst (sem_tag m1 p c)) (fst (sem_tag m2 p c)).
Proof.
  intros m1 m2 p c E. unfold sem_tag. rewrite <- (E (APidRef p)), <- (E (ACidRef c)).
  destruct (lookup (APidRef p) m1) as [x|]; destruct (lookup (ACidRef c) m1) as [[]|];
    cbn [fst snd]; split; auto.
  - destruct (memb Nat.eqb p l); repeat apply fs_eq_update; auto.
  - repeat apply fs_eq_update; auto.
Qed.

(* running delete_metadata(pid, None) from the current explicit map *)
Ltac use_delmeta p :=
  match goal with
  | |- context [run_seq (mkWorld ?M ?L0) (delete_metadata p None)] =>
      let m2 := fresh "m2" in
      let Hr := fresh "Hr" in
      let Hm2 := fresh "Hm2" in
      destruct (run_delete_metadata_all p M L0) as (m2 & Hr & Hm2);
      [ let x := fresh "x" in
        let Hx := fresh "Hx" in
        intros x Hx; lk; case_addr x; try reflexivity; try discriminate Hx
      | reflexivity
      | rewrite Hr; run ]
  end.

Ltac finish_meta :=
  eexists; (split; [reflexivity|]);
  let a := fresh "a" in
  intro a; rewrite lookup_delete_all_meta; lk;
  case_addr a; lk;
  repeat match goal with |- context [owned_by ?p ?x] => destruct (owned_by p x) end;
  try reflexivity; try congruence.

Section PerCall.
  Variable m : fmap.
  Hypothesis HI : InvF m.
  Let w := mkWorld m [].

  Definition refines (c : call) : Prop :=
    exists m', run_seq w (api c) = Some (mkWorld m' [], snd (sem m c)) /\ fs_eq m' (fst (sem m c)).

  Lemma refines_tag : forall p c, refines (CTag p c).
  Proof.
    intros p c. unfold refines, w. cbn [api sem]. unfold lift_unit.
    destruct (run_tag_object m [] p c HI eq_refl eq_refl eq_refl) as (m' & Hr & He).
    rewrite run_mbind, Hr.
    destruct (sem_tag m p c) as [m2 [u|e]]; cbn [fst snd] in *; steps; eauto.
  Qed.

  Lemma refines_store : forall p s b n sz ck, refines (CStore p s b n sz ck).
  Proof.
    intros p s b n sz ck. unfold refines, w. cbn [api sem]. unfold store_object, sem_store.
    pose proof HI as (W & _ & _).
    pose proof (wt_tmp m ArObj 0 0 W) as Ht.
    change (if present (AObj b) m then m else update (AObj b) (CData b n n) m) with (obj_added b n m).
    destruct p as [p'|].
    - (* with a pid *)
      destruct s; steps; try finish.
      all: match goal with
           | |- context [run_seq (mkWorld m ?L0) (move_and_get_checksums _ _ _ _ _)] =>
               destruct (run_mgc_some p' b n sz ck m L0 Ht) as (m1 & Hr & He); rewrite Hr
           end.
      all: destruct sz, ck; cbn [verdict] in *; steps;
        try (eexists; split; [reflexivity|exact He]).
      all: pose proof (InvF_fs_eq _ _ (fs_eq_sym _ _ He) (InvF_obj_added b n m HI)) as HI1;
        match goal with
        | |- context [run_seq (mkWorld ?M1 ?L0) (tag_object _ _)] =>
            destruct (run_tag_object M1 L0 p' b HI1 eq_refl eq_refl eq_refl) as (m2 & Hr2 & He2);
            destruct (sem_tag_fs_eq M1 (obj_added b n m) p' b He) as [Es Ef]
        end;
        rewrite Hr2, Es;
        destruct (sem_tag (obj_added b n m) p' b) as [m3 [u|e]]; cbn [fst snd] in *; steps;
        eexists; (split; [reflexivity|]); eapply fs_eq_trans; eauto.
    - (* without a pid *)
      destruct s; steps; try finish.
      all: destruct (run_mgc_none b n m [] Ht) as (m1 & Hr & He); rewrite Hr; steps; eauto.
  Qed.

  Lemma refines_del_invalid : forall c sz pre ok, refines (CDelInvalid c sz pre ok).
  Proof.
    intros c sz pre ok. unfold refines, w. cbn [api sem].
    unfold lift_unit, delete_if_invalid, delete_object_only, delete_object_file, open_object,
      sem_del_invalid, present.
    destruct (lookup (ACidRef c) m) eqn:Hc; destruct (lookup (AObj c) m) eqn:Ho;
      destruct sz, pre, ok; run; finish.
  Qed.

  Lemma refines_retr_meta : forall p f, refines (CRetrMeta p f).
  Proof.
    intros p f. unfold refines, w. cbn [api sem]. unfold retrieve_metadata, sem_retr_meta.
    destruct (lookup (AMeta p f) m) eqn:Hm; run; finish.
  Qed.

  Lemma refines_store_meta : forall p f s v n, refines (CStoreMeta p f s v n).
  Proof.
    intros p f s v n. unfold refines, w. cbn [api sem]. unfold store_metadata, sem_store_meta.
    pose proof HI as (W & _ & _).
    pose proof (wt_tmp m ArMeta 0 0 W) as Ht. pose proof (fresh_tmp_0 _ _ Ht) as Hf.
    cbv zeta.
    destruct s; run; try finish.
    all: match goal with
         | |- context [run_seq (mkWorld ?M ?L0) (write_chunks ?t ?k)] =>
             destruct (run_write_chunks k t v n 0 M L0) as (m1 & Hr & Hm1);
               [apply lookup_update_eq|rewrite Hr]
         end; cbn [Nat.add] in Hm1; run; finish.
  Qed.

  Lemma refines_del_meta : forall p f, refines (CDelMeta p f).
  Proof.
    intros p f. unfold refines, w. cbn [api sem]. unfold lift_unit, sem_del_meta.
    pose proof HI as (W & _ & _).
    destruct f as [f'|]; cbn [fst snd].
    - cbn [delete_metadata]. destruct (lookup (AMeta p f') m) eqn:Hm; run; finish.
    - destruct (run_delete_metadata_all p m [])
        as (m2 & Hr & Hm2); [intros x _; apply wt_del; exact W|reflexivity|].
      rewrite run_mbind, Hr. run. eexists. split; [reflexivity|].
      intros a. rewrite Hm2, lookup_delete_all_meta. reflexivity.
  Qed.

  Lemma refines_retrieve : forall p, refines (CRetrieve p).
  Proof.
    intros p. unfold refines, w. cbn [api sem]. unfold retrieve_object, sem_retrieve, open_object.
    run. destruct (sem_find m p) as [c|e]; run; [|finish].
    destruct (lookup (AObj c) m) eqn:Ho; run; finish.
  Qed.

  Lemma sem_find_present : forall p c, sem_find m p = Val c -> exists x, lookup (AObj c) m = Some x.
  Proof.
    intros p c. unfold sem_find, present.
    destruct (lookup (APidRef p) m) as [[]|]; try discriminate.
    destruct (lookup (ACidRef c0) m) as [[]|]; try discriminate.
    destruct (memb Nat.eqb p l); try discriminate.
    destruct (lookup (AObj c0) m) eqn:Ho; try discriminate.
    intros [= <-]. eauto.
  Qed.

  Lemma refines_gethex : forall p, refines (CGetHex p).
  Proof.
    intros p. unfold refines, w. cbn [api sem]. unfold get_hex_digest, sem_retrieve, open_object.
    run. destruct (sem_find m p) as [c|e] eqn:Hf; run; [|finish].
    destruct (sem_find_present _ _ Hf) as [x Ho]. run. finish.
  Qed.

  Lemma refines_delete : forall p, refines (CDelete p).
  Proof.
    intros p. unfold refines, w. cbn [api sem]. unfold lift_unit, delete_object, sem_delete.
    pose proof HI as (W & I1 & I2).
    pose proof (wt_del m) as Hdel. specialize (fun a => Hdel a W).
    destruct (lookup (APidRef p) m) as [x|] eqn:Hp.
    - destruct (wt_pidref _ _ _ W Hp) as [c ->].
      destruct (I1 _ _ Hp) as (l & Hc & Hin). apply memb_nat_In in Hin.
      rewrite Hc. cbn [fst snd].
      run. unfold sem_find, present. lk.
      destruct (lookup (AObj c) m) as [o|] eqn:Ho; lk.
      + (* the object is there: the main path *)
        unfold rename_for_deletion. run.
        destruct (filter_lines p l) as [|q l'] eqn:Hnew; run; cbn [delete_marked]; run.
        * use_delmeta p. finish_meta.
        * use_delmeta p. finish_meta.
      + (* references without an object: the repaired handler (D3) *)
        unfold rename_for_deletion. run.
        destruct (filter_lines p l) as [|q l'] eqn:Hnew; run.
        * use_delmeta p. cbn [delete_marked]. run. finish_meta.
        * use_delmeta p. cbn [delete_marked]. run. finish_meta.
    - run. unfold sem_find. run. finish.
  Qed.

  Lemma refines_rejected : forall e, refines (CRejected e).
  Proof. intros e. unfold refines, w. cbn [api sem fst snd]. run. finish. Qed.

  Lemma refines_all : forall c, proper_call c -> refines c.
  Proof.
    intros c Hc. destruct c; try contradiction.
    - apply refines_store.
    - apply refines_tag.
    - apply refines_delete.
    - apply refines_del_invalid.
    - apply refines_store_meta.
    - apply refines_retr_meta.
    - apply refines_del_meta.
    - apply refines_retrieve.
    - apply refines_gethex.
    - apply refines_rejected.
  Qed.
End PerCall.

(* ---------- the theorems ---------- *)

Theorem api_refines : forall w c, Inv w -> proper_call c ->
  exists w', run_seq w (api c) = Some (w', snd (sem (fs w) c))
             /\ fs_eq (fs w') (fst (sem (fs w) c))
             /\ locks w' = [].
Proof.
  intros [m L] c [HI HL] Hc. cbn [fs locks] in *. subst L.
  destruct (refines_all m HI c Hc) as (m' & Hr & He).
  exists (mkWorld m' []). cbn [fs locks]. auto.
Qed.

Lemma inv_empty : Inv empty_world.
Proof.
  split; [|reflexivity]. cbn [fs empty_world].
  split; [|split]; intros; cbn [lookup] in *; discriminate.
Qed.

Theorem readonly_world_unchanged : forall w c w' r,
  (exists p, c = CRetrieve p) \/ (exists p, c = CGetHex p) \/ (exists p f, c = CRetrMeta p f) \/
  (exists e, c = CRejected e) ->
  run_seq w (api c) = Some (w', r) -> w' = w.
Proof.
  intros w c w' r H Hr.
  assert (R : ro (api c)).
  { destruct H as [[p ->]|[[p ->]|[(p & f & ->)|[e ->]]]]; cbn [api].
    - apply ro_mbind; [|intro; apply ro_ret].
      unfold retrieve_object. apply ro_mbind; [apply ro_find_object|intro; apply ro_open_object].
    - apply ro_mbind; [|intro; apply ro_ret].
      unfold get_hex_digest. apply ro_mbind; [apply ro_find_object|intro].
      apply ro_mbind; [apply ro_probe|intro b].
      destruct (negb b); [apply ro_raise|apply ro_open_object].
    - unfold retrieve_metadata. cbv zeta. ro_tac.
    - apply ro_raise. }
  eapply ro_run; eauto.
Qed.

Theorem rejected_no_op : forall w e, run_seq w (api (CRejected e)) = Some (w, Exn e).
Proof. reflexivity. Qed.

Theorem unknown_pid_delete : forall w p, locks w = [] -> lookup (APidRef p) (fs w) = None ->
  exists w', run_seq w (api (CDelete p)) = Some (w', Exn EPidRefsDoesNotExist) /\
             fs w' = fs w /\ locks w' = [].
Proof.
  intros [m L] p HL Hp. cbn [fs locks] in *. subst L.
  cbn [api]. unfold lift_unit, delete_object, find_object. steps.
  exists (mkWorld m []). auto.
Qed.

Print Assumptions api_refines.
Print Assumptions InvF_fs_eq.
Print Assumptions inv_empty.
Print Assumptions readonly_world_unchanged.
Print Assumptions rejected_no_op.
Print Assumptions unknown_pid_delete.
