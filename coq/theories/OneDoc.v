(* OneDoc.v — any number of WRITERS of one metadata document are linearizable, under every schedule
   (property C12 beyond the menus: the CONFLICTING case; Indep.v / IndepMeta.v cover the calls with
   pairwise disjoint footprints).

   A store_metadata p f call and a delete_metadata p (Some f) call take the document lock
   (LMeta, IDoc (AMeta p f)) with their FIRST operation and give it back with their LAST one; every
   operation in between is neither an Acquire nor a Release ([CS]: the shape of a program inside
   its critical section, for ALL answers).  Hence in a pool of such calls a thread that has started
   and not returned holds the lock, a thread that has not started can only start when nobody holds
   it, and every schedule that [Sched.exec] accepts is a sequence of complete runs, one call after
   the other, in the order in which the calls acquire the lock:

     §1  [CS], [LF]: the shape predicates, with the rules for bind / mbind / try_finally
     §2  pools in which every program is either a writer under ONE lock L or has already returned
         ([Ret]): the block invariant [BInv], its preservation, and [one_lock_pool] — the final
         WORLD (files and lock list) is exactly the world of the sequential run in acquisition
         order, every thread's result is that of its sequential run
     §3  store_metadata / delete_metadata (one format) have the shape; the theorems for pools of
         API calls: [one_doc_writers_linearizable], [one_doc_writers_linearizable_inv]
     §4  what the document is afterwards: [one_doc_last_writer_wins] — the effects [doc_after] of
         the calls on the document, applied in acquisition order

   Scope.  Pools of writers of ONE document only (plus calls rejected by the argument checks).  A
   pool that also contains calls on OTHER documents / pids with footprints disjoint from the
   document (IndepMeta.gindep) is not covered here: that needs the group form of Indep.indep_pool
   (one shared footprint for the writers, the block invariant below on its projection).

   The sequential run is Indep.seq_run: each call runs alone, one after the other, as its own thread
   number (temp names carry it).  [acq_order sched]: the thread numbers in the order of their first
   occurrence in the schedule — the first step of a writer IS its acquisition of the lock. *)
From HS Require Import Base PyVal FS Ops Sched Spec SeqLemmas Bracket SchedCV Mutex Indep IndepMeta.

(* ====================================================================================== *)
(* §1  the shape of a program inside a critical section                                    *)
(* ====================================================================================== *)

Definition lockop (o : op) : bool :=
  match o with Acquire _ _ | Release _ _ => true | _ => false end.

(* lock-free: no Acquire, no Release, whatever the answers *)
Fixpoint LF {A} (m : prog A) : Prop :=
  match m with
  | Ret _ => True
  | Bad => True
  | Vis o k => lockop o = false /\ forall a, LF (k a)
  end.

(* inside the critical section of L: lock-free operations, then Release L, after which the
   program returns at once; it does not return before *)
Fixpoint CS {A} (L : lock) (m : prog A) : Prop :=
  match m with
  | Ret _ => False
  | Bad => True
  | Vis o k =>
      match o with
      | Acquire _ _ => False
      | Release cls x => (cls, x) = L /\ exists r, k AUnit = Ret r
      | _ => forall a, CS L (k a)
      end
  end.

Lemma CS_nonlock : forall A L o (k : ans -> prog A),
  CS L (Vis o k) -> lockop o = false -> forall a, CS L (k a).
Proof. intros A L o k H Hl. destruct o; simpl in *; auto; discriminate. Qed.

Lemma LF_bind : forall A B (m : prog A) (f : A -> prog B),
  LF m -> (forall a, LF (f a)) -> LF (bind m f).
Proof.
  induction m as [a|o k IH|]; simpl; intros f Hm Hf; auto.
  destruct Hm as [Ho Hk]. split; auto.
Qed.

Lemma LF_mbind : forall A B (m : M A) (f : A -> M B),
  LF m -> (forall a, LF (f a)) -> LF (mbind m f).
Proof. intros. unfold mbind. apply LF_bind; auto. intros [a|e]; simpl; auto. Qed.

Lemma LF_catch : forall A (m : M A), LF m -> LF (catch m).
Proof. intros. unfold catch. apply LF_bind; simpl; auto. Qed.

Lemma LF_unit_op : forall o, lockop o = false -> LF (unit_op o).
Proof. intros o H. simpl. split; auto. intros a; destruct a; simpl; auto. Qed.

Lemma LF_probe : forall a, LF (probe a).
Proof. intros. simpl. split; auto. intros x; destruct x; simpl; auto. Qed.

Lemma LF_mktmp : forall ar init, LF (mktmp ar init).
Proof. intros. simpl. split; auto. intros x; destruct x; simpl; auto. Qed.

Lemma LF_write_chunks : forall t n, LF (write_chunks t n).
Proof.
  induction n as [|n IH]; simpl; auto.
  split; auto. intros a. apply LF_bind; [destruct a; simpl; auto|].
  intros [u|e]; simpl; auto.
Qed.

Lemma LF_open_source : forall s, LF (open_source s).
Proof. destruct s; simpl; auto. split; auto. intros a; destruct a; simpl; auto. Qed.

(* lock-free operations first, then a program inside the critical section *)
Lemma CS_bind : forall A B L (m : prog A) (f : A -> prog B),
  LF m -> (forall a, CS L (f a)) -> CS L (bind m f).
Proof.
  induction m as [a|o k IH|]; simpl; intros f Hm Hf; auto.
  destruct Hm as [Ho Hk]. destruct o; simpl in Ho; try discriminate; intros x; apply IH; auto.
Qed.

(* a pure continuation after the critical section *)
Lemma CS_bind_pure : forall A B L (m : prog A) (h : A -> prog B),
  CS L m -> (forall r, exists r', h r = Ret r') -> CS L (bind m h).
Proof.
  induction m as [a|o k IH|]; simpl; intros h Hm Hh; auto; try contradiction.
  destruct o; try (intros x; apply IH; auto); try contradiction.
  destruct Hm as [HL [r Hr]]. split; auto. rewrite Hr. simpl. apply Hh.
Qed.

Lemma CS_try_finally_release : forall A cls x (body : M A),
  LF body -> CS (cls, x) (try_finally body (release cls x)).
Proof.
  intros A cls x body Hb. unfold try_finally. apply CS_bind; auto.
  intros r. simpl. split; auto. destruct r; eexists; reflexivity.
Qed.

(* ====================================================================================== *)
(* §2  pools of writers under one lock                                                     *)
(* ====================================================================================== *)

(* the thread numbers in the order of their first occurrence *)
Definition note (l : list nat) (j : nat) : list nat :=
  if existsb (Nat.eqb j) l then l else l ++ [j].
Definition acq_order (sched : list nat) : list nat := fold_left note sched [].

Lemma map_some_in : forall A B (f : A -> option B) l rs x,
  map f l = map Some rs -> In x l -> exists r, f x = Some r.
Proof.
  induction l as [|y l IH]; intros rs x H Hin; [contradiction|].
  destruct rs as [|r rs]; simpl in H; [discriminate|]. inversion H.
  destruct Hin as [->|Hin]; eauto.
Qed.

Lemma existsb_eqb_In : forall j l, existsb (Nat.eqb j) l = true <-> In j l.
Proof.
  intros j l. rewrite existsb_exists. split.
  - intros (x & Hx & E). apply Nat.eqb_eq in E. subst. exact Hx.
  - intros H. exists j. split; auto. apply Nat.eqb_refl.
Qed.

Lemma note_in : forall l j, In j l -> note l j = l.
Proof. intros l j H. unfold note. apply existsb_eqb_In in H. rewrite H. reflexivity. Qed.

Lemma note_notin : forall l j, ~ In j l -> note l j = l ++ [j].
Proof.
  intros l j H. unfold note. destruct (existsb (Nat.eqb j) l) eqn:E; auto.
  apply existsb_eqb_In in E. contradiction.
Qed.

Lemma NoDup_snoc : forall (l : list nat) x, NoDup l -> ~ In x l -> NoDup (l ++ [x]).
Proof.
  induction l as [|y l IH]; simpl; intros x Hnd Hn.
  - repeat constructor; auto.
  - inversion Hnd; subst. constructor.
    + intros Hin. apply in_app_or in Hin. destruct Hin as [Hin|[E|[]]]; [auto | subst; apply Hn; left; reflexivity].
    + apply IH; auto.
Qed.

Lemma NoDup_app_disj : forall (l1 l2 : list nat),
  NoDup l1 -> NoDup l2 -> (forall x, In x l1 -> ~ In x l2) -> NoDup (l1 ++ l2).
Proof.
  induction l1 as [|y l1 IH]; simpl; intros l2 H1 H2 Hd; auto.
  inversion H1; subst. constructor.
  - intros Hin. apply in_app_or in Hin. destruct Hin as [Hin|Hin]; auto. eapply Hd; eauto.
  - apply IH; auto.
Qed.

(* the threads (of n) that are never scheduled: they return without any operation *)
Definition inert (n : nat) (sched : list nat) : list nat :=
  filter (fun i => negb (existsb (Nat.eqb i) (acq_order sched))) (seq 0 n).

Section OneLock.
  Variable A : Type.
  Variable ps : list (prog A).
  Variable L : lock.
  Variable w0 : world.

  (* Acquire L first, then inside the critical section *)
  Definition writer_prog (p : prog A) : Prop :=
    exists k, p = Vis (Acquire (fst L) (snd L)) k /\ forall a, CS L (k a).

  Hypothesis Hshape : forall i p, nth_error ps i = Some p -> (exists r, p = Ret r) \/ writer_prog p.
  Hypothesis Hl0 : locks w0 = [].

  (* run the programs one after the other in the order ord, each as its own thread number *)
  Fixpoint seq_runp (ord : list nat) (w : world) : option (world * list A) :=
    match ord with
    | [] => Some (w, [])
    | i :: ord' =>
        match nth_error ps i with
        | Some p =>
            match run_as i w p with
            | Some (w', r) =>
                match seq_runp ord' w' with
                | Some (w'', rs) => Some (w'', r :: rs)
                | None => None
                end
            | None => None
            end
        | None => None
        end
    end.

  Lemma seq_runp_app : forall l1 l2 w w1 rs1 w2 rs2,
    seq_runp l1 w = Some (w1, rs1) -> seq_runp l2 w1 = Some (w2, rs2) ->
    seq_runp (l1 ++ l2) w = Some (w2, rs1 ++ rs2).
  Proof.
    induction l1 as [|i l1 IH]; simpl; intros l2 w w1 rs1 w2 rs2 H1 H2.
    - inversion H1; subst. exact H2.
    - destruct (nth_error ps i) as [p|]; [|discriminate].
      destruct (run_as i w p) as [[w' r]|]; [|discriminate].
      destruct (seq_runp l1 w') as [[w'' rs]|] eqn:E; [|discriminate].
      inversion H1; subst. rewrite (IH l2 w' w1 rs w2 rs2 E H2). reflexivity.
  Qed.

  Definition oact (act : option nat) : list nat := match act with Some i => [i] | None => [] end.

  (* the block invariant: the threads of ord have run completely, one after the other, from w0;
     at most one further thread (act) is under way, inside its critical section; all the others
     have not started *)
  Definition BInv (c : cfg) (ord : list nat) (act : option nat) : Prop :=
    length (fst c) = length ps /\
    NoDup ord /\
    (forall i, In i ord -> i < length ps) /\
    (forall i, i < length ps -> ~ In i ord -> act <> Some i -> nth_error (fst c) i = Some []) /\
    exists w1 rs,
      seq_runp ord w0 = Some (w1, rs) /\ locks w1 = [] /\
      map (thread_result ps c) ord = map Some rs /\
      match act with
      | None => snd c = w1
      | Some i =>
          ~ In i ord /\
          exists p hist m,
            nth_error ps i = Some p /\ nth_error (fst c) i = Some hist /\
            Solo i p w1 (rev hist) (snd c) m /\ CS L m /\ locks (snd c) = [L]
      end.

  Lemma BInv_init : BInv (init_cfg ps w0) [] None.
  Proof.
    unfold BInv, init_cfg. simpl. split; [apply map_length|]. split; [constructor|].
    split; [intros i []|]. split.
    - intros i Hi _ _. rewrite nth_error_map.
      destruct (nth_error ps i) eqn:E; [reflexivity|]. apply nth_error_None in E. lia.
    - exists w0, []. auto.
  Qed.

  Lemma thread_result_upd_neq : forall c j x w' i, i <> j ->
    thread_result ps (upd_nth j x (fst c), w') i = thread_result ps c i.
  Proof.
    intros c j x w' i Hne. unfold thread_result. simpl.
    rewrite nth_error_upd_nth_neq by exact Hne. reflexivity.
  Qed.

  Lemma results_upd_notin : forall c j x w' ord, ~ In j ord ->
    map (thread_result ps (upd_nth j x (fst c), w')) ord = map (thread_result ps c) ord.
  Proof.
    intros c j x w' ord Hn. apply map_ext_in. intros i Hi. apply thread_result_upd_neq.
    intros ->. contradiction.
  Qed.

  Lemma exec_nonlock_locks : forall t o w a w',
    lockop o = false -> exec_op t o w = Some (a, w') -> locks w' = locks w.
  Proof.
    intros t o w a w' Hl H. destruct o; simpl in Hl; try discriminate; simpl in H;
      repeat match type of H with
             | context [match ?x with _ => _ end] => destruct x eqn:?; try discriminate
             end; inversion H; subst; reflexivity.
  Qed.

  Lemma acquire_L_free : forall t w, locks w = [] ->
    exec_op t (Acquire (fst L) (snd L)) w = Some (AUnit, set_locks w [L]).
  Proof. intros t w H. simpl. rewrite H. simpl. destruct L; reflexivity. Qed.

  Lemma acquire_L_held : forall t w, locks w = [L] -> exec_op t (Acquire (fst L) (snd L)) w = None.
  Proof.
    intros t w H. simpl. rewrite H. simpl.
    replace (fst L, snd L) with L by (destruct L; reflexivity). rewrite lock_eqb_refl. reflexivity.
  Qed.

  Lemma release_L_held : forall t w, locks w = [L] ->
    exec_op t (Release (fst L) (snd L)) w = Some (AUnit, set_locks w []).
  Proof.
    intros t w H. simpl. rewrite H. simpl.
    replace (fst L, snd L) with L by (destruct L; reflexivity). rewrite lock_eqb_refl. reflexivity.
  Qed.

  Lemma seq_runp_snoc : forall ord w1 rs j p w' r,
    seq_runp ord w0 = Some (w1, rs) -> nth_error ps j = Some p -> run_as j w1 p = Some (w', r) ->
    seq_runp (ord ++ [j]) w0 = Some (w', rs ++ [r]).
  Proof.
    intros ord w1 rs j p w' r H Hp Hr. eapply seq_runp_app; [exact H|].
    simpl. rewrite Hp, Hr. reflexivity.
  Qed.

  Lemma BInv_step : forall c ord act j c',
    BInv c ord act -> thread_step ps c j = Some c' ->
    exists ord' act', BInv c' ord' act' /\ ord' ++ oact act' = note (ord ++ oact act) j.
  Proof.
    intros c ord act j c' (Hlen & Hnd & Hlt & Hidle & w1 & rs & Hseq & Hl1 & Hres & Hact) Hst.
    pose proof (@thread_step_lt _ _ _ _ _ Hst) as Hj.
    apply thread_step_inv in Hst. destruct Hst as (hist & o & k & a & w' & Hh & Hr & He & ->).
    assert (Hp : exists p, nth_error ps j = Some p /\ resume p (rev hist) = Some (Vis o k)).
    { unfold residual in Hr. destruct (nth_error ps j) as [p|]; [|discriminate].
      rewrite Hh in Hr. eauto. }
    destruct Hp as (p & Hp & Hrs).
    assert (Hnin : ~ In j ord).
    { intros Hin. destruct (map_some_in _ _ _ _ _ _ Hres Hin) as [r Hr'].
      unfold thread_result in Hr'. rewrite Hp, Hh, Hrs in Hr'. discriminate. }
    assert (Hidle2 : forall (x : list ans) i, i <> j -> i < length ps -> ~ In i ord -> act <> Some i ->
              nth_error (upd_nth j x (fst c)) i = Some []).
    { intros x i Hij Hi Hni Hai. rewrite nth_error_upd_nth_neq by exact Hij.
      apply Hidle; auto. }
    assert (Hlen' : forall x : list ans, length (upd_nth j x (fst c)) = length ps).
    { intros. rewrite upd_nth_length. exact Hlen. }
    assert (Hjh : j < length (fst c)) by (rewrite Hlen; exact Hj).
    assert (Hstart : ~ In j ord -> act <> Some j -> hist = [] /\
              o = Acquire (fst L) (snd L) /\ forall x, CS L (k x)).
    { intros _ Haj. pose proof (Hidle j Hj Hnin Haj) as Hh0. rewrite Hh in Hh0.
      inversion Hh0; subst hist. simpl in Hrs.
      rewrite resume_nil in Hrs.
      assert (Ep : p = Vis o k) by congruence. rewrite Ep in Hp.
      destruct (Hshape j _ Hp) as [[r E]|(k0 & E & Hk0)]; [discriminate|].
      inversion E; subst. auto. }
    destruct act as [i|]; [destruct (Nat.eq_dec i j) as [->|Hne]|].
    - (* the thread under way takes a step *)
      destruct Hact as (_ & p' & hist' & m & Hp' & Hh' & Hsolo & Hcs & Hlk).
      rewrite Hp in Hp'. inversion Hp'; subst p'. rewrite Hh in Hh'. inversion Hh'; subst hist'.
      pose proof (Solo_resume Hsolo) as Hrs'. rewrite Hrs in Hrs'. inversion Hrs'; subst m.
      pose proof (Solo_snoc Hsolo He) as Hsolo'.
      destruct (lockop o) eqn:Elo.
      + destruct o; try discriminate; simpl in Hcs; [contradiction|].
        destruct Hcs as [HL [r Hkr]].
        assert (Ecl : cls = fst L /\ i = snd L) by (rewrite <- HL; auto). destruct Ecl as [-> ->].
        rewrite (release_L_held j (snd c) Hlk) in He. inversion He; subst a w'.
        rewrite Hkr in Hsolo'.
        exists (ord ++ [j]), None. split.
        * unfold BInv. split; [simpl; apply Hlen'|]. split; [apply NoDup_snoc; auto|]. split.
          { intros x Hx. apply in_app_or in Hx. destruct Hx as [Hx|[<-|[]]]; auto. }
          split.
          { intros x Hx Hnx _. simpl; apply Hidle2; auto.
            - intros ->. apply Hnx. apply in_or_app. right. left. reflexivity.
            - intros Hin. apply Hnx. apply in_or_app. left. exact Hin.
            - intros E. inversion E; subst. apply Hnx. apply in_or_app. right. left. reflexivity. }
          exists (set_locks (snd c) []), (rs ++ [r]). split.
          { eapply seq_runp_snoc; eauto. eapply Solo_run. exact Hsolo'. }
          split; [reflexivity|]. split; [|reflexivity].
          rewrite !map_app. f_equal.
          { rewrite results_upd_notin by exact Hnin. exact Hres. }
          simpl. f_equal. unfold thread_result. simpl. rewrite Hp.
          rewrite nth_error_upd_nth_eq by exact Hjh. simpl.
          rewrite (Solo_resume Hsolo'). reflexivity.
        * simpl. rewrite app_nil_r. symmetry. apply note_in. apply in_or_app. right. left. reflexivity.
      + exists ord, (Some j). split.
        * unfold BInv. split; [simpl; apply Hlen'|]. split; [exact Hnd|]. split; [exact Hlt|]. split.
          { intros x Hx Hnx Hax. simpl; apply Hidle2; auto; try (intros ->; apply Hax; reflexivity). }
          exists w1, rs. split; [exact Hseq|]. split; [exact Hl1|]. split.
          { rewrite results_upd_notin by exact Hnin. exact Hres. }
          split; [exact Hnin|]. exists p, (a :: hist), (k a). split; [exact Hp|]. split.
          { simpl. apply nth_error_upd_nth_eq. exact Hjh. }
          split; [exact Hsolo'|]. split; [eapply CS_nonlock; eauto|].
          simpl. rewrite (exec_nonlock_locks _ _ _ _ _ Elo He). exact Hlk.
        * simpl. symmetry. apply note_in. apply in_or_app. right. left. reflexivity.
    - (* another thread is under way: thread j cannot start *)
      exfalso. destruct Hact as (_ & p' & hist' & m & _ & _ & _ & _ & Hlk).
      destruct Hstart as (_ & -> & _); auto. { intros E. inversion E. contradiction. }
      rewrite (acquire_L_held j (snd c) Hlk) in He. discriminate.
    - (* nobody is under way: thread j starts *)
      destruct Hstart as (-> & -> & Hk); auto; [discriminate|].
      subst w1. rewrite (acquire_L_free j (snd c) Hl1) in He. inversion He; subst a w'.
      exists ord, (Some j). split.
      + unfold BInv. split; [simpl; apply Hlen'|]. split; [exact Hnd|]. split; [exact Hlt|]. split.
        { intros x Hx Hnx Hax. simpl; apply Hidle2; auto; try discriminate; try (intros ->; apply Hax; reflexivity). }
        exists (snd c), rs. split; [exact Hseq|]. split; [exact Hl1|]. split.
        { rewrite results_upd_notin by exact Hnin. exact Hres. }
        split; [exact Hnin|]. exists p, [AUnit], (k AUnit). split; [exact Hp|]. split.
        { simpl. apply nth_error_upd_nth_eq. exact Hjh. }
        split; [|split; [apply Hk | reflexivity]].
        simpl in Hrs. rewrite resume_nil in Hrs. assert (Ep : p = Vis (Acquire (fst L) (snd L)) k) by congruence. rewrite Ep. simpl.
        eapply solo_cons; [apply acquire_L_free; exact Hl1 | apply solo_nil].
      + simpl. rewrite app_nil_r. symmetry. apply note_notin. exact Hnin.
  Qed.

  Lemma BInv_exec : forall sched c ord act c',
    BInv c ord act -> exec ps sched c = Some c' ->
    exists ord' act', BInv c' ord' act' /\ ord' ++ oact act' = fold_left note sched (ord ++ oact act).
  Proof.
    induction sched as [|j s IH]; intros c ord act c' HB He; simpl in He.
    - inversion He; subst. exists ord, act. auto.
    - destruct (thread_step ps c j) as [c1|] eqn:E; [|discriminate].
      destruct (BInv_step _ _ _ _ _ HB E) as (ord1 & act1 & HB1 & E1).
      destruct (IH _ _ _ _ HB1 He) as (ord2 & act2 & HB2 & E2).
      exists ord2, act2. split; auto. simpl. rewrite <- E1. exact E2.
  Qed.

  Theorem one_lock_pool : forall sched c,
    pool_ok ps -> refs_typed (fs w0) ->
    exec ps sched (init_cfg ps w0) = Some c -> stuck ps c ->
    finished ps c = true /\ locks (snd c) = [] /\
    exists w' rs,
      let ord := acq_order sched ++ inert (length ps) sched in
      NoDup ord /\ (forall i, In i ord <-> i < length ps) /\
      seq_runp ord w0 = Some (w', rs) /\
      snd c = w' /\
      map (thread_result ps c) ord = map Some rs.
  Proof.
    intros sched c Hok Hrt He Hst.
    assert (Hfin : finished ps c = true /\ locks (snd c) = [] /\ refs_typed (fs (snd c))).
    { apply stuck_finished; auto. eapply Inv_reachable; eauto.
      eapply exec_reachable; [apply reach_init | exact He]. }
    destruct Hfin as (Hf1 & Hf2 & _). split; [exact Hf1|]. split; [exact Hf2|].
    destruct (BInv_exec _ _ _ _ _ BInv_init He) as (ord & act & HB & Eord). simpl in Eord.
    fold (acq_order sched) in Eord.
    destruct HB as (Hlen & Hnd & Hlt & Hidle & w1 & rs & Hseq & Hl1 & Hres & Hact).
    assert (Hsome : forall i, i < length ps -> exists r, thread_result ps c i = Some r).
    { intros i Hi. unfold finished in Hf1. rewrite forallb_forall in Hf1.
      assert (Hin : In (thread_result ps c i) (results ps c)).
      { unfold results. apply in_map. apply in_seq. lia. }
      specialize (Hf1 _ Hin).
      destruct (thread_result ps c i) as [r|]; [eauto | discriminate]. }
    destruct act as [i|].
    { (* a thread under way has not returned *)
      exfalso. destruct Hact as (_ & p & hist & m & Hp & Hh & Hsolo & Hcs & _).
      assert (Hi : i < length ps) by (apply nth_error_Some; congruence).
      destruct (Hsome i Hi) as [r Hr]. unfold thread_result in Hr. rewrite Hp, Hh in Hr.
      rewrite (Solo_resume Hsolo) in Hr. destruct m; try discriminate. contradiction. }
    simpl in Eord. rewrite app_nil_r in Eord. subst ord.
    (* the threads outside the order are the ones that returned at once *)
    assert (Hin : forall i, In i (inert (length ps) sched) ->
              exists r, nth_error ps i = Some (Ret r) /\ thread_result ps c i = Some r).
    { intros i Hi. unfold inert in Hi. apply filter_In in Hi. destruct Hi as [Hi Hn].
      apply in_seq in Hi. assert (Hilt : i < length ps) by lia.
      assert (Hni : ~ In i (acq_order sched)).
      { intros H. apply existsb_eqb_In in H. rewrite H in Hn. discriminate. }
      assert (Hh : nth_error (fst c) i = Some []) by (apply Hidle; auto; discriminate).
      destruct (Hsome i Hilt) as [r Hr]. unfold thread_result in Hr.
      destruct (nth_error ps i) as [p|] eqn:Ep; [|discriminate]. rewrite Hh in Hr. simpl in Hr.
      destruct p; try discriminate. inversion Hr; subst. exists r. split; auto.
      unfold thread_result. rewrite Ep, Hh. reflexivity. }
    assert (Hrest : forall l, (forall i, In i l -> In i (inert (length ps) sched)) ->
              exists rs2, seq_runp l w1 = Some (w1, rs2) /\ map (thread_result ps c) l = map Some rs2).
    { induction l as [|i l IH]; intros Hl.
      - exists []. auto.
      - destruct (Hin i (Hl i (or_introl eq_refl))) as (r & Hp & Hr).
        destruct IH as (rs2 & H1 & H2); [intros x Hx; apply Hl; right; exact Hx|].
        exists (r :: rs2). simpl. rewrite Hp. simpl. rewrite H1, Hr, H2. auto. }
    destruct (Hrest (inert (length ps) sched)) as (rs2 & Hs2 & Hr2); [auto|].
    exists w1, (rs ++ rs2). cbv zeta. split; [|split; [|split; [|split]]].
    - apply NoDup_app_disj; auto.
      + unfold inert. apply NoDup_filter. apply seq_NoDup.
      + intros x Hx Hx'. unfold inert in Hx'. apply filter_In in Hx'. destruct Hx' as [_ Hn].
        apply existsb_eqb_In in Hx. rewrite Hx in Hn. discriminate.
    - intros i. split.
      + intros Hi. apply in_app_or in Hi. destruct Hi as [Hi|Hi]; auto.
        unfold inert in Hi. apply filter_In in Hi. destruct Hi as [Hi _]. apply in_seq in Hi. lia.
      + intros Hi. destruct (existsb (Nat.eqb i) (acq_order sched)) eqn:E.
        * apply in_or_app. left. apply existsb_eqb_In. exact E.
        * apply in_or_app. right. unfold inert. apply filter_In. split; [apply in_seq; lia|].
          rewrite E. reflexivity.
    - eapply seq_runp_app; eauto.
    - exact Hact.
    - rewrite !map_app. f_equal; auto.
  Qed.
End OneLock.

(* ====================================================================================== *)
(* §3  the writers of one metadata document                                                *)
(* ====================================================================================== *)

Definition doc_lock (p : pid) (f : fmt) : lock := (LMeta, IDoc (AMeta p f)).

Lemma writer_acquire_then : forall B cls x (rest : M B),
  CS (cls, x) rest -> writer_prog (outcome B) (cls, x) (acquire cls x ;;; rest).
Proof.
  intros B cls x rest H. eexists. split; [reflexivity|].
  intros a. destruct a; simpl; auto.
Qed.

Lemma writer_bind_pure : forall A B L (p : prog A) (h : A -> prog B),
  writer_prog A L p -> (forall r, exists r', h r = Ret r') -> writer_prog B L (bind p h).
Proof.
  intros A B L p h (k & -> & Hk) Hh. exists (fun x => bind (k x) h). split; [reflexivity|].
  intros a. apply CS_bind_pure; auto.
Qed.

Lemma writer_lift_unit : forall L (m : M unit),
  writer_prog (outcome unit) L m -> writer_prog (outcome value) L (lift_unit m).
Proof.
  intros L m H. unfold lift_unit, mbind. apply writer_bind_pure; auto.
  intros [a|e]; eexists; reflexivity.
Qed.

Lemma writer_store_metadata : forall p f s v n,
  writer_prog (outcome value) (doc_lock p f) (api (CStoreMeta p f s v n)).
Proof.
  intros. unfold api, store_metadata, doc_lock. cbv zeta.
  apply writer_acquire_then. apply CS_try_finally_release.
  apply LF_mbind; [apply LF_open_source|]. intros _.
  apply LF_mbind; [apply LF_mktmp|]. intros t.
  apply LF_mbind; [apply LF_write_chunks|]. intros _.
  apply LF_mbind.
  - apply LF_catch. apply LF_mbind; [apply LF_unit_op; reflexivity|]. intros _.
    apply LF_unit_op; reflexivity.
  - intros [u|e]; [simpl; auto|].
    apply LF_mbind; [apply LF_unit_op; reflexivity|]. intros _. simpl. auto.
Qed.

Lemma writer_delete_metadata : forall p f,
  writer_prog (outcome value) (doc_lock p f) (api (CDelMeta p (Some f))).
Proof.
  intros. unfold api, delete_metadata, doc_lock. cbv zeta. apply writer_lift_unit.
  apply writer_acquire_then. apply CS_try_finally_release.
  apply LF_mbind; [apply LF_probe|]. intros [|]; [apply LF_unit_op; reflexivity | simpl; auto].
Qed.

(* the calls of the pools: store_metadata and delete_metadata on ONE document (p, f); calls that
   the argument checks reject (they perform no operation) may be among them *)
Definition one_doc_call (p : pid) (f : fmt) (c : call) : Prop :=
  match c with
  | CStoreMeta p' f' _ _ _ => p' = p /\ f' = f
  | CDelMeta p' (Some f') => p' = p /\ f' = f
  | CRejected _ => True
  | _ => False
  end.

Lemma one_doc_shape : forall p f c, one_doc_call p f c ->
  (exists r, api c = Ret r) \/ writer_prog (outcome value) (doc_lock p f) (api c).
Proof.
  intros p f c H. destruct c; simpl in H; try contradiction.
  - destruct H as [-> ->]. right. apply writer_store_metadata.
  - destruct f0 as [f0|]; [|contradiction]. destruct H as [-> ->]. right. apply writer_delete_metadata.
  - left. eexists. reflexivity.
Qed.

Lemma seq_runp_seq_run : forall calls ord w,
  (forall i, In i ord -> i < length calls) ->
  seq_runp (outcome value) (map api calls) ord w = seq_run calls ord w.
Proof.
  induction ord as [|i ord IH]; intros w H; simpl; auto.
  rewrite nth_error_map.
  destruct (nth_error calls i) as [ci|] eqn:E.
  - simpl. unfold callat. rewrite (nth_error_nth calls i _ E).
    destruct (run_as i w (api ci)) as [[w' r]|]; auto.
    rewrite IH; auto. intros x Hx. apply H. right. exact Hx.
  - apply nth_error_None in E. specialize (H i (or_introl eq_refl)). lia.
Qed.

(* THE THEOREM.  Any number of store_metadata / delete_metadata calls on one document, started in
   any world that holds no lock and whose reference files are typed (every world satisfying
   Spec.Inv), under ANY schedule: a configuration in which no thread can move is one in which every
   call has returned and no lock is held, and the final WORLD (file map and lock list) and every
   call's outcome are exactly those of running the calls one after the other in the order in
   which they acquired the document lock (rejected calls, which do nothing, last). *)
Theorem one_doc_writers_linearizable :
  forall (p : pid) (f : fmt) (calls : list call) (w0 : world) (sched : list nat) (c : cfg),
    locks w0 = [] -> refs_typed (fs w0) ->
    (forall ci, In ci calls -> one_doc_call p f ci) ->
    exec (map api calls) sched (init_cfg (map api calls) w0) = Some c ->
    stuck (map api calls) c ->
    finished (map api calls) c = true /\ locks (snd c) = [] /\
    exists (w' : world) (rs : list (outcome value)),
      let ord := acq_order sched ++ inert (length calls) sched in
      NoDup ord /\ (forall i, In i ord <-> i < length calls) /\
      seq_run calls ord w0 = Some (w', rs) /\
      snd c = w' /\
      map (thread_result (map api calls) c) ord = map Some rs.
Proof.
  intros p f calls w0 sched c Hl Hrt Hcalls He Hst.
  destruct (one_lock_pool (outcome value) (map api calls) (doc_lock p f) w0) with (sched := sched) (c := c)
    as (H1 & H2 & w' & rs & H3); auto.
  - intros i q Hq. rewrite nth_error_map in Hq.
    destruct (nth_error calls i) as [ci|] eqn:E; [|discriminate]. inversion Hq; subst q.
    apply one_doc_shape. apply Hcalls. eapply nth_error_In; eauto.
  - apply api_pool_ok.
  - split; [exact H1|]. split; [exact H2|]. exists w', rs.
    rewrite map_length in H3. cbv zeta in *. destruct H3 as (N1 & N2 & N3 & N4 & N5).
    split; [exact N1|]. split; [exact N2|].
    split; [|split; [exact N4 | exact N5]].
    rewrite <- seq_runp_seq_run; [exact N3|]. intros i Hi. apply N2 in Hi. exact Hi.
Qed.

(* the same from a world satisfying the store invariant, in the form of
   IndepMeta.gindep_linearizable (file maps compared address by address) *)
Theorem one_doc_writers_linearizable_inv :
  forall (p : pid) (f : fmt) (calls : list call) (w0 : world) (sched : list nat) (c : cfg),
    Spec.Inv w0 ->
    (forall ci, In ci calls -> one_doc_call p f ci) ->
    exec (map api calls) sched (init_cfg (map api calls) w0) = Some c ->
    stuck (map api calls) c ->
    finished (map api calls) c = true /\ locks (snd c) = [] /\
    exists (ord : list nat) (w' : world) (rs : list (outcome value)),
      NoDup ord /\ (forall i, In i ord <-> i < length calls) /\
      seq_run calls ord w0 = Some (w', rs) /\
      fs_eq (fs (snd c)) (fs w') /\
      map (thread_result (map api calls) c) ord = map Some rs.
Proof.
  intros p f calls w0 sched c HI Hcalls He Hst.
  destruct (one_doc_writers_linearizable p f calls w0 sched c) as (H1 & H2 & w' & rs & H3); auto.
  - destruct HI; auto.
  - apply well_typed_refs_typed. apply InvF_wt. destruct HI; auto.
  - split; [exact H1|]. split; [exact H2|].
    cbv zeta in H3. destruct H3 as (N1 & N2 & N3 & N4 & N5).
    exists (acq_order sched ++ inert (length calls) sched), w', rs.
    repeat split; auto; try (apply N2). intros a. rewrite N4. reflexivity.
Qed.

(* ====================================================================================== *)
(* §4  what the document is afterwards: the last writer to acquire the lock wins           *)
(* ====================================================================================== *)

Lemma run_as_bind : forall A B t (m : prog A) (f : A -> prog B) w,
  run_as t w (bind m f) =
  match run_as t w m with Some (w', a) => run_as t w' (f a) | None => None end.
Proof.
  induction m as [a|o k IH|]; intros f w; simpl; auto.
  destruct (exec_op t o w) as [[x w']|]; auto.
Qed.

Lemma run_as_mbind : forall A B t (m : M A) (f : A -> M B) w,
  run_as t w (mbind m f) =
  match run_as t w m with
  | Some (w', Val a) => run_as t w' (f a)
  | Some (w', Exn e) => Some (w', Exn e)
  | None => None
  end.
Proof.
  intros. unfold mbind. rewrite run_as_bind.
  destruct (run_as t w m) as [[w' [a|e]]|]; reflexivity.
Qed.

Lemma run_as_try_finally : forall A t (m : M A) fin w,
  run_as t w (try_finally m fin) =
  match run_as t w m with
  | Some (w', r) =>
      match run_as t w' fin with
      | Some (w'', Val _) => Some (w'', r)
      | Some (w'', Exn e) => Some (w'', Exn e)
      | None => None
      end
  | None => None
  end.
Proof.
  intros. unfold try_finally. rewrite run_as_bind.
  destruct (run_as t w m) as [[w' r]|]; auto. rewrite run_as_bind.
  destruct (run_as t w' fin) as [[w'' [u|e]]|]; reflexivity.
Qed.

Lemma run_as_catch : forall A t (m : M A) w,
  run_as t w (catch m) =
  match run_as t w m with Some (w', r) => Some (w', Val r) | None => None end.
Proof.
  intros. unfold catch. rewrite run_as_bind. destruct (run_as t w m) as [[w' r]|]; reflexivity.
Qed.

Lemma run_as_write_chunks : forall t t0 k w b n0 i,
  lookup t0 (fs w) = Some (CData b n0 i) ->
  exists w', run_as t w (write_chunks t0 k) = Some (w', Val tt) /\
             lookup t0 (fs w') = Some (CData b n0 (i + k)) /\ locks w' = locks w /\
             forall x, x <> t0 -> lookup x (fs w') = lookup x (fs w).
Proof.
  induction k as [|k IH]; intros w b n0 i Hl.
  - exists w. simpl. rewrite Nat.add_0_r. auto.
  - cbn [write_chunks]. rewrite run_as_mbind. simpl. rewrite Hl. simpl.
    destruct (IH (set_fs w (update t0 (CData b n0 (S i)) (fs w))) b n0 (S i)) as (w' & H1 & H2 & H3 & H4).
    { simpl. apply lookup_update_eq. }
    exists w'. split; [exact H1|]. split; [rewrite H2; f_equal; f_equal; lia|]. split; [exact H3|].
    intros x Hx. rewrite (H4 x Hx). simpl. apply lookup_update_neq. exact Hx.
Qed.

(* the document after one call, as a function of the document before *)
Definition doc_after (c : call) (d : option fcontent) : option fcontent :=
  match c with
  | CStoreMeta _ _ SrcMissing _ _ => d
  | CStoreMeta _ _ _ v n => Some (CData v n n)
  | CDelMeta _ (Some _) => None
  | _ => d
  end.

Lemma one_doc_call_run : forall p f ci t w,
  one_doc_call p f ci -> locks w = [] ->
  exists w' r, run_as t w (api ci) = Some (w', r) /\ locks w' = [] /\
               lookup (AMeta p f) (fs w') = doc_after ci (lookup (AMeta p f) (fs w)).
Proof.
  intros p f ci t w Hc Hl. destruct ci; simpl in Hc; try contradiction.
  - destruct Hc as [-> ->]. unfold api, store_metadata. cbv zeta.
    rewrite run_as_mbind. cbn [acquire run_as]. cbn [exec_op]. rewrite Hl. cbn [memb ret set_locks run_as].
    rewrite run_as_try_finally.
    set (a := AMeta p f).
    assert (Hrel : forall w2 : world, locks w2 = [(LMeta, IDoc a)] ->
              run_as t w2 (release LMeta (IDoc a)) = Some (set_locks w2 [], Val tt)).
    { intros w2 H2. cbn [release run_as exec_op]. rewrite H2. cbn [memb remove1].
      rewrite lock_eqb_refl. reflexivity. }
    rewrite run_as_mbind.
    destruct s; cbn [open_source].
    + (* a path *)
      cbn [unit_op run_as exec_op ret]. rewrite run_as_mbind.
      cbn [mktmp run_as exec_op ret].
      set (t0 := fresh_tmp ArMeta t _).
      set (w2 := set_fs _ (update t0 _ _)).
      rewrite run_as_mbind.
      destruct (run_as_write_chunks t t0 n w2 v n 0) as (w3 & H1 & H2 & H3 & H4).
      { unfold w2. simpl. apply lookup_update_eq. }
      rewrite H1. rewrite run_as_mbind, run_as_catch, run_as_mbind.
      cbn [unit_op run_as exec_op ret]. rewrite H2. cbn [ret run_as].
      rewrite Hrel by (simpl; rewrite H3; unfold w2; reflexivity).
      eexists. eexists. split; [reflexivity|]. split; [reflexivity|].
      simpl. rewrite lookup_update_eq. reflexivity.
    + (* missing source: ValueError, nothing written *)
      cbn [raise run_as]. rewrite Hrel by reflexivity.
      eexists. eexists. split; [reflexivity|]. split; [reflexivity|]. reflexivity.
    + (* a stream *)
      cbn [ret run_as]. rewrite run_as_mbind.
      cbn [mktmp run_as exec_op ret].
      set (t0 := fresh_tmp ArMeta t _).
      set (w2 := set_fs _ (update t0 _ _)).
      rewrite run_as_mbind.
      destruct (run_as_write_chunks t t0 n w2 v n 0) as (w3 & H1 & H2 & H3 & H4).
      { unfold w2. simpl. apply lookup_update_eq. }
      rewrite H1. rewrite run_as_mbind, run_as_catch, run_as_mbind.
      cbn [unit_op run_as exec_op ret]. rewrite H2. cbn [ret run_as].
      rewrite Hrel by (simpl; rewrite H3; unfold w2; reflexivity).
      eexists. eexists. split; [reflexivity|]. split; [reflexivity|].
      simpl. rewrite lookup_update_eq. reflexivity.
  - destruct f0 as [f0|]; [|contradiction]. destruct Hc as [-> ->].
    unfold api, lift_unit, delete_metadata. cbv zeta.
    rewrite !run_as_mbind. cbn [acquire run_as]. cbn [exec_op]. rewrite Hl. cbn [memb ret set_locks run_as].
    rewrite run_as_try_finally, run_as_mbind.
    set (a := AMeta p f).
    assert (Hrel : forall w2 : world, locks w2 = [(LMeta, IDoc a)] ->
              run_as t w2 (release LMeta (IDoc a)) = Some (set_locks w2 [], Val tt)).
    { intros w2 H2. cbn [release run_as exec_op]. rewrite H2. cbn [memb remove1].
      rewrite lock_eqb_refl. reflexivity. }
    cbn [probe run_as exec_op ret].
    change (fs (set_locks w [(LMeta, IDoc a)])) with (fs w).
    destruct (lookup a (fs w)) as [d|] eqn:Ed.
    + cbn [unit_op run_as exec_op ret].
      change (fs (set_locks w [(LMeta, IDoc a)])) with (fs w). rewrite Ed. cbn [ret run_as].
      rewrite Hrel by reflexivity.
      eexists. eexists. split; [reflexivity|]. split; [reflexivity|].
      simpl. apply lookup_delete_eq.
    + cbn [ret run_as]. rewrite Hrel by reflexivity.
      eexists. eexists. split; [reflexivity|]. split; [reflexivity|]. simpl. exact Ed.
  - unfold api. simpl. eexists. eexists. split; [reflexivity|]. auto.
Qed.

Lemma callat_one_doc : forall p f calls,
  (forall ci, In ci calls -> one_doc_call p f ci) -> forall i, one_doc_call p f (callat calls i).
Proof.
  intros p f calls H i. unfold callat. destruct (nth_in_or_default i calls (CRejected EGeneric)) as [Hin|E].
  - apply H. exact Hin.
  - rewrite E. exact I.
Qed.

Lemma seq_run_doc : forall p f calls ord w w' rs,
  (forall i, one_doc_call p f (callat calls i)) -> locks w = [] ->
  seq_run calls ord w = Some (w', rs) ->
  lookup (AMeta p f) (fs w') =
  fold_left (fun d i => doc_after (callat calls i) d) ord (lookup (AMeta p f) (fs w)).
Proof.
  induction ord as [|i ord IH]; intros w w' rs Hc Hl H; simpl in H.
  - inversion H; subst. reflexivity.
  - destruct (one_doc_call_run p f (callat calls i) i w (Hc i) Hl) as (w1 & r & H1 & H2 & H3).
    rewrite H1 in H. destruct (seq_run calls ord w1) as [[w2 rs2]|] eqn:E; [|discriminate].
    inversion H; subst. simpl. rewrite <- H3. eapply IH; eauto.
Qed.

(* the document afterwards: apply the calls' effects on the document in acquisition order — the
   LAST store / delete to acquire the lock decides ([doc_after] of a store with a readable source,
   and of a delete, ignores the document before) *)
Theorem one_doc_last_writer_wins :
  forall (p : pid) (f : fmt) (calls : list call) (w0 : world) (sched : list nat) (c : cfg),
    locks w0 = [] -> refs_typed (fs w0) ->
    (forall ci, In ci calls -> one_doc_call p f ci) ->
    exec (map api calls) sched (init_cfg (map api calls) w0) = Some c ->
    stuck (map api calls) c ->
    lookup (AMeta p f) (fs (snd c)) =
    fold_left (fun d i => doc_after (callat calls i) d)
              (acq_order sched ++ inert (length calls) sched) (lookup (AMeta p f) (fs w0)).
Proof.
  intros p f calls w0 sched c Hl Hrt Hc He Hst.
  destruct (one_doc_writers_linearizable p f calls w0 sched c Hl Hrt Hc He Hst)
    as (_ & _ & w' & rs & H). cbv zeta in H. destruct H as (_ & _ & H3 & H4 & _).
  rewrite H4. eapply seq_run_doc; eauto. apply callat_one_doc. exact Hc.
Qed.
