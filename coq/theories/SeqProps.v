(* SeqProps.v — what the functional specification [sem] of Spec.v guarantees, call by call and
   over arbitrary histories (properties C01d, C03, C04, C05, C11, C17, C19 at specification level).
   Helpers are in SeqLemmas.v.  Stdlib only, no axioms.

   Statements that were false as first written are proved in their strongest true form under the
   same name, with a [<name>_counterexample] next to them.  The common cause: the invariant [InvF]
   (and the store itself: [CTag p c] on an empty store) allows a pid to be bound to a cid whose
   object file does not exist, so "referenced" does not imply "present". *)
From HS Require Import Base PyVal FS Ops Spec SeqLemmas.

Definition proper (c : call) : Prop := match c with CDeleteUnfixed _ => False | _ => True end.

(* ====================================================================================== *)
(* Invariant (C05)                                                                         *)
(* ====================================================================================== *)

Theorem lookup_delete_all_meta : forall p a m,
  lookup a (delete_all_meta p m) = if owned_by p a then None else lookup a m.
Proof. exact lookup_dam. Qed.

Theorem InvF_fs_eq : forall m1 m2, fs_eq m1 m2 -> InvF m1 -> InvF m2.
Proof.
  intros m1 m2 He HI. apply InvF_frame with (m := m1); [exact HI| | |].
  - intros a x E. rewrite <- He in E. apply (InvF_wt _ HI _ _ E).
  - intros p. symmetry. apply He.
  - intros c. symmetry. apply He.
Qed.

Theorem InvF_empty : InvF [].
Proof.
  split; [|split].
  - intros a x E. discriminate.
  - intros p c E. discriminate.
  - intros c l E. discriminate.
Qed.

Theorem sem_inv : forall m c, InvF m -> InvF (fst (sem m c)).
Proof. intros m c HI. eapply effect_inv; [exact HI|]. apply sem_effect. exact HI. Qed.

Theorem sem_history_inv : forall h m, InvF m -> InvF (fst (sem_history m h)).
Proof.
  induction h as [|c h IH]; intros m HI.
  - exact HI.
  - rewrite sem_history_cons. apply IH. apply sem_inv. exact HI.
Qed.

Theorem reach_inv : forall h, InvF (fst (sem_history [] h)).
Proof. intros. apply sem_history_inv. apply InvF_empty. Qed.

Lemma a_bind_Some : forall m p c, a_bind m p = Some c <-> lookup (APidRef p) m = Some (CCid c).
Proof.
  intros. unfold a_bind. destruct (lookup (APidRef p) m) as [[| | |]|]; split; intros H; try discriminate;
    inversion H; reflexivity.
Qed.

Lemma a_refs_Some : forall m c l, a_refs m c = Some l <-> lookup (ACidRef c) m = Some (CLines l).
Proof.
  intros. unfold a_refs. destruct (lookup (ACidRef c) m) as [[| | |]|]; split; intros H; try discriminate;
    inversion H; reflexivity.
Qed.

Theorem bound_iff_listed : forall m p c, InvF m ->
  (a_bind m p = Some c <-> exists l, a_refs m c = Some l /\ In p l).
Proof.
  intros m p c HI. rewrite a_bind_Some. split.
  - intros E. destruct (InvF_bound _ _ _ HI E) as [l [El Hin]]. exists l. rewrite a_refs_Some. auto.
  - intros [l [El Hin]]. apply a_refs_Some in El. destruct (InvF_list _ _ _ HI El) as [_ [_ H3]]. auto.
Qed.

Theorem listed_once : forall m c l, InvF m -> a_refs m c = Some l -> NoDup l /\ l <> [].
Proof.
  intros m c l HI El. apply a_refs_Some in El. destruct (InvF_list _ _ _ HI El) as [H1 [H2 _]]. auto.
Qed.

(* what [CDelete p] does when p is bound, at the level of the four abstract maps *)
Lemma delete_bound : forall m p c, InvF m -> a_bind m p = Some c ->
  exists l, a_refs m c = Some l /\ In p l /\
    snd (sem m (CDelete p)) = Val VUnit /\
    (forall q, a_bind (fst (sem m (CDelete p))) q = if Nat.eqb q p then None else a_bind m q) /\
    (forall c', a_refs (fst (sem m (CDelete p))) c' =
        if Nat.eqb c' c then match filter_lines p l with [] => None | l' => Some l' end
        else a_refs m c') /\
    (forall c', a_obj (fst (sem m (CDelete p))) c' =
        if Nat.eqb c' c then match filter_lines p l with [] => None | _ => a_obj m c' end
        else a_obj m c') /\
    (forall q g, a_meta (fst (sem m (CDelete p))) q g = if Nat.eqb p q then None else a_meta m q g).
Proof.
  intros m p c HI Hb. apply a_bind_Some in Hb. cbn [sem].
  destruct (sem_delete_cases _ p HI) as [[Hn _]|[c1 [l [Ep [El [Hin [Hv Ha]]]]]]].
  { unfold a_bind in Hn. rewrite Hb in Hn. discriminate. }
  rewrite Hb in Ep. inversion Ep; subst c1. clear Ep.
  exists l. split; [apply a_refs_Some; exact El|]. split; [exact Hin|]. split; [exact Hv|].
  unfold a_bind, a_refs, a_obj, a_meta.
  split; [|split; [|split]].
  - intros q. rewrite Ha. unfold del_result. cbn. destruct (Nat.eqb q p); reflexivity.
  - intros c'. rewrite Ha. unfold del_result. cbn. destruct (Nat.eqb c' c); [|reflexivity].
    destruct (filter_lines p l); reflexivity.
  - intros c'. rewrite Ha. unfold del_result. cbn. reflexivity.
  - intros q g. rewrite Ha. unfold del_result. cbn. destruct (Nat.eqb p q); reflexivity.
Qed.

Theorem delete_total : forall m p, InvF m -> a_bind m p <> None ->
  snd (sem m (CDelete p)) = Val VUnit /\
  a_bind (fst (sem m (CDelete p))) p = None /\
  (forall c l, a_refs (fst (sem m (CDelete p))) c = Some l -> ~ In p l) /\
  (forall f, a_meta (fst (sem m (CDelete p))) p f = None).
Proof.
  intros m p HI Hb. destruct (a_bind m p) as [c|] eqn:Eb; [clear Hb|congruence].
  destruct (delete_bound _ _ _ HI Eb) as [l [El [Hin [Hv [Hbd [Hrf [_ Hmt]]]]]]].
  split; [exact Hv|]. split; [rewrite Hbd, Nat.eqb_refl; reflexivity|]. split.
  - intros c' l' E. rewrite Hrf in E. destruct (Nat.eqb c' c) eqn:Ec.
    + destruct (filter_lines p l) as [|z l0] eqn:Ef; [discriminate|]. inversion E; subst l'.
      rewrite <- Ef. apply filter_lines_not_In.
    + intros Hp. apply Nat.eqb_neq in Ec. apply Ec.
      assert (Hb' : a_bind m p = Some c') by (apply bound_iff_listed; eauto). congruence.
  - intros f. rewrite Hmt, Nat.eqb_refl. reflexivity.
Qed.

(* ====================================================================================== *)
(* The effect of an arbitrary call on the abstract maps                                    *)
(* ====================================================================================== *)

Lemma effect_bind : forall m c0 m' q, InvF m -> effect m c0 m' ->
  a_bind m' q = a_bind m q \/
  ((c0 = CDelete q \/ c0 = CDeleteUnfixed q) /\ a_bind m q <> None /\ a_bind m' q = None) \/
  (a_bind m q = None /\ exists b, a_bind m' q = Some b /\
     (c0 = CTag q b \/ exists s n sz ck, c0 = CStore (Some q) s b n sz ck)).
Proof.
  intros m c0 m' q HI He. unfold a_bind.
  destruct He as [c0|p s b n sz ck|c0 m1 p b m' Hc0 HI1 Ep Ha|c0 p c l m' Hc0 Ep El Hin Ha
                 |c sz pre ok Ec|p f s v n|p f|p].
  - left. reflexivity.
  - left. rewrite lookup_add_obj. reflexivity.
  - assert (Hm1 : lookup (APidRef q) m1 = lookup (APidRef q) m).
    { destruct Hc0 as [[_ ->]|[s [n [sz [ck [_ ->]]]]]]; [reflexivity|]. rewrite lookup_add_obj. reflexivity. }
    rewrite Ha. unfold tag_result. cbn. destruct (Nat.eqb q p) eqn:Eq.
    + apply Nat.eqb_eq in Eq. subst q. right. right. rewrite <- Hm1, Ep. split; [reflexivity|].
      exists b. split; [reflexivity|].
      destruct Hc0 as [[-> _]|[s [n [sz [ck [-> _]]]]]]; [left; reflexivity|right; eauto].
    + left. rewrite Hm1. reflexivity.
  - rewrite Ha. unfold del_result. cbn. destruct (Nat.eqb q p) eqn:Eq.
    + apply Nat.eqb_eq in Eq. subst q. right. left. rewrite Ep.
      split; [exact Hc0|]. split; [discriminate|reflexivity].
    + left. reflexivity.
  - left. rewrite lookup_delete. reflexivity.
  - left. rewrite lookup_update. reflexivity.
  - left. rewrite lookup_delete. reflexivity.
  - left. rewrite lookup_dam. reflexivity.
Qed.

Lemma effect_obj : forall m c0 m' c, InvF m -> effect m c0 m' ->
  a_obj m' c = a_obj m c \/
  (a_obj m c = None /\ exists p s n sz ck, c0 = CStore p s c n sz ck /\ a_obj m' c = Some (CData c n n)) \/
  (a_obj m' c = None /\ ~ referenced m' c).
Proof.
  intros m c0 m' c HI He. unfold a_obj.
  assert (Hadd : forall b n, lookup (AObj c) (add_obj m b n) = lookup (AObj c) m \/
                   (b = c /\ lookup (AObj c) m = None /\ lookup (AObj c) (add_obj m b n) = Some (CData c n n))).
  { intros b n. rewrite lookup_add_obj. cbn. destruct (Nat.eqb c b) eqn:Eb; [|left; reflexivity].
    apply Nat.eqb_eq in Eb. subst b. destruct (lookup (AObj c) m); [left; reflexivity|right; auto]. }
  destruct He as [c0|p s b n sz ck|c0 m1 p b m' Hc0 HI1 Ep Ha|c0 p c1 l m' Hc0 Ep El Hin Ha
                 |c1 sz pre ok Ec|p f s v n|p f|p].
  - left. reflexivity.
  - destruct (Hadd b n) as [H|[-> [H1 H2]]]; [left; exact H|].
    right. left. split; [exact H1|]. exists p, s, n, sz, ck. auto.
  - assert (Hm' : lookup (AObj c) m' = lookup (AObj c) m1).
    { rewrite Ha. unfold tag_result. cbn. reflexivity. }
    rewrite Hm'. destruct Hc0 as [[_ ->]|[s [n [sz [ck [-> ->]]]]]]; [left; reflexivity|].
    destruct (Hadd b n) as [H|[-> [H1 H2]]]; [left; exact H|].
    right. left. split; [exact H1|]. exists (Some p), s, n, sz, ck. auto.
  - rewrite Ha. unfold del_result. cbn. destruct (Nat.eqb c c1) eqn:Ec; [|left; reflexivity].
    apply Nat.eqb_eq in Ec. subst c1.
    destruct (filter_lines p l) as [|z l'] eqn:Ef; [|left; reflexivity].
    right. right. split; [reflexivity|].
    intros [q Hq]. apply a_bind_Some in Hq. rewrite Ha in Hq. unfold del_result in Hq. cbn in Hq.
    destruct (Nat.eqb q p) eqn:Eq; [discriminate|]. apply Nat.eqb_neq in Eq.
    destruct (InvF_bound _ _ _ HI Hq) as [l0 [El0 Hin0]]. rewrite El in El0. inversion El0; subst l0.
    apply Eq. eapply filter_lines_nil; eauto.
  - rewrite lookup_delete. cbn. destruct (Nat.eqb c c1) eqn:Ec'; [|left; reflexivity].
    apply Nat.eqb_eq in Ec'. subst c1. right. right. split; [reflexivity|].
    intros [q Hq]. apply a_bind_Some in Hq. rewrite lookup_delete in Hq. cbn in Hq.
    destruct (InvF_bound _ _ _ HI Hq) as [l0 [El0 _]]. rewrite Ec in El0. discriminate.
  - left. rewrite lookup_update. reflexivity.
  - left. rewrite lookup_delete. reflexivity.
  - left. rewrite lookup_dam. reflexivity.
Qed.

(* ====================================================================================== *)
(* One pid, one object (C03)                                                               *)
(* ====================================================================================== *)

Theorem binding_changes_only_by_delete : forall m c0 p c, InvF m -> a_bind m p = Some c ->
  a_bind (fst (sem m c0)) p = Some c \/
  ((c0 = CDelete p \/ c0 = CDeleteUnfixed p) /\ a_bind (fst (sem m c0)) p = None).
Proof.
  intros m c0 p c HI Hb.
  destruct (effect_bind _ _ _ p HI (sem_effect _ c0 HI)) as [H|[[H1 [_ H2]]|[H _]]].
  - left. congruence.
  - right. auto.
  - congruence.
Qed.

(* every way a store_object call for an already bound pid can end *)
Lemma store_bound_result : forall m p c s b n sz ck, InvF m -> a_bind m p = Some c ->
  exists e m', sem m (CStore (Some p) s b n sz ck) = (m', Exn e) /\
    ((m' = m /\ ((src_ok s = false /\ e = EValueError) \/
                 (src_ok s = true /\ sz = VSzBad /\ e = ENonMatchingObjSize) \/
                 (src_ok s = true /\ sz <> VSzBad /\ ck = VCkBad /\ e = ENonMatchingChecksum))) \/
     (m' = add_obj m b n /\ src_ok s = true /\ sz <> VSzBad /\ ck <> VCkBad /\
      (e = EHashStoreRefsAlreadyExists \/ e = EPidRefsAlreadyExists))).
Proof.
  intros m p c s b n sz ck HI Hb. cbn [sem]. rewrite sem_store_unfold.
  destruct (src_ok s) eqn:Es; cbn [negb].
  2:{ exists EValueError, m. split; [reflexivity|]. left. auto. }
  assert (Htag : exists e, sem_tag (add_obj m b n) p b = (add_obj m b n, Exn e) /\
                   (e = EHashStoreRefsAlreadyExists \/ e = EPidRefsAlreadyExists)).
  { destruct (sem_tag_cases _ p b (InvF_add_obj _ b n HI)) as [[_ H]|[Hn _]]; [exact H|].
    rewrite lookup_add_obj in Hn. cbn in Hn. apply a_bind_Some in Hb. congruence. }
  destruct Htag as [e [Ht He]].
  destruct sz.
  3:{ exists ENonMatchingObjSize, m. split; [reflexivity|]. left. split; [reflexivity|].
      right. left. auto. }
  all: destruct ck.
  3,6:(exists ENonMatchingChecksum, m; split; [reflexivity|]; left; split; [reflexivity|];
       right; right; repeat split; auto; discriminate).
  all: rewrite Ht; exists e, (add_obj m b n); split; [reflexivity|]; right;
       repeat split; auto; discriminate.
Qed.

(* FALSE AS FIRST WRITTEN: the last clause claimed [~ referenced m c'] for the one object that a
   rejected store_object may leave behind.  A bound cid need not have an object file
   ([CTag 1 5] on the empty store), and then storing content 5 for pid 1 is rejected but creates
   object 5, which IS referenced (by pid 1 itself); see [rebind_rejected_counterexample].
   Proved instead: the new object is exactly the content of the rejected store_object call, which
   had a readable source and no invalid verdict; and it is unreferenced whenever every referenced
   object of [m] is present. *)
Theorem rebind_rejected : forall m p c c0, InvF m -> a_bind m p = Some c ->
  ((exists s b n sz ck, c0 = CStore (Some p) s b n sz ck) \/ (exists c', c0 = CTag p c')) ->
  (exists e, snd (sem m c0) = Exn e /\
     In e [EHashStoreRefsAlreadyExists; EPidRefsAlreadyExists; EValueError;
           ENonMatchingObjSize; ENonMatchingChecksum]) /\
  (forall q, a_bind (fst (sem m c0)) q = a_bind m q) /\
  (forall c', a_refs (fst (sem m c0)) c' = a_refs m c') /\
  (forall q f, a_meta (fst (sem m c0)) q f = a_meta m q f) /\
  (forall c', a_obj m c' <> None -> a_obj (fst (sem m c0)) c' = a_obj m c') /\
  (forall c', a_obj m c' = None -> a_obj (fst (sem m c0)) c' <> None ->
     (exists s n sz ck, c0 = CStore (Some p) s c' n sz ck /\
        src_ok s = true /\ sz <> VSzBad /\ ck <> VCkBad /\
        a_obj (fst (sem m c0)) c' = Some (CData c' n n)) /\
     ((forall c'', referenced m c'' -> a_obj m c'' <> None) -> ~ referenced m c')).
Proof.
  intros m p c c0 HI Hb [[s [b [n [sz [ck ->]]]]]|[c' ->]].
  - destruct (store_bound_result _ _ _ s b n sz ck HI Hb) as [e [m' [Hs Hcase]]].
    rewrite Hs. cbn [fst snd].
    destruct Hcase as [[-> He]|[-> [Es [Hsz [Hck He]]]]].
    + split.
      { exists e. split; [reflexivity|].
        destruct He as [[_ ->]|[[_ [_ ->]]|[_ [_ [_ ->]]]]]; simpl; auto 10. }
      repeat split; auto. all: congruence.
    + split.
      { exists e. split; [reflexivity|]. destruct He as [->| ->]; simpl; auto. }
      unfold a_bind, a_refs, a_meta, a_obj.
      split; [intros q; rewrite lookup_add_obj; reflexivity|].
      split; [intros q; rewrite lookup_add_obj; reflexivity|].
      split; [intros q f; rewrite lookup_add_obj; reflexivity|].
      split.
      * intros c' Hc'. rewrite lookup_add_obj. cbn. destruct (Nat.eqb c' b) eqn:Eb; [|reflexivity].
        apply Nat.eqb_eq in Eb. subst c'. destruct (lookup (AObj b) m); [reflexivity|congruence].
      * intros c' Hc' Hc''. rewrite lookup_add_obj in *. cbn in *.
        destruct (Nat.eqb c' b) eqn:Eb; [|congruence].
        apply Nat.eqb_eq in Eb. subst c'. rewrite Hc'. split.
        -- exists s, n, sz, ck. auto.
        -- intros Hall Hr. apply (Hall _ Hr). exact Hc'.
  - cbn [sem]. destruct (sem_tag_cases _ p c' HI) as [[_ [e [Hs He]]]|[Hn _]].
    2:{ apply a_bind_Some in Hb. congruence. }
    rewrite Hs. cbn [fst snd]. split.
    { exists e. split; [reflexivity|]. destruct He as [->| ->]; simpl; auto. }
    repeat split; auto. all: congruence.
Qed.

Theorem rebind_rejected_class : forall m p c c0, InvF m -> a_bind m p = Some c ->
  ((exists s b n sz ck, c0 = CStore (Some p) s b n sz ck /\
      src_ok s = true /\ sz <> VSzBad /\ ck <> VCkBad) \/ (exists c', c0 = CTag p c')) ->
  snd (sem m c0) = Exn EHashStoreRefsAlreadyExists \/ snd (sem m c0) = Exn EPidRefsAlreadyExists.
Proof.
  intros m p c c0 HI Hb [[s [b [n [sz [ck [-> [Es [Hsz Hck]]]]]]]]|[c' ->]].
  - destruct (store_bound_result _ _ _ s b n sz ck HI Hb) as [e [m' [Hs Hcase]]].
    rewrite Hs. cbn [snd].
    destruct Hcase as [[_ He]|[_ [_ [_ [_ He]]]]].
    + destruct He as [[E _]|[[_ [E _]]|[_ [_ [E _]]]]]; congruence.
    + destruct He as [->| ->]; auto.
  - cbn [sem]. destruct (sem_tag_cases _ p c' HI) as [[_ [e [Hs He]]]|[Hn _]].
    2:{ apply a_bind_Some in Hb. congruence. }
    rewrite Hs. cbn [snd]. destruct He as [->| ->]; auto.
Qed.

(* precisely which already-exists class: by whether the new cid has a reference list *)
Theorem rebind_rejected_which : forall m p c s b n sz ck, InvF m -> a_bind m p = Some c ->
  src_ok s = true -> sz <> VSzBad -> ck <> VCkBad ->
  snd (sem m (CStore (Some p) s b n sz ck)) =
  Exn (if present (ACidRef b) m then EHashStoreRefsAlreadyExists else EPidRefsAlreadyExists).
Proof.
  intros m p c s b n sz ck HI Hb Es Hsz Hck. cbn [sem]. rewrite sem_store_unfold, Es. cbn [negb].
  apply a_bind_Some in Hb.
  assert (Ht : sem_tag (add_obj m b n) p b =
          (add_obj m b n, Exn (if present (ACidRef b) m then EHashStoreRefsAlreadyExists
                               else EPidRefsAlreadyExists))).
  { unfold sem_tag, present. rewrite !lookup_add_obj. cbn. rewrite Hb.
    destruct (lookup (ACidRef b) m); reflexivity. }
  destruct sz; try congruence; destruct ck; try congruence; rewrite Ht; reflexivity.
Qed.

Definition m_unbacked : fmap := fst (sem [] (CTag 1 5)).

Example rebind_rejected_counterexample :
  InvF m_unbacked /\ a_bind m_unbacked 1 = Some 5 /\
  let c0 := CStore (Some 1) SrcPath 5 3 VSzNone VCkNone in
  snd (sem m_unbacked c0) = Exn EHashStoreRefsAlreadyExists /\
  a_obj m_unbacked 5 = None /\ a_obj (fst (sem m_unbacked c0)) 5 = Some (CData 5 3 3) /\
  referenced m_unbacked 5.
Proof.
  split; [apply sem_inv; apply InvF_empty|].
  split; [reflexivity|]. cbv zeta. split; [reflexivity|]. split; [reflexivity|].
  split; [reflexivity|]. exists 1. reflexivity.
Qed.

Theorem rebound_only_after_delete : forall h m p c c', InvF m -> a_bind m p = Some c ->
  a_bind (fst (sem_history m h)) p = Some c' -> c' <> c ->
  In (CDelete p) h \/ In (CDeleteUnfixed p) h.
Proof.
  induction h as [|c0 h IH]; intros m p c c' HI Hb Hb' Hne.
  - cbn in Hb'. congruence.
  - rewrite sem_history_cons in Hb'.
    destruct (binding_changes_only_by_delete _ c0 _ _ HI Hb) as [H|[[H|H] _]].
    + destruct (IH _ _ _ _ (sem_inv _ c0 HI) H Hb' Hne) as [Hin|Hin]; [left|right]; right; exact Hin.
    + left. left. exact H.
    + right. left. exact H.
Qed.

(* ====================================================================================== *)
(* Referenced objects are never removed (C04)                                              *)
(* ====================================================================================== *)

(* FALSE AS FIRST WRITTEN ([a_obj m' c = a_obj m c] unconditionally): a referenced cid may have
   no object file, and a later store_object of that very content creates it
   ([referenced_object_stable_counterexample]).  Strongest true form: the object is unchanged,
   or it was absent and this call is a store_object that created it with its own content. *)
Theorem referenced_object_stable : forall m c0 c, InvF m ->
  referenced m c -> referenced (fst (sem m c0)) c ->
  a_obj (fst (sem m c0)) c = a_obj m c \/
  (a_obj m c = None /\ exists p s n sz ck,
     c0 = CStore p s c n sz ck /\ a_obj (fst (sem m c0)) c = Some (CData c n n)).
Proof.
  intros m c0 c HI _ Hr'.
  destruct (effect_obj _ _ _ c HI (sem_effect _ c0 HI)) as [H|[H|[_ H]]]; auto. contradiction.
Qed.

(* the statement as first written holds for every object that is present *)
Theorem referenced_object_stable_present : forall m c0 c, InvF m ->
  referenced m c -> referenced (fst (sem m c0)) c -> a_obj m c <> None ->
  a_obj (fst (sem m c0)) c = a_obj m c.
Proof.
  intros m c0 c HI Hr Hr' Hp.
  destruct (referenced_object_stable _ c0 _ HI Hr Hr') as [H|[H _]]; [exact H|contradiction].
Qed.

Example referenced_object_stable_counterexample :
  InvF m_unbacked /\ referenced m_unbacked 5 /\
  let c0 := CStore None SrcPath 5 3 VSzNone VCkNone in
  referenced (fst (sem m_unbacked c0)) 5 /\
  a_obj m_unbacked 5 = None /\ a_obj (fst (sem m_unbacked c0)) 5 = Some (CData 5 3 3).
Proof.
  split; [apply sem_inv; apply InvF_empty|].
  split; [exists 1; reflexivity|]. cbv zeta.
  split; [exists 1; reflexivity|]. split; reflexivity.
Qed.

Theorem object_removed_only_when_unreferenced : forall m c0 c, InvF m ->
  a_obj m c <> None -> a_obj (fst (sem m c0)) c = None -> ~ referenced (fst (sem m c0)) c.
Proof.
  intros m c0 c HI Hp Hn.
  destruct (effect_obj _ _ _ c HI (sem_effect _ c0 HI)) as [H|[[H _]|[_ H]]].
  - congruence.
  - contradiction.
  - exact H.
Qed.

Theorem last_delete_removes : forall m p c, InvF m -> a_bind m p = Some c -> a_refs m c = Some [p] ->
  a_obj (fst (sem m (CDelete p))) c = None /\ a_refs (fst (sem m (CDelete p))) c = None.
Proof.
  intros m p c HI Hb Hr.
  destruct (delete_bound _ _ _ HI Hb) as [l [El [Hin [Hv [Hbd [Hrf [Hob Hmt]]]]]]].
  rewrite Hr in El. inversion El; subst l.
  rewrite Hrf, Hob, Nat.eqb_refl. unfold filter_lines. cbn. rewrite Nat.eqb_refl. cbn. auto.
Qed.

Theorem delete_shared_keeps : forall m p q c, InvF m ->
  a_bind m p = Some c -> a_bind m q = Some c -> q <> p ->
  a_obj (fst (sem m (CDelete p))) c = a_obj m c /\ a_bind (fst (sem m (CDelete p))) q = Some c.
Proof.
  intros m p q c HI Hb Hq Hne.
  destruct (delete_bound _ _ _ HI Hb) as [l [El [Hin [Hv [Hbd [Hrf [Hob Hmt]]]]]]].
  split.
  - rewrite Hob, Nat.eqb_refl.
    assert (Hql : In q (filter_lines p l)).
    { apply In_filter_lines. split; [|exact Hne].
      apply (bound_iff_listed _ q c HI) in Hq. destruct Hq as [l0 [El0 Hin0]]. congruence. }
    destruct (filter_lines p l); [destruct Hql|reflexivity].
  - rewrite Hbd. apply Nat.eqb_neq in Hne. rewrite Hne. exact Hq.
Qed.

Theorem del_invalid_guard : forall m c sz pre ok, InvF m -> referenced m c ->
  fst (sem m (CDelInvalid c sz pre ok)) = m.
Proof.
  intros m c sz pre ok HI [p Hp]. cbn [sem].
  destruct (sem_del_invalid_fst m c sz pre ok) as [H|[Hc _]]; [exact H|].
  apply a_bind_Some in Hp. destruct (InvF_bound _ _ _ HI Hp) as [l [El _]]. congruence.
Qed.

Theorem objects_never_altered : forall m c0 c x y, InvF m ->
  a_obj m c = Some x -> a_obj (fst (sem m c0)) c = Some y -> x = y.
Proof.
  intros m c0 c x y HI Hx Hy.
  destruct (effect_obj _ _ _ c HI (sem_effect _ c0 HI)) as [H|[[H _]|[H _]]]; congruence.
Qed.

(* ====================================================================================== *)
(* Retrieval is stable (C01 d)                                                             *)
(* ====================================================================================== *)

Theorem retrieve_bound : forall m p c x, InvF m -> a_bind m p = Some c -> a_obj m c = Some x ->
  sem m (CRetrieve p) = (m, Val (VBytes x)).
Proof.
  intros m p c x HI Hb Hx. apply a_bind_Some in Hb. unfold a_obj in Hx.
  destruct (InvF_bound _ _ _ HI Hb) as [l [El Hin]]. apply memb_nat_In in Hin.
  cbn [sem]. unfold sem_retrieve, sem_find, present. rewrite Hb, El, Hin, Hx. cbn. rewrite Hx. reflexivity.
Qed.

Theorem store_then_retrieve : forall m p s b n sz ck m', InvF m ->
  sem m (CStore (Some p) s b n sz ck) = (m', Val (VMeta b n)) ->
  (a_obj m b = None \/ a_obj m b = Some (CData b n n)) ->
  sem m' (CRetrieve p) = (m', Val (VBytes (CData b n n))).
Proof.
  intros m p s b n sz ck m' HI Hs Hob.
  assert (HI' : InvF m').
  { replace m' with (fst (sem m (CStore (Some p) s b n sz ck))) by (rewrite Hs; reflexivity).
    apply sem_inv. exact HI. }
  cbn [sem] in Hs. rewrite sem_store_unfold in Hs.
  destruct (negb (src_ok s)); [discriminate|].
  assert (Ht : forall a, lookup a m' = tag_result (add_obj m b n) p b a).
  { destruct (sem_tag_cases _ p b (InvF_add_obj _ b n HI)) as [[_ [e [Hs' _]]]|[_ [Hv Ha]]].
    - rewrite Hs' in Hs. destruct sz; try discriminate; destruct ck; discriminate.
    - destruct (sem_tag (add_obj m b n) p b) as [m2 r]. cbn in Hv, Ha. subst r.
      destruct sz; try discriminate; destruct ck; try discriminate; inversion Hs; subst m2; exact Ha. }
  apply retrieve_bound with (c := b); [exact HI'| |].
  - unfold a_bind. rewrite Ht. unfold tag_result. cbn. rewrite Nat.eqb_refl. reflexivity.
  - unfold a_obj in *. rewrite Ht. unfold tag_result. cbn. rewrite lookup_add_obj. cbn.
    rewrite Nat.eqb_refl. destruct Hob as [-> | ->]; reflexivity.
Qed.

Theorem retrieve_stable : forall h m p c x, InvF m -> a_bind m p = Some c -> a_obj m c = Some x ->
  ~ In (CDelete p) h -> ~ In (CDeleteUnfixed p) h ->
  snd (sem (fst (sem_history m h)) (CRetrieve p)) = Val (VBytes x).
Proof.
  induction h as [|c0 h IH]; intros m p c x HI Hb Hx Hn1 Hn2.
  - cbn [sem_history fst]. rewrite (retrieve_bound _ _ _ _ HI Hb Hx). reflexivity.
  - rewrite sem_history_cons.
    assert (Hb' : a_bind (fst (sem m c0)) p = Some c).
    { destruct (binding_changes_only_by_delete _ c0 _ _ HI Hb) as [H|[[H|H] _]]; [exact H| |].
      - exfalso. apply Hn1. left. exact H.
      - exfalso. apply Hn2. left. exact H. }
    apply IH with (c := c).
    + apply sem_inv. exact HI.
    + exact Hb'.
    + rewrite referenced_object_stable_present; auto; try congruence.
      * exists p. exact Hb.
      * exists p. exact Hb'.
    + intros H. apply Hn1. right. exact H.
    + intros H. apply Hn2. right. exact H.
Qed.

Theorem get_hex_digest_same : forall m p, sem m (CGetHex p) = sem m (CRetrieve p).
Proof. reflexivity. Qed.

(* ====================================================================================== *)
(* Metadata (C11)                                                                          *)
(* ====================================================================================== *)

Theorem meta_roundtrip : forall m p f s v n, src_ok s = true ->
  snd (sem (fst (sem m (CStoreMeta p f s v n))) (CRetrMeta p f)) = Val (VBytes (CData v n n)).
Proof.
  intros m p f s v n Hs. cbn [sem]. unfold sem_store_meta. rewrite Hs. cbn [negb fst].
  unfold sem_retr_meta. rewrite lookup_update_eq. reflexivity.
Qed.

Lemma fst_wrap : forall (A B : Type) (t : fmap * outcome A) (f : outcome B),
  fst (match t with
       | (m2, Val _) => (m2, f)
       | (m2, Exn e) => (m2, Exn e)
       end) = fst t.
Proof. intros A B [m2 [x|e]] f; reflexivity. Qed.

Lemma sem_tag_meta : forall m p c q g,
  lookup (AMeta q g) (fst (sem_tag m p c)) = lookup (AMeta q g) m.
Proof.
  intros. unfold sem_tag.
  destruct (lookup (APidRef p) m); destruct (lookup (ACidRef c) m) as [[| |l|]|]; try reflexivity.
  - cbn [fst]. rewrite lookup_update. cbn. destruct (memb Nat.eqb p l); [reflexivity|].
    rewrite lookup_update. reflexivity.
  - cbn [fst]. rewrite !lookup_update. reflexivity.
Qed.

Lemma sem_delete_meta : forall m p q g,
  lookup (AMeta q g) (fst (sem_delete m p)) = (if Nat.eqb p q then None else lookup (AMeta q g) m) \/
  fst (sem_delete m p) = m.
Proof.
  intros. unfold sem_delete.
  destruct (lookup (APidRef p) m) as [[| |l|]|]; try (right; reflexivity).
  left. destruct (lookup (ACidRef c) m) as [[| |l|]|]; cbn [fst]; rewrite lookup_dam; cbn;
    destruct (Nat.eqb p q); try reflexivity; rewrite ?lookup_delete; try reflexivity.
  destruct (filter_lines p l); rewrite ?lookup_update, ?lookup_delete; reflexivity.
Qed.

(* no invariant needed *)
Theorem meta_frame : forall m c0 q g,
  a_meta (fst (sem m c0)) q g = a_meta m q g \/
  (exists s v n, c0 = CStoreMeta q g s v n) \/
  c0 = CDelMeta q (Some g) \/ c0 = CDelMeta q None \/ c0 = CDelete q \/ c0 = CDeleteUnfixed q.
Proof.
  intros m c0 q g. unfold a_meta.
  destruct c0 as [p s b n sz ck|p c|p|c sz pre ok|p f s v n|p f|p f|p|p|e|p]; cbn [sem].
  - left. rewrite sem_store_unfold. destruct (negb (src_ok s)); [reflexivity|].
    assert (Ht : lookup (AMeta q g) (add_obj m b n) = lookup (AMeta q g) m)
      by (rewrite lookup_add_obj; reflexivity).
    destruct p as [p|]; [|exact Ht].
    destruct sz; try reflexivity; destruct ck; try reflexivity;
      rewrite fst_wrap, sem_tag_meta; exact Ht.
  - left. rewrite fst_wrap. apply sem_tag_meta.
  - destruct (sem_delete_meta m p q g) as [H|H]; [|left; rewrite H; reflexivity].
    destruct (Nat.eqb p q) eqn:E; [|left; exact H].
    apply Nat.eqb_eq in E. subst. auto 10.
  - left. destruct (sem_del_invalid_fst m c sz pre ok) as [H|[_ H]]; rewrite H; [reflexivity|].
    rewrite lookup_delete. reflexivity.
  - unfold sem_store_meta. destruct (negb (src_ok s)); [left; reflexivity|]. cbn [fst].
    rewrite lookup_update. destruct (addr_eqb (AMeta q g) (AMeta p f)) eqn:E; [|left; reflexivity].
    apply addr_eqb_true in E. inversion E; subst. right. left. eauto.
  - left. unfold sem_retr_meta. destruct (lookup (AMeta p f) m); reflexivity.
  - destruct f as [f|]; cbn.
    + rewrite lookup_delete. destruct (addr_eqb (AMeta q g) (AMeta p f)) eqn:E; [|left; reflexivity].
      apply addr_eqb_true in E. inversion E; subst. auto.
    + rewrite lookup_dam. cbn. destruct (Nat.eqb p q) eqn:E; [|left; reflexivity].
      apply Nat.eqb_eq in E. subst. auto.
  - left. rewrite sem_retrieve_fst. reflexivity.
  - left. rewrite sem_retrieve_fst. reflexivity.
  - left. reflexivity.
  - destruct (sem_delete_meta m p q g) as [H|H]; [|left; rewrite H; reflexivity].
    destruct (Nat.eqb p q) eqn:E; [|left; exact H].
    apply Nat.eqb_eq in E. subst. auto 10.
Qed.

(* the calls addressed to document (q, g) *)
Definition touches_meta (q : pid) (g : fmt) (c0 : call) : bool :=
  match c0 with
  | CStoreMeta p f _ _ _ => Nat.eqb p q && Nat.eqb f g
  | CDelMeta p (Some f) => Nat.eqb p q && Nat.eqb f g
  | CDelMeta p None => Nat.eqb p q
  | CDelete p => Nat.eqb p q
  | CDeleteUnfixed p => Nat.eqb p q
  | _ => false
  end.

Lemma meta_frame_b : forall m c0 q g, touches_meta q g c0 = false ->
  a_meta (fst (sem m c0)) q g = a_meta m q g.
Proof.
  intros m c0 q g Ht.
  destruct (meta_frame m c0 q g) as [H|[[s [v [n H]]]|[H|[H|[H|H]]]]]; [exact H| | | | |];
    subst c0; cbn in Ht; rewrite ?Nat.eqb_refl in Ht; discriminate.
Qed.

Lemma meta_history_frame : forall h m q g,
  (forall c0, In c0 h -> touches_meta q g c0 = false) ->
  a_meta (fst (sem_history m h)) q g = a_meta m q g.
Proof.
  induction h as [|c0 h IH]; intros m q g Hh; [reflexivity|].
  rewrite sem_history_cons, IH.
  - apply meta_frame_b. apply Hh. left. reflexivity.
  - intros c1 H1. apply Hh. right. exact H1.
Qed.

(* holds from any file map; [InvF m] is not needed *)
Theorem meta_stable : forall h m q g x, a_meta m q g = Some x ->
  (forall c0, In c0 h -> touches_meta q g c0 = false) ->
  snd (sem (fst (sem_history m h)) (CRetrMeta q g)) = Val (VBytes x).
Proof.
  intros h m q g x Hx Hh. pose proof (meta_history_frame h m q g Hh) as H.
  unfold a_meta in *. cbn [sem]. unfold sem_retr_meta. rewrite H, Hx. reflexivity.
Qed.

Theorem delete_one : forall m p f,
  a_meta (fst (sem m (CDelMeta p (Some f)))) p f = None /\
  forall q g, (q, g) <> (p, f) -> a_meta (fst (sem m (CDelMeta p (Some f)))) q g = a_meta m q g.
Proof.
  intros m p f. unfold a_meta. cbn. split; [apply lookup_delete_eq|].
  intros q g Hne. apply lookup_delete_neq. intros E. inversion E; subst. apply Hne. reflexivity.
Qed.

Theorem delete_all_own_only : forall m p,
  (forall f, a_meta (fst (sem m (CDelMeta p None))) p f = None) /\
  forall q g, q <> p -> a_meta (fst (sem m (CDelMeta p None))) q g = a_meta m q g.
Proof.
  intros m p. unfold a_meta. cbn [sem sem_del_meta fst]. split.
  - intros f. rewrite lookup_dam. cbn. rewrite Nat.eqb_refl. reflexivity.
  - intros q g Hne. rewrite lookup_dam. cbn.
    destruct (Nat.eqb p q) eqn:E; [|reflexivity]. apply Nat.eqb_eq in E. congruence.
Qed.

Theorem delete_object_clears_meta : forall m p, InvF m -> snd (sem m (CDelete p)) = Val VUnit ->
  (forall f, a_meta (fst (sem m (CDelete p))) p f = None) /\
  forall q g, q <> p -> a_meta (fst (sem m (CDelete p))) q g = a_meta m q g.
Proof.
  intros m p HI Hv.
  destruct (a_bind m p) as [c|] eqn:Eb.
  - destruct (delete_bound _ _ _ HI Eb) as [l [_ [_ [_ [_ [_ [_ Hmt]]]]]]]. split.
    + intros f. rewrite Hmt, Nat.eqb_refl. reflexivity.
    + intros q g Hne. rewrite Hmt. destruct (Nat.eqb p q) eqn:E; [|reflexivity].
      apply Nat.eqb_eq in E. congruence.
  - cbn [sem] in Hv. destruct (sem_delete_cases _ p HI) as [[_ Hs]|[c [l [Ep _]]]].
    + rewrite Hs in Hv. discriminate.
    + unfold a_bind in Eb. rewrite Ep in Eb. discriminate.
Qed.

Theorem delete_absent_noop : forall m p f, a_meta m p f = None ->
  snd (sem m (CDelMeta p (Some f))) = Val VUnit /\ fs_eq (fst (sem m (CDelMeta p (Some f)))) m.
Proof.
  intros m p f H. split; [reflexivity|]. cbn. intros a. rewrite lookup_delete.
  destruct (addr_eqb a (AMeta p f)) eqn:E; [|reflexivity].
  apply addr_eqb_true in E. subst a. symmetry. exact H.
Qed.

Theorem retrieve_absent_notfound : forall m p f, a_meta m p f = None ->
  sem m (CRetrMeta p f) = (m, Exn EValueError).
Proof. intros m p f H. cbn [sem]. unfold sem_retr_meta. unfold a_meta in H. rewrite H. reflexivity. Qed.

Definition is_meta_call (c0 : call) : Prop :=
  match c0 with CStoreMeta _ _ _ _ _ | CRetrMeta _ _ | CDelMeta _ _ => True | _ => False end.

Theorem meta_calls_leave_objects : forall m c0, is_meta_call c0 ->
  forall a, meta_owner a = None -> lookup a (fst (sem m c0)) = lookup a m.
Proof.
  intros m c0 Hc a Ha.
  destruct c0 as [p s b n sz ck|p c|p|c sz pre ok|p f s v n|p f|p f|p|p|e|p]; try destruct Hc; cbn [sem].
  - unfold sem_store_meta. destruct (negb (src_ok s)); [reflexivity|]. cbn [fst].
    rewrite lookup_update. destruct (addr_eqb a (AMeta p f)) eqn:E; [|reflexivity].
    apply addr_eqb_true in E. subst a. discriminate.
  - unfold sem_retr_meta. destruct (lookup (AMeta p f) m); reflexivity.
  - destruct f as [f|]; cbn.
    + rewrite lookup_delete. destruct (addr_eqb a (AMeta p f)) eqn:E; [|reflexivity].
      apply addr_eqb_true in E. subst a. discriminate.
    + rewrite lookup_dam. unfold owned_by. rewrite Ha. reflexivity.
Qed.

(* ====================================================================================== *)
(* Rejected and read-only calls change nothing (C17)                                       *)
(* ====================================================================================== *)

Theorem rejected_pure : forall m e, sem m (CRejected e) = (m, Exn e).
Proof. reflexivity. Qed.

Definition is_readonly (c0 : call) : Prop :=
  match c0 with CRetrieve _ | CGetHex _ | CRetrMeta _ _ => True | _ => False end.

Theorem readonly_pure : forall m c0, is_readonly c0 -> fst (sem m c0) = m.
Proof.
  intros m c0 Hc. destruct c0; try destruct Hc; cbn [sem].
  - unfold sem_retr_meta. destruct (lookup (AMeta p f) m); reflexivity.
  - apply sem_retrieve_fst.
  - apply sem_retrieve_fst.
Qed.

(* holds from any file map: a pid reference file with unexpected content is classified like a
   missing one by [sem]; the hypothesis [InvF m] is kept out because it is not needed *)
Theorem unknown_pid_pure : forall m p, a_bind m p = None ->
  sem m (CRetrieve p) = (m, Exn EPidRefsDoesNotExist) /\
  sem m (CGetHex p) = (m, Exn EPidRefsDoesNotExist) /\
  sem m (CDelete p) = (m, Exn EPidRefsDoesNotExist).
Proof.
  intros m p H. unfold a_bind in H. cbn [sem]. unfold sem_retrieve, sem_find, sem_delete.
  destruct (lookup (APidRef p) m) as [[| | |]|]; try discriminate; auto.
Qed.

Theorem missing_source_pure : forall m p b n sz ck,
  sem m (CStore p SrcMissing b n sz ck) = (m, Exn EValueError).
Proof. reflexivity. Qed.

Theorem missing_source_pure_meta : forall m p f v n,
  sem m (CStoreMeta p f SrcMissing v n) = (m, Exn EValueError).
Proof. reflexivity. Qed.

Theorem invalid_store_pure : forall m p s b n ck,
  sem m (CStore (Some p) s b n VSzBad ck) = (m, Exn ENonMatchingObjSize) \/ src_ok s = false.
Proof. intros. destruct s; cbn; auto. Qed.

Theorem invalid_store_pure_ck : forall m p s b n sz, sz <> VSzBad ->
  sem m (CStore (Some p) s b n sz VCkBad) = (m, Exn ENonMatchingChecksum) \/ src_ok s = false.
Proof. intros m p s b n sz H. destruct sz; [| |congruence]; destruct s; cbn; auto. Qed.

(* an invalid verdict (and a missing source) binds nothing and adds no object *)
Theorem invalid_store_fst : forall m p s b n sz ck, sz = VSzBad \/ ck = VCkBad ->
  fst (sem m (CStore (Some p) s b n sz ck)) = m /\
  exists e, snd (sem m (CStore (Some p) s b n sz ck)) = Exn e /\
            In e [EValueError; ENonMatchingObjSize; ENonMatchingChecksum].
Proof.
  intros m p s b n sz ck [-> | ->]; destruct s; try destruct sz; cbn; split; try reflexivity;
    eexists; (split; [reflexivity|]); simpl; auto.
Qed.

(* ====================================================================================== *)
(* The two documented ways of storing converge (C19)                                       *)
(* ====================================================================================== *)

(* store without a pid, optionally delete_if_invalid with the caller's verdict, then tag *)
Definition in_steps (m : fmap) (p : pid) (s : src) (b n : nat) (v : option (vsz * bool * bool))
  : fmap * outcome value :=
  match sem m (CStore None s b n VSzNone VCkNone) with
  | (m1, Exn e) => (m1, Exn e)
  | (m1, Val _) =>
      match (match v with
             | Some (sz, pre, ok) => sem m1 (CDelInvalid b sz pre ok)
             | None => (m1, Val VUnit)
             end) with
      | (m2, Exn e) => (m2, Exn e)
      | (m2, Val _) =>
          match sem m2 (CTag p b) with
          | (m3, Val _) => (m3, Val (VMeta b n))
          | (m3, Exn e) => (m3, Exn e)
          end
      end
  end.

Definition one_call (m : fmap) (p : pid) (s : src) (b n : nat) (sz : vsz) (ck : vck)
  : fmap * outcome value := sem m (CStore (Some p) s b n sz ck).

Lemma present_add_obj : forall m b n, present (AObj b) (add_obj m b n) = true.
Proof.
  intros. unfold present. rewrite lookup_add_obj. cbn. rewrite Nat.eqb_refl.
  destruct (lookup (AObj b) m); reflexivity.
Qed.

Lemma in_steps_tag : forall m p b n,
  match (match sem_tag m p b with
         | (m', Val _) => (m', Val VUnit)
         | (m', Exn e) => (m', Exn e)
         end) with
  | (m3, Val _) => (m3, Val (VMeta b n))
  | (m3, Exn e) => (m3, @Exn value e)
  end =
  match sem_tag m p b with
  | (m2, Val _) => (m2, Val (VMeta b n))
  | (m2, Exn e) => (m2, Exn e)
  end.
Proof. intros. destruct (sem_tag m p b) as [m3 [x|e]]; reflexivity. Qed.

(* the two routes give the very same map and outcome; neither [InvF m] nor the hypothesis on the
   pre-existing object is needed *)
Lemma converge_valid_eq : forall m p s b n sz pre, sz <> VSzBad ->
  one_call m p s b n sz VCkOk = in_steps m p s b n (Some (sz, pre, true)).
Proof.
  intros m p s b n sz pre Hsz. unfold one_call, in_steps. cbn [sem]. rewrite !sem_store_unfold.
  destruct (negb (src_ok s)); [reflexivity|].
  assert (Hd : sem_del_invalid (add_obj m b n) b sz pre true = (add_obj m b n, Val VUnit)).
  { unfold sem_del_invalid. rewrite present_add_obj. destruct sz; [| |congruence]; destruct pre; reflexivity. }
  rewrite Hd. rewrite in_steps_tag. destruct sz; [| |congruence]; reflexivity.
Qed.

Theorem converge_valid : forall m p s b n sz pre, InvF m -> sz <> VSzBad ->
  (a_obj m b = None \/ exists n', a_obj m b = Some (CData b n' n')) ->
  let one := one_call m p s b n sz VCkOk in
  let two := in_steps m p s b n (Some (sz, pre, true)) in
  snd one = snd two /\ fs_eq (fst one) (fst two).
Proof.
  intros m p s b n sz pre _ Hsz _. cbv zeta. rewrite (converge_valid_eq m p s b n sz pre Hsz).
  split; [reflexivity|]. intros a. reflexivity.
Qed.

Lemma converge_unvalidated_eq : forall m p s b n,
  one_call m p s b n VSzNone VCkNone = in_steps m p s b n None.
Proof.
  intros. unfold one_call, in_steps. cbn [sem]. rewrite !sem_store_unfold.
  destruct (negb (src_ok s)); [reflexivity|]. rewrite in_steps_tag. reflexivity.
Qed.

Theorem converge_unvalidated : forall m p s b n, InvF m ->
  (a_obj m b = None \/ exists n', a_obj m b = Some (CData b n' n')) ->
  let one := one_call m p s b n VSzNone VCkNone in
  let two := in_steps m p s b n None in
  snd one = snd two /\ fs_eq (fst one) (fst two).
Proof.
  intros m p s b n _ _. cbv zeta. rewrite converge_unvalidated_eq.
  split; [reflexivity|]. intros a. reflexivity.
Qed.

(* what the in-steps route does when the caller's verdict is "invalid" *)
Lemma in_steps_invalid : forall m p s b n sz pre ok e, src_ok s = true ->
  ((sz = VSzBad /\ e = ENonMatchingObjSize) \/
   (sz <> VSzBad /\ ok = false /\ e = ENonMatchingChecksum)) ->
  in_steps m p s b n (Some (sz, pre, ok)) =
  (if present (ACidRef b) m then add_obj m b n else delete (AObj b) (add_obj m b n), Exn e).
Proof.
  intros m p s b n sz pre ok e Hs Hv. unfold in_steps. cbn [sem]. rewrite sem_store_unfold, Hs.
  cbn [negb]. unfold sem_del_invalid. rewrite present_add_obj.
  assert (Hc : present (ACidRef b) (add_obj m b n) = present (ACidRef b) m).
  { unfold present. rewrite lookup_add_obj. reflexivity. }
  rewrite Hc.
  destruct Hv as [[-> ->]|[Hsz [-> ->]]].
  - destruct (present (ACidRef b) m); reflexivity.
  - destruct sz; [| |congruence]; destruct pre; destruct (present (ACidRef b) m); reflexivity.
Qed.

(* FALSE AS FIRST WRITTEN in one clause: "every referenced object is untouched" fails for a
   referenced cid that has no object file: the in-steps route creates the object and, the cid
   being referenced, delete_if_invalid keeps it ([converge_invalid_counterexample]).  Proved for
   every referenced object that is present, plus: no object other than [b] changes at all.
   Holds for both values of [pre] (the stored object is always readable at that point), for any
   checksum verdict when the size is wrong, and for any [ok] when the size is wrong. *)
Theorem converge_invalid : forall m p s b n sz ck pre ok e, InvF m -> src_ok s = true ->
  ((sz = VSzBad /\ e = ENonMatchingObjSize) \/
   (sz <> VSzBad /\ ck = VCkBad /\ ok = false /\ e = ENonMatchingChecksum)) ->
  let one := one_call m p s b n sz ck in
  let two := in_steps m p s b n (Some (sz, pre, ok)) in
  snd one = Exn e /\ snd two = Exn e /\
  fst one = m /\
  (forall q, a_bind (fst two) q = a_bind m q) /\
  (forall c, a_refs (fst two) c = a_refs m c) /\
  (forall q g, a_meta (fst two) q g = a_meta m q g) /\
  (forall c x, referenced m c -> a_obj m c = Some x -> a_obj (fst two) c = Some x) /\
  (forall c, c <> b -> a_obj (fst two) c = a_obj m c).
Proof.
  intros m p s b n sz ck pre ok e HI Hs Hv. cbv zeta.
  assert (Hone : one_call m p s b n sz ck = (m, Exn e)).
  { unfold one_call. cbn [sem]. rewrite sem_store_unfold, Hs. cbn [negb].
    destruct Hv as [[-> ->]|[Hsz [-> [_ ->]]]]; [reflexivity|].
    destruct sz; [| |congruence]; reflexivity. }
  assert (Hv' : (sz = VSzBad /\ e = ENonMatchingObjSize) \/
                (sz <> VSzBad /\ ok = false /\ e = ENonMatchingChecksum)).
  { destruct Hv as [H|[H1 [_ [H2 H3]]]]; auto. }
  rewrite Hone, (in_steps_invalid m p s b n sz pre ok e Hs Hv'). cbn [fst snd].
  split; [reflexivity|]. split; [reflexivity|]. split; [reflexivity|].
  unfold a_bind, a_refs, a_meta, a_obj, present.
  destruct (lookup (ACidRef b) m) as [y|] eqn:Ec.
  - split; [intros q; rewrite lookup_add_obj; reflexivity|].
    split; [intros c; rewrite lookup_add_obj; reflexivity|].
    split; [intros q g; rewrite lookup_add_obj; reflexivity|].
    split.
    + intros c x _ Hx. rewrite lookup_add_obj. cbn. destruct (Nat.eqb c b) eqn:Eb; [|exact Hx].
      apply Nat.eqb_eq in Eb. subst c. rewrite Hx. reflexivity.
    + intros c Hne. rewrite lookup_add_obj. cbn. apply Nat.eqb_neq in Hne. rewrite Hne. reflexivity.
  - split; [intros q; rewrite lookup_delete, lookup_add_obj; reflexivity|].
    split; [intros c; rewrite lookup_delete, lookup_add_obj; reflexivity|].
    split; [intros q g; rewrite lookup_delete, lookup_add_obj; reflexivity|].
    assert (Hoth : forall c, c <> b ->
              lookup (AObj c) (delete (AObj b) (add_obj m b n)) = lookup (AObj c) m).
    { intros c Hne. rewrite lookup_delete, lookup_add_obj. cbn. apply Nat.eqb_neq in Hne.
      rewrite Hne. reflexivity. }
    split; [|exact Hoth].
    intros c x [q Hq] Hx. rewrite Hoth; [exact Hx|]. intros ->.
    apply a_bind_Some in Hq. destruct (InvF_bound _ _ _ HI Hq) as [l [El _]]. congruence.
Qed.

Example converge_invalid_counterexample :
  InvF m_unbacked /\ referenced m_unbacked 5 /\ a_obj m_unbacked 5 = None /\
  in_steps m_unbacked 2 SrcPath 5 3 (Some (VSzBad, false, false)) =
    (update (AObj 5) (CData 5 3 3) m_unbacked, Exn ENonMatchingObjSize) /\
  one_call m_unbacked 2 SrcPath 5 3 VSzBad VCkNone = (m_unbacked, Exn ENonMatchingObjSize).
Proof.
  split; [apply sem_inv; apply InvF_empty|].
  split; [exists 1; reflexivity|]. repeat split; reflexivity.
Qed.

(* ====================================================================================== *)
(* Non-vacuity: a concrete state satisfying the invariant, and instances                   *)
(* ====================================================================================== *)

(* pids 1 and 2 share object 7; pid 1 has a metadata document in format 0 *)
Definition m_ex : fmap :=
  update (AMeta 1 0) (CData 9 2 2)
    (update (ACidRef 7) (CLines [1; 2])
      (update (APidRef 2) (CCid 7)
        (update (APidRef 1) (CCid 7)
          (update (AObj 7) (CData 7 3 3) [])))).

Example InvF_m_ex : InvF m_ex.
Proof.
  split; [|split].
  - intros a x H. apply lookup_In in H. vm_compute in H.
    destruct H as [H|[H|[H|[H|[H|[]]]]]]; inversion H; subst; cbn; eauto.
  - intros p c H. apply lookup_In in H. vm_compute in H.
    destruct H as [H|[H|[H|[H|[H|[]]]]]]; inversion H; subst;
      (exists [1; 2]; split; [reflexivity|simpl; auto]).
  - intros c l H. apply lookup_In in H. vm_compute in H.
    destruct H as [H|[H|[H|[H|[H|[]]]]]]; inversion H; subst.
    split; [discriminate|]. split.
    + constructor; [simpl; intros [E|[]]; discriminate|]. constructor; [intros []|constructor].
    + intros p [E|[E|[]]]; subst; reflexivity.
Qed.

(* the same state is reached by the API from the empty store *)
Example m_ex_reached :
  fst (sem_history [] [CStore (Some 1) SrcPath 7 3 VSzNone VCkNone;
                       CStore (Some 2) SrcStream 7 3 VSzOk VCkOk;
                       CStoreMeta 1 0 SrcPath 9 2]) = m_ex.
Proof. vm_compute. reflexivity. Qed.

Example ex_delete_shared :
  a_obj (fst (sem m_ex (CDelete 1))) 7 = Some (CData 7 3 3) /\
  a_bind (fst (sem m_ex (CDelete 1))) 2 = Some 7.
Proof.
  exact (delete_shared_keeps m_ex 1 2 7 InvF_m_ex eq_refl eq_refl ltac:(discriminate)).
Qed.

Example ex_delete_clears_meta :
  snd (sem m_ex (CDelete 1)) = Val VUnit /\ a_meta m_ex 1 0 = Some (CData 9 2 2) /\
  a_meta (fst (sem m_ex (CDelete 1))) 1 0 = None.
Proof.
  destruct (delete_total m_ex 1 InvF_m_ex ltac:(discriminate)) as [H1 [_ [_ H4]]].
  split; [exact H1|]. split; [reflexivity|apply H4].
Qed.

Example ex_last_delete :
  let m1 := fst (sem m_ex (CDelete 1)) in
  a_obj m1 7 <> None /\ a_obj (fst (sem m1 (CDelete 2))) 7 = None /\ a_refs (fst (sem m1 (CDelete 2))) 7 = None.
Proof.
  cbv zeta. split; [vm_compute; discriminate|].
  apply last_delete_removes; [apply sem_inv; exact InvF_m_ex|reflexivity|reflexivity].
Qed.

Example ex_rebind_rejected :
  snd (sem m_ex (CStore (Some 1) SrcPath 8 3 VSzNone VCkNone)) = Exn EPidRefsAlreadyExists /\
  a_bind (fst (sem m_ex (CStore (Some 1) SrcPath 8 3 VSzNone VCkNone))) 1 = Some 7 /\
  a_obj (fst (sem m_ex (CStore (Some 1) SrcPath 8 3 VSzNone VCkNone))) 8 = Some (CData 8 3 3) /\
  ~ referenced m_ex 8.
Proof.
  split; [exact (rebind_rejected_which m_ex 1 7 SrcPath 8 3 VSzNone VCkNone InvF_m_ex eq_refl eq_refl
                   ltac:(discriminate) ltac:(discriminate))|].
  destruct (rebind_rejected m_ex 1 7 (CStore (Some 1) SrcPath 8 3 VSzNone VCkNone) InvF_m_ex eq_refl
              ltac:(left; repeat eexists)) as [_ [Hb [_ [_ [_ Hnew]]]]].
  split; [rewrite Hb; reflexivity|]. split; [reflexivity|].
  destruct (Hnew 8 eq_refl ltac:(vm_compute; discriminate)) as [_ Hun]. apply Hun.
  intros c [q Hq]. apply (bound_iff_listed m_ex q c InvF_m_ex) in Hq. destruct Hq as [l [Hl _]].
  apply a_refs_Some in Hl. apply lookup_In in Hl. vm_compute in Hl.
  destruct Hl as [H|[H|[H|[H|[H|[]]]]]]; inversion H; subst. vm_compute. discriminate.
Qed.

Example ex_retrieve_stable :
  snd (sem (fst (sem_history m_ex
         [CDelete 2; CStore (Some 1) SrcPath 8 1 VSzOk VCkOk; CDelInvalid 7 VSzBad false false;
          CStore (Some 3) SrcPath 8 1 VSzNone VCkNone; CDelMeta 1 None; CRejected ETypeError;
          CTag 1 8; CDelete 3]))
       (CRetrieve 1)) = Val (VBytes (CData 7 3 3)).
Proof.
  apply retrieve_stable with (c := 7); [exact InvF_m_ex|reflexivity|reflexivity| |].
  - simpl. intros H. repeat (destruct H as [H|H]; [discriminate|]). exact H.
  - simpl. intros H. repeat (destruct H as [H|H]; [discriminate|]). exact H.
Qed.

Example ex_meta_stable :
  snd (sem (fst (sem_history m_ex [CDelete 2; CStoreMeta 1 1 SrcPath 4 4; CDelMeta 2 None;
                                   CDelMeta 1 (Some 1); CStoreMeta 2 0 SrcStream 5 5]))
       (CRetrMeta 1 0)) = Val (VBytes (CData 9 2 2)).
Proof.
  apply meta_stable; [reflexivity|]. simpl.
  intros c0 H. repeat (destruct H as [H|H]; [subst c0; reflexivity|]). destruct H.
Qed.

Example ex_converge :
  one_call m_ex 3 SrcPath 8 2 VSzOk VCkOk = in_steps m_ex 3 SrcPath 8 2 (Some (VSzOk, false, true)) /\
  snd (one_call m_ex 3 SrcPath 8 2 VSzOk VCkOk) = Val (VMeta 8 2) /\
  snd (one_call m_ex 1 SrcPath 8 2 VSzOk VCkOk) = Exn EPidRefsAlreadyExists /\
  snd (in_steps m_ex 1 SrcPath 8 2 (Some (VSzOk, false, true))) = Exn EPidRefsAlreadyExists.
Proof.
  split; [apply converge_valid_eq; discriminate|]. repeat split; reflexivity.
Qed.

(* ====================================================================================== *)
(* Assumptions                                                                             *)
(* ====================================================================================== *)

Print Assumptions lookup_delete_all_meta.
Print Assumptions InvF_fs_eq.
Print Assumptions InvF_empty.
Print Assumptions sem_inv.
Print Assumptions sem_history_inv.
Print Assumptions reach_inv.
Print Assumptions delete_total.
Print Assumptions bound_iff_listed.
Print Assumptions listed_once.
Print Assumptions binding_changes_only_by_delete.
Print Assumptions rebind_rejected.
Print Assumptions rebind_rejected_class.
Print Assumptions rebind_rejected_which.
Print Assumptions rebind_rejected_counterexample.
Print Assumptions rebound_only_after_delete.
Print Assumptions referenced_object_stable.
Print Assumptions referenced_object_stable_present.
Print Assumptions referenced_object_stable_counterexample.
Print Assumptions object_removed_only_when_unreferenced.
Print Assumptions last_delete_removes.
Print Assumptions delete_shared_keeps.
Print Assumptions del_invalid_guard.
Print Assumptions objects_never_altered.
Print Assumptions retrieve_bound.
Print Assumptions store_then_retrieve.
Print Assumptions retrieve_stable.
Print Assumptions get_hex_digest_same.
Print Assumptions meta_roundtrip.
Print Assumptions meta_frame.
Print Assumptions meta_stable.
Print Assumptions delete_one.
Print Assumptions delete_all_own_only.
Print Assumptions delete_object_clears_meta.
Print Assumptions delete_absent_noop.
Print Assumptions retrieve_absent_notfound.
Print Assumptions meta_calls_leave_objects.
Print Assumptions rejected_pure.
Print Assumptions readonly_pure.
Print Assumptions unknown_pid_pure.
Print Assumptions missing_source_pure.
Print Assumptions missing_source_pure_meta.
Print Assumptions invalid_store_pure.
Print Assumptions invalid_store_pure_ck.
Print Assumptions invalid_store_fst.
Print Assumptions converge_valid.
Print Assumptions converge_unvalidated.
Print Assumptions converge_invalid.
Print Assumptions converge_invalid_counterexample.
Print Assumptions InvF_m_ex.
Print Assumptions ex_retrieve_stable.
