(* FaultBound.v — property C13, second clause, ONE-OFF faults, pids that are ALREADY BOUND (and every
   variant of store_object): "after a failed store_object or tag_object the pid is unbound ... or its
   earlier binding is intact" — never half-bound. *)
From HS Require Import Base PyVal FS Ops Spec Sched RefineLemmas Refine SeqProps CrashFault Integrity
  CrashGeneral FaultGeneral FaultSuccess.

Local Arguments exec_op : simpl never.

(* ================================================================================== *)
(* 1. tag_object on a pid that is bound                                                *)
(* ================================================================================== *)

(* the roll-back of a tag_object(p, c) whose pid is bound to ANOTHER cid refuses to act *)
Lemma untag_mismatch : forall M L p c c0 l0,
  memb lock_eqb (LRefPid, IPid p) L = true ->
  lookup (APidRef p) M = Some (CCid c0) -> lookup (ACidRef c0) M = Some (CLines l0) ->
  memb Nat.eqb p l0 = true -> Nat.eqb c c0 = false ->
  run_seq (mkWorld M L) (untag_object p c) = Some (mkWorld M L, Exn EValueError).
Proof.
  intros M L p c c0 l0 HL Hp Hc Hm Hne.
  unfold untag_object, find_object, validate_and_check_cid_lock.
  destruct (lookup (AObj c0) M) as [o|] eqn:Ho; repeat first [progress run2 | neq_rw]; reflexivity.
Qed.

Ltac use_mismatch :=
  erewrite untag_mismatch by (lk; first [reflexivity | eassumption]); fgo;
  eexists; eexists; reflexivity.

Lemma tag_bound_other_present : forall m L p c c0 l0 l j,
  lookup (APidRef p) m = Some (CCid c0) -> lookup (ACidRef c0) m = Some (CLines l0) ->
  memb Nat.eqb p l0 = true -> Nat.eqb c c0 = false ->
  lookup (ACidRef c) m = Some (CLines l) ->
  memb lock_eqb (LRefPid, IPid p) L = false -> memb lock_eqb (LCid, ICid c) L = false ->
  exists e st', rfs (FWait j false) (mkWorld m L) (tag_object p c) = Some (mkWorld m L, Exn e, st').
Proof.
  intros m L p c c0 l0 l j Hp Hc0 Hm Hne Hc HL1 HL2.
  unfold tag_object, store_refs_body, and_sc, notm, verify_refs, read_cid.
  fgo. destruct j as [|j].
  - fgo. use_mismatch.
  - fgo. destruct j as [|j].
    + fgo. use_mismatch.
    + assert (Hne' : Nat.eqb c0 c = false) by (rewrite Nat.eqb_sym; exact Hne).
      fgo. destruct j as [|j]; fgo; try (eexists; eexists; reflexivity).
Qed.

Lemma tag_bound_other_absent : forall m L p c c0 l0 j,
  lookup (APidRef p) m = Some (CCid c0) -> lookup (ACidRef c0) m = Some (CLines l0) ->
  memb Nat.eqb p l0 = true -> Nat.eqb c c0 = false ->
  lookup (ACidRef c) m = None ->
  memb lock_eqb (LRefPid, IPid p) L = false -> memb lock_eqb (LCid, ICid c) L = false ->
  exists e st', rfs (FWait j false) (mkWorld m L) (tag_object p c) = Some (mkWorld m L, Exn e, st').
Proof.
  intros m L p c c0 l0 j Hp Hc0 Hm Hne Hc HL1 HL2.
  unfold tag_object, store_refs_body, and_sc, notm, verify_refs, read_cid.
  fgo. destruct j as [|j].
  - fgo. use_mismatch.
  - fgo. destruct j as [|j].
    + fgo. use_mismatch.
    + fgo. eexists; eexists; reflexivity.
Qed.

(* fault-free *)
Lemma tag_bound_other_done : forall m L p c c0 l0,
  lookup (APidRef p) m = Some (CCid c0) -> lookup (ACidRef c0) m = Some (CLines l0) ->
  memb Nat.eqb p l0 = true -> Nat.eqb c c0 = false ->
  (forall y, lookup (ACidRef c) m = Some y -> exists l, y = CLines l) ->
  memb lock_eqb (LRefPid, IPid p) L = false -> memb lock_eqb (LCid, ICid c) L = false ->
  exists e, run_seq (mkWorld m L) (tag_object p c) = Some (mkWorld m L, Exn e).
Proof.
  intros m L p c c0 l0 Hp Hc0 Hm Hne Hc HL1 HL2.
  assert (Hne' : Nat.eqb c0 c = false) by (rewrite Nat.eqb_sym; exact Hne).
  unfold tag_object, store_refs_body, and_sc, notm, verify_refs, read_cid.
  destruct (lookup (ACidRef c) m) as [y|] eqn:E.
  - destruct (Hc y eq_refl) as [l ->]. repeat first [progress run2 | neq_rw]. eexists; reflexivity.
  - repeat first [progress run2 | neq_rw]. eexists; reflexivity.
Qed.

(* tag_object(p, c) for a pid bound to c: it raises; nothing changes, or (the failure hit makedirs)
   the roll-back removes the binding *)
Definition unbound_post (m : fmap) (p : pid) (c : cid) (M' : fmap) : Prop :=
  lookup (APidRef p) M' = None /\
  (forall k, k <> c -> lookup (ACidRef k) M' = lookup (ACidRef k) m) /\
  (forall l0, lookup (ACidRef c) M' = Some (CLines l0) -> ~ In p l0).

Ltac use_rollback :=
  match goal with
  | |- context [run_seq (mkWorld ?M ?L0) (untag_object ?p ?c)] =>
      let M' := fresh "M'" in let Hu := fresh "Hu" in
      let U1 := fresh "U1" in let U2 := fresh "U2" in let U3 := fresh "U3" in let U4 := fresh "U4" in
      destruct (untag_rollback M L0 p c) as (M' & Hu & U1 & U2 & U3 & U4);
      [ lk; reflexivity
      | lk; reflexivity
      | lk; first [reflexivity | assumption]
      | let x := fresh "x" in let H := fresh "H" in
        intros x; lk; intros H; first [discriminate H | inversion H; reflexivity]
      | let y := fresh "y" in let H := fresh "H" in
        intros y; lk; intros H; first [discriminate H | inversion H; eauto]
      | rewrite Hu; fgo;
        eexists; eexists; eexists; split; [reflexivity|]; right;
        split; [exact U1|]; split; [exact U3|exact U4] ]
  end.

Lemma tag_bound_same : forall m L p c l j,
  lookup (APidRef p) m = Some (CCid c) -> lookup (ACidRef c) m = Some (CLines l) ->
  memb Nat.eqb p l = true ->
  memb lock_eqb (LRefPid, IPid p) L = false -> memb lock_eqb (LCid, ICid c) L = false ->
  memb lock_eqb (LFile, IDoc (ACidRef c)) L = false ->
  exists M' e st', rfs (FWait j false) (mkWorld m L) (tag_object p c) = Some (mkWorld M' L, Exn e, st') /\
                   (M' = m \/ unbound_post m p c M').
Proof.
  intros m L p c l j Hp Hc Hm HL1 HL2 HL3.
  unfold tag_object, store_refs_body, and_sc, notm, verify_refs, read_cid, is_in_refs, read_lines.
  fgo. destruct j as [|j].
  - fgo. use_rollback.
  - fgo. destruct j as [|j].
    + fgo. use_rollback.
    + fgo. destruct j as [|j]; fgo; try (eexists; eexists; eexists; split; [reflexivity|left; reflexivity]).
      destruct j as [|j]; fgo; eexists; eexists; eexists; (split; [reflexivity|left; reflexivity]).
Qed.

Lemma tag_bound_same_done : forall m L p c l,
  lookup (APidRef p) m = Some (CCid c) -> lookup (ACidRef c) m = Some (CLines l) ->
  memb Nat.eqb p l = true ->
  memb lock_eqb (LRefPid, IPid p) L = false -> memb lock_eqb (LCid, ICid c) L = false ->
  exists e, run_seq (mkWorld m L) (tag_object p c) = Some (mkWorld m L, Exn e).
Proof.
  intros m L p c l Hp Hc Hm HL1 HL2.
  unfold tag_object, store_refs_body, and_sc, notm, verify_refs, read_cid.
  run2. eexists; reflexivity.
Qed.

(* ================================================================================== *)
(* 2. tag_object, any binding, one-off fault or none                                   *)
(* ================================================================================== *)

Definition one_off_st (st : fstate) : Prop := st = FDone \/ exists j, st = FWait j false.

(* the reference files of p in m are consistent *)
Definition refs_ok (m : fmap) (p : pid) : Prop :=
  (forall x, lookup (APidRef p) m = Some x -> exists k, x = CCid k) /\
  (forall k y, lookup (ACidRef k) m = Some y -> exists l, y = CLines l) /\
  (forall c0, lookup (APidRef p) m = Some (CCid c0) ->
     exists l, lookup (ACidRef c0) m = Some (CLines l) /\ In p l) /\
  (forall k l, lookup (ACidRef k) m = Some (CLines l) -> In p l -> lookup (APidRef p) m = Some (CCid k)).

Lemma tag_any : forall m L p c st w' r st',
  one_off_st st -> refs_ok m p ->
  memb lock_eqb (LRefPid, IPid p) L = false -> memb lock_eqb (LCid, ICid c) L = false ->
  memb lock_eqb (LFile, IDoc (ACidRef c)) L = false ->
  rfs st (mkWorld m L) (tag_object p c) = Some (w', r, st') ->
  exists M', w' = mkWorld M' L /\
    match r with
    | Val _ => True
    | Exn _ =>
        M' = m \/
        (unbound_post m p c M' /\
         (lookup (APidRef p) m = None \/ lookup (APidRef p) m = Some (CCid c)))
    end.
Proof.
  intros m L p c st w' r st' Hst (W1 & W2 & I1 & I2) HL1 HL2 HL3 H.
  destruct (lookup (APidRef p) m) as [x|] eqn:Hp.
  - destruct (W1 x eq_refl) as [c0 ->]. destruct (I1 c0 eq_refl) as (l0 & Hc0 & Hin).
    assert (Hm : memb Nat.eqb p l0 = true)
      by (apply (memb_In Nat.eqb nat_eqb_true Nat.eqb_refl); exact Hin).
    destruct (Nat.eqb c c0) eqn:Ecc.
    + apply Nat.eqb_eq in Ecc. subst c0. destruct Hst as [->|[j ->]].
      * rewrite rfs_done in H.
        destruct (tag_bound_same_done m L p c l0 Hp Hc0 Hm HL1 HL2) as (e1 & Hr).
        rewrite Hr in H. inversion H; subst. exists m. split; [reflexivity|left; reflexivity].
      * destruct (tag_bound_same m L p c l0 j Hp Hc0 Hm HL1 HL2 HL3) as (M' & e1 & st1 & Hr & Hpost).
        rewrite Hr in H. inversion H; subst. exists M'. split; [reflexivity|].
        destruct Hpost as [->|Hu]; [left; reflexivity|right; auto].
    + destruct Hst as [->|[j ->]].
      * rewrite rfs_done in H.
        destruct (tag_bound_other_done m L p c c0 l0 Hp Hc0 Hm Ecc (W2 c) HL1 HL2) as (e1 & Hr).
        rewrite Hr in H. inversion H; subst. exists m. split; [reflexivity|left; reflexivity].
      * destruct (lookup (ACidRef c) m) as [y|] eqn:Hc.
        -- destruct (W2 c y Hc) as [l ->].
           destruct (tag_bound_other_present m L p c c0 l0 l j Hp Hc0 Hm Ecc Hc HL1 HL2) as (e1 & st1 & Hr).
           rewrite Hr in H. inversion H; subst. exists m. split; [reflexivity|left; reflexivity].
        -- destruct (tag_bound_other_absent m L p c c0 l0 j Hp Hc0 Hm Ecc Hc HL1 HL2) as (e1 & st1 & Hr).
           rewrite Hr in H. inversion H; subst. exists m. split; [reflexivity|left; reflexivity].
  - assert (Hc : forall y, lookup (ACidRef c) m = Some y ->
                           exists l, y = CLines l /\ memb Nat.eqb p l = false).
    { intros y Hy. destruct (W2 c y Hy) as [l ->]. exists l. split; [reflexivity|].
      apply (proj2 (memb_false_not_In Nat.eqb nat_eqb_true Nat.eqb_refl p l)).
      intros Hin. pose proof (I2 c l Hy Hin) as Hb. discriminate Hb. }
    destruct Hst as [->|[j ->]].
    + rewrite rfs_done in H. destruct (tag_done m L p c Hp Hc HL1 HL2 HL3) as (M' & Hr).
      rewrite Hr in H. inversion H; subst. exists M'. split; [reflexivity|exact I].
    + destruct (tag_one_off m L p c j Hp Hc HL1 HL2 HL3) as (M' & R & st1 & Hr & Hobj & Hpost).
      rewrite Hr in H. inversion H; subst. exists M'. split; [reflexivity|].
      destruct r as [u|e1]; [exact I|]. right. split; [exact Hpost|left; reflexivity].
Qed.

(* ================================================================================== *)
(* 3. What "consistent" means                                                          *)
(* ================================================================================== *)

Definition pid_unbound (m : fmap) (p : pid) : Prop :=
  lookup (APidRef p) m = None /\
  forall k l, lookup (ACidRef k) m = Some (CLines l) -> ~ In p l.

Definition pid_bound_to (m : fmap) (p : pid) (c : cid) : Prop :=
  lookup (APidRef p) m = Some (CCid c) /\
  (exists l, lookup (ACidRef c) m = Some (CLines l) /\ In p l) /\
  forall k l, lookup (ACidRef k) m = Some (CLines l) -> In p l -> k = c.

(* no reference and in no cid list, or a reference naming c and in exactly the list of c *)
Definition pid_consistent (m : fmap) (p : pid) : Prop :=
  pid_unbound m p \/ exists c, pid_bound_to m p c.

(* the reference of p and every cid list are as in m *)
Definition same_refs (p : pid) (m m' : fmap) : Prop :=
  lookup (APidRef p) m' = lookup (APidRef p) m /\
  forall k, lookup (ACidRef k) m' = lookup (ACidRef k) m.

Lemma same_refs_refl : forall p m, same_refs p m m.
Proof. intros. split; reflexivity. Qed.

Lemma same_refs_trans : forall p m1 m2 m3, same_refs p m1 m2 -> same_refs p m2 m3 -> same_refs p m1 m3.
Proof. intros p m1 m2 m3 [A1 A2] [B1 B2]. split; [congruence|]. intros k. rewrite B2. apply A2. Qed.

Lemma refs_ok_same : forall p m m', same_refs p m m' -> refs_ok m p -> refs_ok m' p.
Proof.
  intros p m m' [E1 E2] (W1 & W2 & I1 & I2). unfold refs_ok. rewrite E1.
  split; [exact W1|]. split; [intros k y; rewrite E2; apply W2|].
  split; [intros c0 H; rewrite E2; apply I1; exact H|].
  intros k l; rewrite E2; apply I2.
Qed.

Lemma refs_ok_consistent : forall m p, refs_ok m p -> pid_consistent m p.
Proof.
  intros m p (W1 & W2 & I1 & I2). destruct (lookup (APidRef p) m) as [x|] eqn:Hp.
  - destruct (W1 x eq_refl) as [c ->]. right. exists c. split; [exact Hp|]. split; [apply I1; reflexivity|].
    intros k l Hl Hin. pose proof (I2 k l Hl Hin) as H. inversion H. reflexivity.
  - left. split; [exact Hp|]. intros k l Hl Hin. pose proof (I2 k l Hl Hin) as H. discriminate H.
Qed.

Lemma InvF_refs_ok : forall m p, InvF m -> refs_ok m p.
Proof.
  intros m p (W & I1 & I2). split; [intros x H; exact (wt_pidref _ _ _ W H)|].
  split; [intros k y H; exact (wt_cidref _ _ _ W H)|]. split; [intros c0 H; apply I1; exact H|].
  intros k l Hl Hin. destruct (I2 k l Hl) as (_ & _ & Hb). apply Hb. exact Hin.
Qed.

Lemma unbound_post_unbound : forall m p c M',
  refs_ok m p -> unbound_post m p c M' ->
  (lookup (APidRef p) m = None \/ lookup (APidRef p) m = Some (CCid c)) -> pid_unbound M' p.
Proof.
  intros m p c M' (W1 & W2 & I1 & I2) (U1 & U3 & U4) Hb. split; [exact U1|].
  intros k l Hl Hin. destruct (Nat.eq_dec k c) as [->|Hk]; [eapply U4; eauto|].
  rewrite (U3 k Hk) in Hl. pose proof (I2 k l Hl Hin) as H.
  destruct Hb as [Hb|Hb]; rewrite Hb in H; [discriminate H|]. inversion H. congruence.
Qed.

(* ================================================================================== *)
(* 4. What precedes tag_object in store_object leaves the reference files alone         *)
(* ================================================================================== *)

Ltac kp :=
  repeat (intros; first
    [ apply keeps_ret | apply keeps_bad
    | apply keeps_write_chunks; assumption
    | apply keeps_mbind | apply keeps_bind
    | apply keeps_vis; [simpl; auto|]
    | match goal with |- keeps _ (match ?x with _ => _ end) => destruct x end ]).

Lemma keeps_mgc : forall a po b n sz ck,
  tmpb a = false -> (forall c, AObj c <> a) -> keeps a (move_and_get_checksums po b n sz ck).
Proof.
  intros a po b n sz ck Ha Ho w w' r H. unfold move_and_get_checksums in H. cbv zeta in H.
  apply frun_mbind in H. destruct H as (w1 & r1 & H1 & H).
  destruct (frun_mktmp a _ _ _ _ _ Ha H1) as (E1 & L1 & Ht).
  destruct r1 as [t|e]; [|destruct H as [-> ->]; auto].
  specialize (Ht t eq_refl). assert (Hne : t <> a) by (intros ->; congruence).
  revert H. rewrite <- E1, <- L1. generalize w1 w' r. clear - Hne Ho.
  change (keeps a
    (w <- catch (write_chunks t n) ;;
     match w with
     | Exn _ => swallow_op (Remove t) ;;; raise EGeneric
     | Val _ =>
         e <- probe (AObj b) ;;
         (if negb e
          then
           verify_object match po with Some _ => true | None => false end t sz ck ;;;
           unit_op (MkDirs (AObj b)) ;;;
           r <- catch (unit_op (Rename t (AObj b))) ;;
           match r with
           | Val _ => ret b
           | Exn err =>
               e2 <- probe (AObj b) ;;
               (if e2
                then
                 match po with
                 | Some p' =>
                     d <- get_hex_digest p' ;;
                     match d with
                     | CData b' _ _ => if b' =? b then raise err else delete_object_file b ;;; raise err
                     | _ => delete_object_file b ;;; raise err
                     end
                 | None => raise EValueError
                 end
                else unit_op (Remove t) ;;; raise err)
           end
          else
           r <- catch (verify_object match po with Some _ => true | None => false end t sz ck) ;;
           match r with
           | Val _ => unit_op (Remove t) ;;; ret b
           | Exn ENonMatchingObjSize =>
               (if match po with Some _ => true | None => false end then ret tt else unit_op (Remove t)) ;;;
               raise ENonMatchingObjSize
           | Exn ENonMatchingChecksum =>
               (if match po with Some _ => true | None => false end then ret tt else unit_op (Remove t)) ;;;
               raise ENonMatchingChecksum
           | Exn other => unit_op (Remove t) ;;; raise other
           end)
     end)).
  unfold catch, verify_object, get_hex_digest, find_object, open_object, delete_object_file, read_cid,
    is_in_refs, read_lines, unit_op, swallow_op, probe, read.
  kp.
Qed.

Lemma rfs_one_off_st : forall A (m : prog A) st w w' r st',
  one_off_st st -> rfs st w m = Some (w', r, st') -> one_off_st st'.
Proof.
  intros A m st w w' r st' [->|[j ->]] H.
  - apply rfs_done_state in H. left. tauto.
  - destruct (rfs_wait_cases _ _ _ _ _ _ _ _ H) as [[[j' ->] _]|[[_ ->]|[Hp _]]];
      [right; eauto|left; reflexivity|discriminate].
Qed.

Lemma rfs_keeps_refs : forall A (m : prog A) st M L w' r st' p,
  (forall a, tmpb a = false -> (forall c, AObj c <> a) -> keeps a m) ->
  rfs st (mkWorld M L) m = Some (w', r, st') ->
  exists M', w' = mkWorld M' L /\ same_refs p M M'.
Proof.
  intros A m st M L [M' L'] r st' p Hk H. apply rfs_frun in H.
  exists M'. split.
  - destruct (Hk (APidRef p) eq_refl (fun c E => ltac:(discriminate E)) _ _ _ H) as [_ HL].
    simpl in HL. subst. reflexivity.
  - split.
    + destruct (Hk (APidRef p) eq_refl (fun c E => ltac:(discriminate E)) _ _ _ H) as [E _]. exact E.
    + intros k.
      destruct (Hk (ACidRef k) eq_refl (fun c E => ltac:(discriminate E)) _ _ _ H) as [E _]. exact E.
Qed.

(* ================================================================================== *)
(* 5. store_object(pid, ...), every variant, one-off fault                             *)
(* ================================================================================== *)

Definition exn_post (m : fmap) (p : pid) (res : option (world * outcome value * fstate)) : Prop :=
  match res with
  | Some (w', Exn _, _) => locks w' = [] /\ (same_refs p m (fs w') \/ pid_unbound (fs w') p)
  | _ => True
  end.

Lemma store_any : forall m p s b n sz ck j,
  refs_ok m p ->
  exn_post m p (rfs (FWait j false) (mkWorld m []) (store_object (Some p) s b n sz ck)).
Proof.
  intros m p s b n sz ck j Hok. unfold exn_post, store_object.
  rewrite rfs_mbind, rfs_peek. fgo.
  match goal with |- context [rfs ?st ?w (open_source s)] =>
    destruct (rfs st w (open_source s)) as [[[w2 r2] st2]|] eqn:E2 end; [|exact I].
  assert (S2 : one_off_st st2) by (eapply rfs_one_off_st; [|exact E2]; right; eauto).
  destruct (rfs_keeps_refs _ _ _ _ _ _ _ _ p (fun a _ _ => keeps_open_source a s) E2) as (m2 & -> & R2).
  destruct r2 as [u|e2]; fgo; [|split; [reflexivity|left; exact R2]].
  match goal with |- context [rfs ?st ?w (move_and_get_checksums ?po b n sz ck)] =>
    destruct (rfs st w (move_and_get_checksums po b n sz ck)) as [[[w3 r3] st3]|] eqn:E3 end; [|exact I].
  assert (S3 : one_off_st st3) by (eapply rfs_one_off_st; [exact S2|exact E3]).
  destruct (rfs_keeps_refs _ _ _ _ _ _ _ _ p
              (fun a Ha Ho => keeps_mgc a (Some p) b n sz ck Ha Ho) E3) as (m3 & -> & R3).
  pose proof (same_refs_trans _ _ _ _ R2 R3) as R13.
  destruct r3 as [c|e3]; fgo; [|split; [reflexivity|left; exact R13]].
  match goal with |- context [rfs ?st ?w (tag_object p c)] =>
    destruct (rfs st w (tag_object p c)) as [[[w4 r4] st4]|] eqn:E4 end; [|exact I].
  apply tag_any in E4; try reflexivity; [|exact S3|eapply refs_ok_same; [exact R13|exact Hok]].
  destruct E4 as (M' & -> & Hpost).
  destruct r4 as [u4|e4].
  - fgo. exact I.
  - fgo. split; [reflexivity|].
    destruct Hpost as [->|[Hu Hb]]; [left; exact R13|right].
    eapply unbound_post_unbound; [|exact Hu|exact Hb]. eapply refs_ok_same; [exact R13|exact Hok].
Qed.

(* ================================================================================== *)
(* 6. C13, second clause, ONE-OFF faults: never half-bound                             *)
(* ================================================================================== *)

(* store_object(pid, ...) (every source, size / checksum argument) or tag_object(pid, cid), from
   every state satisfying the representation invariant — the pid bound or not —, every one-off
   fault position: if the call raises, no lock is left, and the pid's reference and every cid list
   are as before the call (the earlier binding, or the absence of one, is intact), or the pid has no
   reference and is in no cid list.  In both cases the pid is consistent: never a reference without
   its line in the cid list, never a line without the reference. *)
Theorem one_off_fault_pid_consistent : forall w0 c p k w e,
  Inv w0 -> binds_pid c = true -> call_pid c = Some p ->
  run_fault (FWait k false) w0 (api c) = Some (w, Exn e) ->
  locks w = [] /\
  (same_refs p (fs w0) (fs w) \/ pid_unbound (fs w) p) /\
  pid_consistent (fs w) p.
Proof.
  intros [m L] c p k w e [HF HL] Hb Hp H. simpl in HL. subst L.
  pose proof (InvF_refs_ok m p HF) as Hok. rewrite rfs_run_fault in H.
  assert (Hfin : forall M', same_refs p m M' \/ pid_unbound M' p -> pid_consistent M' p).
  { intros M' [Hs|Hu]; [|left; exact Hu]. apply refs_ok_consistent. eapply refs_ok_same; eauto. }
  destruct c; try discriminate Hb; simpl in Hp.
  - subst p0. cbn [api] in H. pose proof (store_any m p s b n sz ck k Hok) as HS.
    destruct (rfs (FWait k false) (mkWorld m []) (store_object (Some p) s b n sz ck)) as [[[w1 r1] st1]|];
      [|discriminate].
    inversion H; subst. simpl in HS. destruct HS as [HL HS]. cbn [fs]. auto.
  - inversion Hp; subst p0. cbn [api] in H. unfold lift_unit in H. rewrite rfs_mbind in H.
    destruct (rfs (FWait k false) (mkWorld m []) (tag_object p c)) as [[[w1 r1] st1]|] eqn:E;
      [|discriminate].
    apply tag_any in E; try reflexivity; [|right; eauto|exact Hok].
    destruct E as (M' & -> & Hpost). destruct r1 as [u|e1]; [discriminate H|].
    inversion H; subst. cbn [fs locks].
    assert (HS : same_refs p m M' \/ pid_unbound M' p).
    { destruct Hpost as [->|[Hu Hbd]]; [left; apply same_refs_refl|right].
      eapply unbound_post_unbound; eauto. }
    auto.
Qed.
Print Assumptions one_off_fault_pid_consistent.

(* NON-VACUITY.  Store {1 -> 7}.  (a) tag_object(1, 8) — the pid is bound to another cid — with
   a one-off failure of the first makedirs: the call raises (the roll-back refuses: ValueError), the
   binding 1 -> 7 is intact.  (b) tag_object(1, 7) — the duplicate — with the same failure: the
   roll-back removes the binding; pid 1 is unbound (FaultGeneral.duplicate_store_fault_untags).
   (c) store_object(1, content 8, from a stream, with a size that does not match), one-off failure
   of the temp-file creation: raises, binding intact. *)
Example bound_pid_fault_consistent :
  let w1 := mkWorld [(AObj 7, CData 7 1 1); (APidRef 1, CCid 7); (ACidRef 7, CLines [1])] [] in
  Inv w1 /\
  run_fault (FWait 0 false) w1 (api (CTag 1 8)) = Some (w1, Exn EValueError) /\
  run_fault (FWait 0 false) w1 (api (CTag 1 7)) = Some (mkWorld [(AObj 7, CData 7 1 1)] [], Exn EOSError) /\
  run_fault (FWait 0 false) w1 (api (CStore (Some 1) SrcStream 8 1 VSzBad VCkNone)) = Some (w1, Exn EOSError).
Proof.
  split; [|vm_compute; repeat split; reflexivity].
  assert (H : run_seq empty_world (api (CStore (Some 1) SrcPath 7 1 VSzNone VCkNone)) =
              Some (mkWorld [(AObj 7, CData 7 1 1); (APidRef 1, CCid 7); (ACidRef 7, CLines [1])] [],
                    Val (VMeta 7 1))) by (vm_compute; reflexivity).
  eapply Inv_run_seq; [apply inv_empty| |exact H]. exact I.
Qed.
Print Assumptions bound_pid_fault_consistent.
