"""oracles — predicates on implementation behaviour written from the property texts.  They use the
abstract-state extractor but never the model."""


def refs_of(st):
    """-> (bind: pid->cid token str, lists: cid->list of pid tokens, objs: set cid, other keys)"""
    bind, lists, objs, meta, residue = {}, {}, set(), {}, []
    for k, v in st.items():
        if k.startswith("X") or k.startswith("T") or k.startswith("?"):
            residue.append(k)
        elif k.startswith("P"):
            bind[k[1:]] = v[1:] if v.startswith("C") else "?" + v
        elif k.startswith("R"):
            lists[k[1:]] = [x for x in v[1:].split(",") if x != ""] if v.startswith("L") else ["?" + v]
        elif k.startswith("O"):
            objs.add(k[1:])
        elif k.startswith("M"):
            meta[k[1:]] = v
    return bind, lists, objs, meta, residue


def inv_refs(st):
    """C05: reference bookkeeping exact; no temp / deletion-marker residue.  -> list of problems"""
    bind, lists, objs, meta, residue = refs_of(st)
    bad = []
    for r in residue:
        bad.append("residue file %s" % r)
    for p, c in bind.items():
        if c not in lists:
            bad.append("pid %s bound to %s but cid %s has no reference list" % (p, c, c))
        elif lists[c].count(p) != 1:
            bad.append("pid %s appears %d times in list of %s" % (p, lists[c].count(p), c))
        for c2, l in lists.items():
            if c2 != c and p in l:
                bad.append("pid %s bound to %s but listed under %s" % (p, c, c2))
    for c, l in lists.items():
        if not l:
            bad.append("empty reference list for cid %s" % c)
        for p in l:
            if bind.get(p) != c:
                bad.append("list of %s names pid %s which is bound to %s" % (c, p, bind.get(p)))
    return bad


class OrphanTracker:
    """C05: an unreferenced object exists only if it was stored without a pid (or its tagging was
    rejected) and not deleted since."""

    def __init__(self):
        self.allowed = set()

    def step(self, c, outcome, before, after):
        bad = []
        bb, bl, bo, _, _ = refs_of(before)
        ab, al, ao, _, _ = refs_of(after)
        if c["op"] == "so":
            cid = str(c["b"])
            if c["p"] is None and outcome.startswith("ok:"):
                self.allowed.add(cid)
            if c["p"] is not None and outcome in ("exn:HashStoreRefsAlreadyExists", "exn:PidRefsAlreadyExistsError"):
                self.allowed.add(cid)
        for cid in list(self.allowed):
            if cid not in ao:
                self.allowed.discard(cid)
        for cid in ao:
            if cid not in al and cid not in self.allowed:
                bad.append("unreferenced object %s exists but was never stored without a pid / rejected" % cid)
        return bad


def delete_total(c, outcome, before, after):
    """C05: delete_object(pid) succeeds and clears the pid from any reference condition the API created."""
    if c["op"] != "del":
        return []
    p = str(c["p"])
    bb, bl, _, _, _ = refs_of(before)
    had = p in bb
    bad = []
    if had:
        if outcome != "ok:unit":
            bad.append("delete_object(%s) with an existing pid reference returned %s" % (p, outcome))
        ab, al, _, _, _ = refs_of(after)
        if p in ab:
            bad.append("pid reference of %s survives delete_object" % p)
        for cid, l in al.items():
            if p in l:
                bad.append("pid %s still listed under cid %s after delete_object" % (p, cid))
    return bad


def referenced_stable(c, outcome, before, after):
    """C04: an object that is referenced before and after a call keeps its bytes; it is never removed
    while referenced."""
    bb, bl, bo, _, _ = refs_of(before)
    ab, al, ao, _, _ = refs_of(after)
    bad = []
    for cid, l in al.items():
        if l and cid in bo and cid not in ao:
            bad.append("object %s removed while still referenced by %s" % (cid, l))
        if l and cid in bo and cid in ao and before["O" + cid] != after["O" + cid]:
            bad.append("bytes of referenced object %s changed" % cid)
    return bad
