"""oracles — predicates on implementation behaviour written from the property texts.  They use the
abstract-state extractor but never the model."""


def refs_of(st):
    """-> (bind: pid->cid token str, lists: cid->list of pid tokens, objs: set cid, other keys)"""
    bind, lists, objs, meta, residue = {}, {}, set(), {}, []
    for k, v in st.items():
        if k.startswith("X") or k.startswith("T") or k.startswith("?"):
            residue.append(k)
        elif k.startswith("P"):
            bind[k[1:]] = v[1:] if v.startswith("C") else "?" + v
        elif k.startswith("R"):
            lists[k[1:]] = [x for x in v[1:].split(",") if x != ""] if v.startswith("L") else ["?" + v]
        elif k.startswith("O"):
            objs.add(k[1:])
        elif k.startswith("M"):
            meta[k[1:]] = v
    return bind, lists, objs, meta, residue


def inv_refs(st):
    """C05: reference bookkeeping exact; no temp / deletion-marker residue.  -> list of problems"""
    bind, lists, objs, meta, residue = refs_of(st)
    bad = []
    for r in residue:
        bad.append("residue file %s" % r)
    for p, c in bind.items():
        if c not in lists:
            bad.append("pid %s bound to %s but cid %s has no reference list" % (p, c, c))
        elif lists[c].count(p) != 1:
            bad.append("pid %s appears %d times in list of %s" % (p, lists[c].count(p), c))
        for c2, l in lists.items():
            if c2 != c and p in l:
                bad.append("pid %s bound to %s but listed under %s" % (p, c, c2))
    for c, l in lists.items():
        if not l:
            bad.append("empty reference list for cid %s" % c)
        for p in l:
            if bind.get(p) != c:
                bad.append("list of %s names pid %s which is bound to %s" % (c, p, bind.get(p)))
    return bad


class OrphanTracker:
    """C05: an unreferenced object exists only if it was stored without a pid (or its tagging was
    rejected) and not deleted since."""

    def __init__(self):
        self.allowed = set()

    def step(self, c, outcome, before, after):
        bad = []
        bb, bl, bo, _, _ = refs_of(before)
        ab, al, ao, _, _ = refs_of(after)
        if c["op"] == "so":
            cid = str(c["b"])
            if c["p"] is None and outcome.startswith("ok:"):
                self.allowed.add(cid)
            if c["p"] is not None and outcome in ("exn:HashStoreRefsAlreadyExists", "exn:PidRefsAlreadyExistsError"):
                self.allowed.add(cid)
        for cid in list(self.allowed):
            if cid not in ao:
                self.allowed.discard(cid)
        for cid in ao:
            if cid not in al and cid not in self.allowed:
                bad.append("unreferenced object %s exists but was never stored without a pid / rejected" % cid)
        return bad


def delete_total(c, outcome, before, after):
    """C05: delete_object(pid) succeeds and clears the pid from any reference condition the API created."""
    if c["op"] != "del":
        return []
    p = str(c["p"])
    bb, bl, _, _, _ = refs_of(before)
    had = p in bb
    bad = []
    if had:
        if outcome != "ok:unit":
            bad.append("delete_object(%s) with an existing pid reference returned %s" % (p, outcome))
        ab, al, _, _, _ = refs_of(after)
        if p in ab:
            bad.append("pid reference of %s survives delete_object" % p)
        for cid, l in al.items():
            if p in l:
                bad.append("pid %s still listed under cid %s after delete_object" % (p, cid))
    return bad


def referenced_stable(c, outcome, before, after):
    """C04: an object that is referenced before and after a call keeps its bytes; it is never removed
    while referenced."""
    bb, bl, bo, _, _ = refs_of(before)
    ab, al, ao, _, _ = refs_of(after)
    bad = []
    # "while at least one pid is bound to a cid": bound = has a pid reference naming it (before and after the call)
    for p, cid in ab.items():
        if bb.get(p) == cid and cid in bo and cid not in ao:
            bad.append("object %s removed by %s although pid %s is still bound to it" % (cid, c["op"], p))
    for cid, l in al.items():
        if l and cid in bo and cid not in ao:
            bad.append("object %s removed while still referenced by %s" % (cid, l))
        if l and cid in bo and cid in ao and before["O" + cid] != after["O" + cid]:
            bad.append("bytes of referenced object %s changed" % cid)
    return bad


def rebind_rejected(c, outcome, before, after):
    """C03: a store_object / tag_object for a bound pid is rejected with an already-exists error and
    changes nothing (but possibly one new object); a binding changes only through delete_object."""
    bad = []
    bb, bl, bo, bm, _ = refs_of(before)
    ab, al, ao, am, _ = refs_of(after)
    # bindings change only by delete_object(pid)
    for p, cid in bb.items():
        if ab.get(p) != cid and not (c["op"] == "del" and str(c["p"]) == p):
            bad.append("binding of pid %s changed from %s to %s by %s" % (p, cid, ab.get(p), c["op"]))
    if c["op"] in ("so", "tag") and c.get("p") is not None and str(c["p"]) in bb:
        ok_classes = ["exn:HashStoreRefsAlreadyExists", "exn:PidRefsAlreadyExistsError"]
        if c["op"] == "so":
            if c.get("s") == "m":
                ok_classes = ["exn:ValueError"]
            elif c.get("sz") == "b":
                ok_classes = ["exn:NonMatchingObjSize"]
            elif c.get("ck") == "b":
                ok_classes = ["exn:NonMatchingChecksum"]
        if outcome not in ok_classes:
            bad.append("%s for bound pid %s returned %s (expected %s)" % (c["op"], c["p"], outcome, ok_classes))
        if ab != bb or al != bl or am != bm:
            bad.append("rejected %s for bound pid %s changed references / metadata" % (c["op"], c["p"]))
        for cid in bo:
            if cid not in ao or before["O" + cid] != after["O" + cid]:
                bad.append("rejected %s for bound pid %s disturbed object %s" % (c["op"], c["p"], cid))
        new = ao - bo
        if new and not (c["op"] == "so" and new == {str(c["b"])}):
            bad.append("rejected call created objects %s" % sorted(new))
    return bad


def last_delete_and_guard(c, outcome, before, after):
    """C04: last referencing pid deleted -> object removed; delete_if_invalid never touches a
    referenced object."""
    bad = []
    bb, bl, bo, _, _ = refs_of(before)
    ab, al, ao, _, _ = refs_of(after)
    if c["op"] == "del" and outcome == "ok:unit":
        p = str(c["p"])
        cid = bb.get(p)
        if cid is not None and bl.get(cid) == [p]:
            if cid in ao:
                bad.append("object %s survives deletion of its last referencing pid %s" % (cid, p))
            if cid in al:
                bad.append("reference list of %s survives deletion of its last pid" % cid)
    if c["op"] == "dii":
        cid = str(c["c"])
        if bl.get(cid) and before != after:
            bad.append("delete_if_invalid_object changed the store although %s is referenced" % cid)
    return bad


def verdict_exact(c, outcome, before, after):
    """C06: verdict is exactly 'size and checksum match'; effects of an invalid / valid verdict."""
    bad = []
    bb, bl, bo, _, _ = refs_of(before)
    ab, al, ao, _, res = refs_of(after)
    if c["op"] == "so" and c.get("p") is not None and c.get("s", "p") != "m":
        exp = None
        if c.get("sz") == "b":
            exp = "exn:NonMatchingObjSize"
        elif c.get("ck") == "b":
            exp = "exn:NonMatchingChecksum"
        if exp:
            if outcome != exp:
                bad.append("invalid validation data (%s) judged %s, expected %s" % ((c.get("sz"), c.get("ck"), c.get("real")), outcome, exp))
            if ab != bb:
                bad.append("invalid verdict but bindings changed")
            if ao - bo:
                bad.append("invalid verdict but object %s was added" % sorted(ao - bo))
            if any(k.startswith("T") for k in after):
                bad.append("invalid verdict left a temporary file")
            if before != {k: v for k, v in after.items()}:
                if not bad:
                    bad.append("invalid verdict changed the store")
        else:
            if outcome in ("exn:NonMatchingObjSize", "exn:NonMatchingChecksum"):
                bad.append("correct/absent validation data (%s) rejected with %s" % ((c.get("sz"), c.get("ck"), c.get("real")), outcome))
    if c["op"] == "dii":
        cid = str(c["c"])
        if cid in bo:                      # the object being judged exists
            exp = None
            if c.get("sz") == "b":
                exp = "exn:NonMatchingObjSize"
            elif not c["ok"]:
                exp = "exn:NonMatchingChecksum"
            if exp:
                if outcome != exp:
                    bad.append("delete_if_invalid_object: invalid data %s judged %s, expected %s" % (c.get("real"), outcome, exp))
                referenced = bool(bl.get(cid)) or ("R" + cid) in before
                if referenced and before != after:
                    bad.append("invalid verdict on a referenced object changed the store")
                if not referenced and cid in ao:
                    bad.append("invalid verdict on unreferenced object %s did not remove it" % cid)
                if not referenced and {k: v for k, v in before.items() if k != "O" + cid} != after:
                    bad.append("invalid verdict removed/changed more than the object")
            else:
                if outcome != "ok:unit":
                    bad.append("delete_if_invalid_object: correct data %s rejected with %s" % (c.get("real"), outcome))
                if before != after:
                    bad.append("valid verdict changed the store")
    return bad


class MetaTracker:
    """C11: reference dictionary (pid, format) -> version kept by the harness."""

    def __init__(self):
        self.d = {}

    def step(self, c, outcome, before, after):
        bad = []
        op = c["op"]
        if op == "sm" and outcome.startswith("ok:"):
            self.d[(c["p"], c["f"])] = "D%d.%d.%d" % (c["v"], c["n"], c["n"]) if c["n"] else "D0.0.0"
        elif op == "dm" and outcome == "ok:unit":
            if c["f"] is None:
                for k in [k for k in self.d if k[0] == c["p"]]:
                    del self.d[k]
            else:
                self.d.pop((c["p"], c["f"]), None)
        elif op == "del" and outcome == "ok:unit":
            for k in [k for k in self.d if k[0] == c["p"]]:
                del self.d[k]
        if op == "rm":
            exp = self.d.get((c["p"], c["f"]))
            want = "ok:bytes:" + exp if exp else "exn:ValueError"
            if outcome != want:
                bad.append("retrieve_metadata(%s,%s) returned %s, expected %s" % (c["p"], c["f"], outcome, want))
        if op == "dm" and outcome != "ok:unit":
            bad.append("delete_metadata returned %s" % outcome)
        _, _, _, am, _ = refs_of(after)
        have = {k: v for k, v in am.items()}
        want = {"%d.%d" % k: v for k, v in self.d.items()}
        if have != want:
            bad.append("metadata tree %s differs from reference %s" % (have, want))
        return bad
