"""fsmon — observation and control of the implementation by interposition (no source hooks).

Patches, inside the harness process only: os.path.isfile/exists/isdir/getsize, os.stat,
os.rename/replace/remove/unlink/mkdir/makedirs/listdir, pathlib.Path.mkdir, builtins.open / io.open,
fcntl.flock, shutil.move (bracket only) and hashstore.filehashstore.NamedTemporaryFile; and replaces a
store instance's locked-identifier lists by recording lists.

Every interposed operation produces an *event* (kind, path, extra) that is handed to
Monitor.hook BEFORE the operation takes effect.  The hook may
  * return None            -> the operation proceeds,
  * return an int (errno)  -> the operation raises OSError(errno) instead (fault injection),
  * call os._exit          -> crash emulation,
  * block                  -> controlled scheduling.
"""
import builtins
import errno as _errno
import fcntl
import io
import os
import pathlib
import shutil
import sys
import threading

_real = {}
_tls = threading.local()
MON = None  # the active Monitor, or None


def _depth():
    return getattr(_tls, "suppress", 0)


class _Suppress:
    def __enter__(self):
        _tls.suppress = _depth() + 1

    def __exit__(self, *a):
        _tls.suppress = _depth() - 1


class Monitor:
    def __init__(self, root):
        self.root = os.path.realpath(str(root))
        self.events = []
        self.hook = None
        self.lock = threading.Lock()
        self.fdpath = {}
        self.watch_src = True
        self.emulate_flock = False
        self.listdir_sort = None
        # True: an injected mkdir failure is raised by makedirs / Path.mkdir itself (as the model's MkDirs does) even when
        # the directory exists; False: it is raised by the innermost os.mkdir, where exist_ok=True swallows it
        self.mkdir_fault_direct = True

    def rel(self, path):
        try:
            p = os.fspath(path)
        except TypeError:
            return None
        if isinstance(p, bytes):
            p = os.fsdecode(p)
        p = os.path.abspath(p)
        if p == self.root:
            return ""
        if p.startswith(self.root + os.sep):
            return p[len(self.root) + 1:]
        return None

    def emit(self, kind, path, extra=None, outside_ok=False):
        """Returns an errno to inject, or None."""
        if _depth() > 0:
            return None
        if kind in ("probe", "stat") and getattr(_tls, "in_move", 0) > 0:
            return None
        r = self.rel(path) if path is not None else None
        if r is None and not outside_ok:
            return None
        ev = (kind, r if r is not None else "<outside>", extra)
        inj = None
        if self.hook is not None:
            inj = self.hook(ev)
        if kind != "rename" and getattr(_tls, "in_move", 0) > 0:
            # inside shutil.move's copy-and-unlink fall-back (the rename failed): part of the one Rename operation
            ev = ("mv:" + kind,) + ev[1:]
        with self.lock:
            self.events.append(ev + (threading.get_ident(), inj))
        return inj


def _emit(kind, path, extra=None, outside_ok=False):
    m = MON
    if m is None:
        return None
    return m.emit(kind, path, extra, outside_ok)


def _raise(inj, path):
    raise OSError(inj, os.strerror(inj), str(path))


# ---------------------------------------------------------------- probes

def _mk_probe(name):
    real = getattr(os.path, name)
    _real["path." + name] = real

    def f(path):
        fr = sys._getframe(1)
        _emit("probe", path, (name, fr.f_code.co_name, id(fr), fr.f_lineno))
        with _Suppress():
            return real(path)
    f.__name__ = name
    return f


def _getsize(path):
    _emit("size", path)
    with _Suppress():
        return _real["path.getsize"](path)


def _stat(path, *a, **k):
    if not isinstance(path, int):
        _emit("stat", path)
    return _real["os.stat"](path, *a, **k)


# ---------------------------------------------------------------- mutations

def _rename(src, dst, *a, **k):
    inj = _emit("rename", dst, _relsrc(src))
    if inj:
        _raise(inj, dst)
    return _real["os.rename"](src, dst, *a, **k)


def _replace(src, dst, *a, **k):
    inj = _emit("rename", dst, _relsrc(src))
    if inj:
        _raise(inj, dst)
    return _real["os.replace"](src, dst, *a, **k)


def _relsrc(src):
    m = MON
    return m.rel(src) if m is not None else None


def _remove(path, *a, **k):
    inj = _emit("remove", path)
    if inj:
        _raise(inj, path)
    return _real["os.remove"](path, *a, **k)


def _unlink(path, *a, **k):
    inj = _emit("remove", path)
    if inj:
        _raise(inj, path)
    return _real["os.unlink"](path, *a, **k)


def _mkdir(path, *a, **k):
    pend = getattr(_tls, "mkdir_fault", None)
    if pend:
        _tls.mkdir_fault = None
        _raise(pend, path)
    if _depth() == 0:
        inj = _emit("mkdirs", path)
        if inj:
            _raise(inj, path)
    return _real["os.mkdir"](path, *a, **k)


def _makedirs(name, *a, **k):
    inj = _emit("mkdirs", name)
    if inj:
        if MON is not None and MON.mkdir_fault_direct:
            _raise(inj, name)
        _tls.mkdir_fault = inj
    try:
        with _Suppress():
            return _real["os.makedirs"](name, *a, **k)
    finally:
        _tls.mkdir_fault = None


def _path_mkdir(self, *a, **k):
    inj = _emit("mkdirs", self)
    if inj:
        if MON is not None and MON.mkdir_fault_direct:
            _raise(inj, self)
        _tls.mkdir_fault = inj
    try:
        with _Suppress():
            return _real["Path.mkdir"](self, *a, **k)
    finally:
        _tls.mkdir_fault = None


def _listdir(path="."):
    if getattr(_tls, "in_gfp", 0) == 0:
        _emit("listdir", path)
    with _Suppress():
        r = _real["os.listdir"](path)
    m = MON
    if m is not None and getattr(m, "listdir_sort", None) is not None and m.rel(path) is not None:
        r = m.listdir_sort(m.rel(path), r)
    return r


def _move(src, dst, *a, **k):
    # bracket only: the probes shutil.move makes on its own account are not the store's
    _tls.in_move = getattr(_tls, "in_move", 0) + 1
    try:
        return _real["shutil.move"](src, dst, *a, **k)
    finally:
        _tls.in_move -= 1


# ---------------------------------------------------------------- files

class _FileProxy:
    """Wraps a file opened in 'a' or 'r+' mode: reports writes/truncate before they take effect
    and makes each of them reach the disk at once (so that a simulated crash sees them)."""

    def __init__(self, f, path, mode):
        self._f = f
        self._path = path
        self._mode = mode
        m = MON
        if m is not None:
            try:
                m.fdpath[f.fileno()] = path
            except Exception:
                pass

    def __enter__(self):
        return self

    def __exit__(self, *a):
        self.close()
        return False

    def close(self):
        if not self._f.closed:
            try:
                fd = self._f.fileno()
            except Exception:
                fd = None
            _emit("fclose", self._path)
            self._f.close()
            m = MON
            if m is not None and fd is not None:
                m.fdpath.pop(fd, None)

    def fileno(self):
        return self._f.fileno()

    def write(self, data):
        inj = _emit("append" if "a" in self._mode else "rewrite", self._path, data)
        if inj and "a" in self._mode:
            _raise(inj, self._path)
        r = self._f.write(data)
        self._f.flush()
        return r

    def writelines(self, lines):
        lines = list(lines)
        _emit("rewrite", self._path, "".join(lines))
        self._f.writelines(lines)
        self._f.flush()

    def truncate(self, *a):
        self._f.flush()
        _emit("truncate", self._path)
        return self._f.truncate(*a)

    def __iter__(self):
        return iter(self._f)

    def __getattr__(self, name):
        return getattr(self._f, name)


def _open(file, mode="r", *a, **k):
    if isinstance(file, int) or MON is None or _depth() > 0:
        return _real["open"](file, mode, *a, **k)
    m = MON
    r = m.rel(file)
    if r is None:
        if "r" in mode and "+" not in mode and m.watch_src:
            inj = _emit("opensrc", file, None, outside_ok=True)
            if inj:
                _raise(inj, file)
            if "b" in mode:
                return _SrcProxy(_real["open"](file, mode, *a, **k), file)
        return _real["open"](file, mode, *a, **k)
    if "+" in mode:
        kind = "openrw"
    elif "a" in mode:
        kind = "opena"
    elif "w" in mode or "x" in mode:
        kind = "openw"
    else:
        kind = "read"
    inj = _emit(kind, file, mode)
    if inj:
        _raise(inj, file)
    f = _real["open"](file, mode, *a, **k)
    if kind in ("openrw", "opena"):
        return _FileProxy(f, file, mode)
    if kind == "openw" and "b" in mode and os.sep + "tmp" + os.sep in os.path.abspath(os.fspath(file)) and r.split(os.sep)[0] in ("objects", "metadata"):
        return _ChunkProxy(f, file)      # a staging file written chunk by chunk without NamedTemporaryFile
    return f


class _SrcProxy:
    """The caller's data file, opened by the library for reading: every read is an event ("readsrc") that can carry an
    injected failure (a source on a network file system that fails in mid-transfer).  Not an operation of the model:
    the normaliser drops it; the fault search of C13 / C08 compares it with the failing write of the same buffer."""

    def __init__(self, f, path):
        object.__setattr__(self, "_f", f)
        object.__setattr__(self, "_path", path)

    def __enter__(self):
        return self

    def __exit__(self, *a):
        self._f.close()
        return False

    def __iter__(self):
        return iter(object.__getattribute__(self, "_f"))

    def read(self, *a):
        inj = _emit("readsrc", self._path, None, outside_ok=True)
        if inj:
            _raise(inj, self._path)
        return self._f.read(*a)

    def __getattr__(self, name):
        return getattr(object.__getattribute__(self, "_f"), name)


class _ChunkProxy:
    """A binary staging file opened by name: every write is an event and reaches the disk at once, so that an observer
    (or a concurrent writer of the same name) sees the prefix written so far."""

    def __init__(self, f, path):
        object.__setattr__(self, "_f", f)
        object.__setattr__(self, "_path", path)

    def __enter__(self):
        return self

    def __exit__(self, *a):
        self._f.close()
        return False

    def write(self, data):
        inj = _emit("write", self._path, len(data))
        if inj:
            _raise(inj, self._path)
        r = self._f.write(data)
        self._f.flush()
        return r

    def __getattr__(self, name):
        return getattr(object.__getattribute__(self, "_f"), name)


def _flock(fd, op):
    m = MON
    if m is not None:
        p = m.fdpath.get(fd if isinstance(fd, int) else fd.fileno())
        if p is not None:
            inj = _emit("flock", p)
            if inj:
                _raise(inj, p)
            if m.emulate_flock:
                return None          # the controlled scheduler owns file locks
    return _real["fcntl.flock"](fd, op)


def _get_file_paths(directory):
    # the model lists the metadata directory whether or not it exists: exactly one 'listdir' event per call,
    # emitted before the directory is looked at (so that under the controlled scheduler the existence test and the
    # listing are one step, as os.listdir on a missing directory would be)
    _emit("listdir", directory)
    _tls.in_gfp = getattr(_tls, "in_gfp", 0) + 1
    try:
        return _real["_get_file_paths"](directory)
    finally:
        _tls.in_gfp -= 1


class _TmpWrap:
    """Reports chunk writes to a NamedTemporaryFile."""

    def __init__(self, tmp):
        object.__setattr__(self, "_tmp", tmp)

    def __enter__(self):
        self._tmp.__enter__()
        return self

    def __exit__(self, *a):
        _emit("tclose", self._tmp.name)          # the buffered tail reaches the disk here
        return self._tmp.__exit__(*a)

    def close(self):
        _emit("tclose", self._tmp.name)
        return self._tmp.close()

    def write(self, data):
        inj = _emit("write", self._tmp.name, len(data))
        if inj:
            _raise(inj, self._tmp.name)
        return self._tmp.write(data)

    def __getattr__(self, name):
        return getattr(object.__getattribute__(self, "_tmp"), name)


def _named_tmp(*a, **k):
    d = k.get("dir")
    inj = _emit("mktmp", d)
    if inj:
        _raise(inj, d)
    with _Suppress():
        t = _real["NamedTemporaryFile"](*a, **k)
    m = MON
    if m is not None and m.rel(t.name) is not None:
        with m.lock:
            m.events.append(("tmpname", m.rel(t.name), None, threading.get_ident(), None))
    return _TmpWrap(t)


# ---------------------------------------------------------------- lock lists

class RecList(list):
    """A locked-identifier list that reports membership tests, appends and removals."""

    def __init__(self, cls, init=()):
        super().__init__(init)
        self.cls = cls

    def __contains__(self, x):
        r = list.__contains__(self, x)
        _emit("lcontains", None, (self.cls, x, r), outside_ok=True)
        return r

    def append(self, x):
        _emit("lappend", None, (self.cls, x), outside_ok=True)
        list.append(self, x)

    def remove(self, x):
        _emit("lremove", None, (self.cls, x), outside_ok=True)
        list.remove(self, x)


LOCK_ATTRS = {
    "op": "object_locked_pids",
    "ci": "object_locked_cids",
    "md": "metadata_locked_docs",
    "rp": "reference_locked_pids",
}


def instrument_store(hs, mode="th"):
    for cls, attr in LOCK_ATTRS.items():
        name = attr + "_" + mode
        cur = getattr(hs, name, None)
        setattr(hs, name, RecList(cls, list(cur) if cur is not None else ()))


def locked_lists(hs, mode="th"):
    return {cls: list(getattr(hs, attr + "_" + mode)) for cls, attr in LOCK_ATTRS.items()}


# ---------------------------------------------------------------- primitives the modelled code does not use

# File-system mutations through a primitive that FileHashStore does not call today (so the model has no operation for
# it).  They are interposed all the same: as an event of kind "foreign" such a call is a step of the controlled
# scheduler, a crash point, a fault site and an entry of the operation trace — where it matches nothing in the model.
FOREIGN = [("os", "rmdir"), ("os", "removedirs"), ("os", "link"), ("os", "symlink"), ("os", "truncate"), ("os", "renames"),
           ("os", "open"), ("os", "mkfifo"), ("os", "chown"), ("shutil", "rmtree"), ("shutil", "copyfile"), ("shutil", "copy"),
           ("shutil", "copy2"), ("shutil", "copytree"), ("shutil", "copyfileobj")]
_SECOND_ARG = {"link", "symlink", "renames", "copyfile", "copy", "copy2", "copytree"}     # the destination is the 2nd argument


def _mk_foreign(modname, name):
    mod = {"os": os, "shutil": shutil}[modname]
    real = getattr(mod, name)
    _real[modname + "." + name] = real

    def f(*a, **k):
        if MON is not None and _depth() == 0 and getattr(_tls, "in_move", 0) == 0 and getattr(_tls, "in_foreign", 0) == 0:
            target = None
            if name == "copyfileobj":
                target = getattr(a[1], "name", None) if len(a) > 1 else None
            elif name in _SECOND_ARG and len(a) > 1:
                target = a[1]
            elif a:
                target = a[0]
            if name == "open" and not (len(a) > 1 and isinstance(a[1], int) and a[1] & (os.O_WRONLY | os.O_RDWR | os.O_CREAT | os.O_TRUNC | os.O_APPEND)):
                target = None                      # a read-only os.open changes nothing
            if isinstance(target, (str, bytes, os.PathLike)):
                inj = _emit("foreign", target, modname + "." + name)
                if inj:
                    _raise(inj, target)
        _tls.in_foreign = getattr(_tls, "in_foreign", 0) + 1
        try:
            return real(*a, **k)
        finally:
            _tls.in_foreign -= 1
    f.__name__ = name
    f.__wrapped__ = real
    return f


# ---------------------------------------------------------------- install

_installed = False


def install():
    """Install the patches (idempotent).  They are inert while MON is None."""
    global _installed
    if _installed:
        return
    import hashstore.filehashstore as fhs
    _real["os.stat"] = os.stat
    _real["os.rename"] = os.rename
    _real["os.replace"] = os.replace
    _real["os.remove"] = os.remove
    _real["os.unlink"] = os.unlink
    _real["os.mkdir"] = os.mkdir
    _real["os.makedirs"] = os.makedirs
    _real["os.listdir"] = os.listdir
    _real["Path.mkdir"] = pathlib.Path.mkdir
    _real["open"] = builtins.open
    _real["fcntl.flock"] = fcntl.flock
    _real["shutil.move"] = shutil.move
    _real["path.getsize"] = os.path.getsize
    _real["NamedTemporaryFile"] = fhs.NamedTemporaryFile
    _real["_get_file_paths"] = fhs.FileHashStore._get_file_paths
    fhs.FileHashStore._get_file_paths = staticmethod(_get_file_paths)
    for n in ("isfile", "exists", "isdir"):
        setattr(os.path, n, _mk_probe(n))
    os.path.getsize = _getsize
    os.stat = _stat
    os.rename = _rename
    os.replace = _replace
    os.remove = _remove
    os.unlink = _unlink
    os.mkdir = _mkdir
    os.makedirs = _makedirs
    os.listdir = _listdir
    pathlib.Path.mkdir = _path_mkdir
    builtins.open = _open
    io.open = _open
    fcntl.flock = _flock
    shutil.move = _move
    fhs.NamedTemporaryFile = _named_tmp
    for modname, name in FOREIGN:
        mod = {"os": os, "shutil": shutil}[modname]
        if hasattr(mod, name):
            setattr(mod, name, _mk_foreign(modname, name))
    _installed = True


class watching:
    """with watching(root) as mon: ... — events of API calls made inside are recorded."""

    def __init__(self, root, hook=None, listdir_sort=None):
        self.mon = Monitor(root)
        self.mon.hook = hook
        self.mon.listdir_sort = listdir_sort

    def __enter__(self):
        global MON
        install()
        MON = self.mon
        return self.mon

    def __exit__(self, *a):
        global MON
        MON = None
        return False


def real_open(*a, **k):
    return _real.get("open", builtins.open)(*a, **k)
