"""universe — the mapping between the model's tokens and real strings / bytes / paths, the
implementation runner for token-level calls, and the disk -> abstract-state extractor.

Everything that touches the implementation imports it from /repo/src (current working tree).
"""
import hashlib
import io
import os
import shutil
import sys
import tempfile
from pathlib import Path

REPO = os.environ.get("HS_REPO", "/repo")
sys.path.insert(0, os.path.join(REPO, "src"))

import logging  # noqa: E402

logging.disable(logging.CRITICAL)

HASHLIB = {"MD5": "md5", "SHA-1": "sha1", "SHA-256": "sha256", "SHA-384": "sha384", "SHA-512": "sha512"}
DEFAULT_NS = "https://ns.dataone.org/service/types/v2.0#SystemMetadata"

MODEL_EXNS = {
    "ValueError", "TypeError", "KeyError", "RuntimeError", "FileNotFoundError", "FileExistsError",
    "OSError", "AttributeError", "AssertionError", "Exception", "UnsupportedAlgorithm",
    "NonMatchingObjSize", "NonMatchingChecksum", "HashStoreRefsAlreadyExists",
    "PidRefsAlreadyExistsError", "PidRefsDoesNotExist", "OrphanPidRefsFileFound",
    "RefsFileExistsButCidObjMissing", "PidNotFoundInCidRefsFile",
    "StoreObjectForPidAlreadyInProgress", "IdentifierNotLocked", "PidRefsFileNotFound",
    "CidRefsFileNotFound", "PidRefsContentError", "CidRefsContentError",
}


def exn_name(e):
    n = type(e).__name__
    if n in MODEL_EXNS:
        return n
    if isinstance(e, OSError):
        return "OSError"
    return n


def scratch_root():
    base = os.environ.get("HSVERIF_SCRATCH")          # set by ./check: one directory per run, removed whole when the run ends
    if not (base and os.path.isdir(base)):
        base = "/dev/shm" if os.path.isdir("/dev/shm") and os.access("/dev/shm", os.W_OK) else None
    return tempfile.mkdtemp(prefix="hsverif-", dir=base)


_BUF = {}


def impl_buffer_size(kind="file"):
    """The read size the implementation's Stream asks for: file-backed data (kind "file") / an in-memory stream ("mem").
    Measured on the live code rather than assumed: the model is parametric in it (contents are counted in buffers, the
    chunking theorems hold for every buffer size > 0), so a change of the buffer alone moves nothing."""
    if kind in _BUF:
        return _BUF[kind]
    import io
    default = os.stat(tempfile.gettempdir()).st_blksize if kind == "file" else 8192
    got = None
    base = tempfile.mkdtemp(prefix="hsverif-buf-")
    try:
        import hashstore.filehashstore as fhs
        asked = []

        class Rec(io.BufferedReader):
            def read(self, n=-1):
                asked.append(n)
                return super().read(n)
        path = os.path.join(base, "probe")
        with open(path, "wb") as fh:
            fh.write(b"x" * 16)
        raw = io.FileIO(path, "r") if kind == "file" else io.BytesIO(b"x" * 16)
        st = fhs.Stream(Rec(raw))
        for _ in st:
            break
        if asked and isinstance(asked[0], int) and asked[0] > 0:
            got = asked[0]
    except Exception:  # noqa: BLE001
        got = None
    finally:
        import shutil
        shutil.rmtree(base, ignore_errors=True)
    _BUF[kind] = got or default
    return _BUF[kind]


class Universe:
    """Token tables for one store configuration."""

    def __init__(self, depth=3, width=2, algorithm="SHA-256", ns=DEFAULT_NS, pids=None, fmts=None,
                 blksize=None):
        self.depth, self.width, self.algorithm, self.ns = depth, width, algorithm, ns
        self.halg = HASHLIB[algorithm]
        self.pids = pids or {}          # token -> string
        self.fmts = fmts or {}          # token -> string   (token 0 = default namespace)
        self.fmts.setdefault(0, ns)
        self.blksize = blksize or impl_buffer_size("file")
        self._content = {}              # (b, n) -> bytes
        self._nchunks = {}              # b -> n  (one chunk count per content id)
        self._rebuild()

    # -- strings
    def pid(self, p):
        return self.pids.get(p, "pid-%d" % p)

    def fmt(self, f):
        return self.fmts.get(f, "fmt-%d" % f)

    def H(self, s):
        return hashlib.new(self.halg, s.encode("utf-8")).hexdigest()

    # -- contents: content id b with n chunks. id 0 is reserved for the empty content.
    def content(self, b, n):
        key = (b, n)
        if key not in self._content:
            if n == 0:
                data = b""
            else:
                seed = ("content-%d-%d|" % (b, n)).encode()
                size = (n - 1) * self.blksize + 64 + (b % 7)
                data = (seed * (size // len(seed) + 1))[:size]
            self._content[key] = data
            self._nchunks.setdefault(b, n)
            self._rebuild()
        return self._content[key]

    def cid_hex(self, c):
        """cid token -> hex string: the digest of the content with that id if one is known, else
        a never-stored cid."""
        for (b, n), data in self._content.items():
            if b == c:
                return hashlib.new(self.halg, data).hexdigest()
        return hashlib.new(self.halg, ("never-stored-%d" % c).encode()).hexdigest()

    def _rebuild(self):
        self.by_cid = dict(getattr(self, "_noted", {}))      # never-stored cids survive the registration of new contents
        self.by_bytes = {}
        for (b, n), data in self._content.items():
            self.by_cid[hashlib.new(self.halg, data).hexdigest()] = b
            self.by_bytes[data] = (b, n)

    def note_cid(self, c):
        h = self.cid_hex(c)
        if h not in self.by_cid:
            self.__dict__.setdefault("_noted", {})[h] = c
            self.by_cid[h] = c

    # -- inverse maps used by the extractor
    def pid_tokens(self, known):
        return {self.H(self.pid(p)): p for p in known}

    def doc_tokens(self, known_pids, known_fmts):
        return {self.H(self.pid(p) + self.fmt(f)): (p, f) for p in known_pids for f in known_fmts}

    def doc_tokens2(self, known_pids, known_fmts):
        """keyed by (directory hash, document name): concatenation-colliding pairs stay distinct"""
        return {(self.H(self.pid(p)), self.H(self.pid(p) + self.fmt(f))): (p, f)
                for p in known_pids for f in known_fmts}

    def props(self, root):
        return {"store_path": str(root), "store_depth": self.depth, "store_width": self.width,
                "store_algorithm": self.algorithm, "store_metadata_namespace": self.ns}


def show_content_bytes(u, data):
    """bytes -> the model's content syntax (D<b>.<n>.<i>), or D?<len> when unknown."""
    if data == b"":
        return "D0.0.0"
    hit = u.by_bytes.get(data)
    if hit is not None:
        b, n = hit
        return "D%d.%d.%d" % (b, n, n)
    # a prefix made of whole chunks of a known content
    for full, (b, n) in u.by_bytes.items():
        if len(data) < len(full) and full.startswith(data) and len(data) % u.blksize == 0:
            return "D%d.%d.%d" % (b, n, len(data) // u.blksize)
    return "D?%d" % len(data)


def strip_delete(name):
    k = 0
    while name.endswith("_delete"):
        name = name[: -len("_delete")]
        k += 1
    return name, k


class Abstractor:
    """Maps paths under a store root to model addresses and a directory tree to an abstract state."""

    def __init__(self, u, root, pids, fmts):
        self.u, self.root = u, str(root)
        self.pidtok = u.pid_tokens(pids)
        self.doctok = u.doc_tokens(pids, fmts)
        self.doctok2 = u.doc_tokens2(pids, fmts)

    def addr(self, rel):
        """relative path (file) -> model address string, or '?<rel>' if it is not the image of one."""
        parts = rel.split(os.sep)
        u = self.u
        if len(parts) >= 2 and parts[1] == "tmp" and parts[0] in ("objects", "metadata", "refs"):
            return "T" + {"objects": "o", "metadata": "m", "refs": "r"}[parts[0]] + ":" + "/".join(parts[2:])
        if parts[0] == "objects":
            name, k = strip_delete("".join(parts[1:]))
            c = u.by_cid.get(name)
            return "X" * k + ("O%d" % c if c is not None else "O?" + name[:8])
        if parts[0] == "refs" and len(parts) > 2 and parts[1] == "pids":
            name, k = strip_delete("".join(parts[2:]))
            p = self.pidtok.get(name)
            return "X" * k + ("P%d" % p if p is not None else "P?" + name[:8])
        if parts[0] == "refs" and len(parts) > 2 and parts[1] == "cids":
            name, k = strip_delete("".join(parts[2:]))
            c = u.by_cid.get(name)
            return "X" * k + ("R%d" % c if c is not None else "R?" + name[:8])
        if parts[0] == "metadata" and len(parts) > 2:
            d = "".join(parts[1:-1])
            name, k = strip_delete(parts[-1])
            pf = self.doctok2.get((d, name))
            if pf is not None:
                return "X" * k + "M%d.%d" % pf
            return "X" * k + "M?" + d[:6] + "/" + name[:6]
        return "?" + rel

    def classify(self, rel):
        """-> 'file' (a permanent file address), 'tmp' (a temp file), 'dir', or 'other'"""
        parts = rel.split(os.sep)
        d = self.u.depth
        if len(parts) >= 2 and parts[1] == "tmp" and parts[0] in ("objects", "metadata", "refs"):
            return "tmp" if len(parts) == 3 else "dir"
        if parts[0] == "objects":
            return "file" if len(parts) == d + 2 else ("dir" if len(parts) < d + 2 and len(parts) != 2 or len(parts) == 1 else "other")
        if parts[0] == "refs" and len(parts) > 1 and parts[1] in ("pids", "cids"):
            return "file" if len(parts) == d + 3 else "dir"
        if parts[0] == "metadata":
            return "file" if len(parts) == d + 3 else "dir"
        return "dir" if rel == "" or parts[0] == "refs" else "other"

    def dir_area(self, rel):
        parts = rel.split(os.sep)
        if parts[0] == "objects":
            return "O"
        if parts[0] == "metadata":
            return "M"
        if parts[0] == "refs" and len(parts) > 1:
            return {"pids": "P", "cids": "R"}.get(parts[1], "r")
        return "?"

    def content(self, a, data):
        u = self.u
        k = a.lstrip("X")
        if k.startswith("P"):
            s = data.decode("utf-8", "replace")
            c = u.by_cid.get(s)
            return "C%d" % c if c is not None else "C?" + s[:8]
        if k.startswith("R"):
            s = data.decode("utf-8", "replace")
            if s == "":
                return "L"
            inv = {u.pid(p): p for p in self.pidtok.values()}
            toks = []
            for line in s.split("\n")[:-1] if s.endswith("\n") else s.split("\n"):
                t = inv.get(line)
                toks.append(str(t) if t is not None else "?" + line[:8])
            return "L" + ",".join(toks)
        if k.startswith("T"):
            if data == b"":
                return "E"
        return show_content_bytes(u, data)

    def state(self, include_tmp=True):
        """dict address -> content over all files under the root (hashstore.yaml excluded)."""
        st = {}
        tmpn = {"o": 0, "m": 0, "r": 0}
        for dp, dn, fn in os.walk(self.root):
            dn.sort()
            for f in sorted(fn):
                full = os.path.join(dp, f)
                rel = os.path.relpath(full, self.root)
                if rel in ("hashstore.yaml", "python_client.log"):
                    continue
                a = self.addr(rel)
                with open(full, "rb") as fh:
                    data = fh.read()
                if a.startswith("T"):
                    if not include_tmp:
                        continue
                    ar = a[1]
                    a = "T%s0.%d" % (ar, tmpn[ar])
                    tmpn[ar] += 1
                st[a] = self.content(a, data)
        return st


def parse_world(s):
    """'{O7=D7.1.1 P1=C7}[op:1]' -> (dict, list of locks)"""
    s = s.strip()
    assert s.startswith("{"), s
    body, rest = s[1:].split("}", 1)
    st = {}
    for item in body.split():
        k, v = item.split("=", 1)
        st[k] = v
    locks = rest.strip()[1:-1].split()
    return st, locks


class Impl:
    """One store instance in a scratch directory, driven with token-level calls."""

    def __init__(self, u, pids, fmts, root=None, instrument=None):
        from hashstore.filehashstore import FileHashStore, ObjectMetadata
        self.u = u
        self.base = scratch_root() if root is None else None
        self.root = os.path.join(self.base, "store") if root is None else root
        self.src = os.path.join(self.base or os.path.dirname(self.root), "src")
        os.makedirs(self.src, exist_ok=True)
        self.hs = FileHashStore(u.props(self.root))
        self.ObjectMetadata = ObjectMetadata
        self.pids, self.fmts = list(pids), list(fmts)
        self.abs = Abstractor(u, self.root, self.pids, self.fmts)
        self.open_streams = []

    def close(self):
        for s in self.open_streams:
            try:
                s.close()
            except Exception:
                pass
        if self.base:
            shutil.rmtree(self.base, ignore_errors=True)

    def srcfile(self, tag, data):
        p = os.path.join(self.src, tag)
        if not os.path.exists(p):
            with open(p, "wb") as f:
                f.write(data)
        return p

    def refresh(self):
        self.abs = Abstractor(self.u, self.root, self.pids, self.fmts)

    # ---- real-level arguments for a token-level call
    def data_arg(self, s, tag, data):
        if s == "m":
            return os.path.join(self.src, "missing-" + tag)
        path = self.srcfile(tag, data)
        if s == "s":
            f = open(path, "rb")
            self.open_streams.append(f)
            return f
        return path

    def checksum_args(self, ck, data, real):
        """real: optional dict with 'algo' (name as passed), 'case' ('lower'|'upper')."""
        if ck == "n":
            return None, None
        algo = (real or {}).get("algo", "SHA-256")
        from_name = algo.lower().replace("-", "").replace("_", "") if sum(ch.isdigit() for ch in algo) <= 3 \
            else algo.lower().replace("-", "_")
        d = hashlib.new(from_name, data).hexdigest()
        if ck == "b":
            how = (real or {}).get("bad", "flip")
            if how == "nonascii":
                d = "\uff11" + d[1:]                  # a full-width digit: not a hex digest, compares unequal
            elif how == "short":
                d = d[:-2]                            # a truncated digest
            elif how == "accent":
                d = d[:-1] + "\u00e9"
            else:
                d = ("0" if d[0] != "0" else "1") + d[1:]
        if ck == "x":
            # a wrong checksum that is the true digest of ANOTHER content (a client mixing up two files)
            other = (real or {}).get("other_data") or (data + b"?")
            d = hashlib.new(from_name, other).hexdigest()
        if (real or {}).get("case") == "upper":
            d = d.upper()
        return d, algo

    def gcall(self, c, timeout=15.0):
        """call(c) under a watchdog: 'exn:HANG' when it does not return (the thread is abandoned)"""
        import threading
        box = []
        t = threading.Thread(target=lambda: box.append(self.call(c)), daemon=True)
        t.start()
        t.join(timeout)
        return box[0] if box else "exn:HANG"

    def call(self, c):
        """c: dict {'op':..., tokens..., 'real': {...}} -> result string in the model's syntax."""
        u, hs = self.u, self.hs
        op = c["op"]
        try:
            if op == "so":
                b, n = c["b"], c["n"]
                data = u.content(b, n)
                arg = self.data_arg(c.get("s", "p"), "obj-%d-%d" % (b, n), data)
                size = {"n": None, "o": len(data), "b": len(data) + 1}[c.get("sz", "n")]
                chk, alg = self.checksum_args(c.get("ck", "n"), data, c.get("real"))
                add = (c.get("real") or {}).get("add")
                pid = None if c["p"] is None else u.pid(c["p"])
                m = hs.store_object(pid, arg, add, chk, alg, size)
                c["_meta"] = m
                return "ok:" + self.show_meta(m)
            if op == "tag":
                u.note_cid(c["c"])
                hs.tag_object(u.pid(c["p"]), u.cid_hex(c["c"]))
                return "ok:unit"
            if op == "del":
                hs.delete_object(u.pid(c["p"]))
                return "ok:unit"
            if op == "dii":
                cid = u.cid_hex(c["c"])
                n = u._nchunks.get(c["c"], 1)
                data = u.content(c["c"], n)
                real = dict(c.get("real") or {})
                if "algo" not in real:
                    real["algo"] = "SHA-256" if c["pre"] else "sha3_256"
                digests = {a: hashlib.new(a, data).hexdigest() for a in ("md5", "sha1", "sha256", "sha384", "sha512")}
                om = self.ObjectMetadata(None, cid, len(data), digests)
                chk, alg = self.checksum_args("o" if c["ok"] else ("x" if real.get("other_data") else "b"), data, real)
                size = {"n": None, "o": len(data), "b": len(data) + 1}[c.get("sz", "n")]
                hs.delete_if_invalid_object(om, chk, alg, size)
                return "ok:unit"
            if op == "sm":
                data = b"" if c["n"] == 0 else u.content(1000 + c["v"], c["n"])
                arg = self.data_arg(c.get("s", "p"), "meta-%d-%d" % (c["v"], c["n"]), data)
                fmt = None if c.get("fnone") else u.fmt(c["f"])
                r = hs.store_metadata(u.pid(c["p"]), arg, fmt)
                rel = os.path.relpath(str(r), self.root)
                return "ok:path:" + self.abs.addr(rel)
            if op == "rm":
                fmt = None if c.get("fnone") else u.fmt(c["f"])
                s = hs.retrieve_metadata(u.pid(c["p"]), fmt)
                try:
                    data = s.read()
                finally:
                    s.close()
                return "ok:bytes:" + self.show_meta_bytes(data)
            if op == "dm":
                fmt = None if c["f"] is None else u.fmt(c["f"])
                hs.delete_metadata(u.pid(c["p"]), fmt)
                return "ok:unit"
            if op == "ro":
                s = hs.retrieve_object(u.pid(c["p"]))
                try:
                    data = s.read()
                finally:
                    s.close()
                return "ok:bytes:" + show_content_bytes(u, data)
            if op == "gh":
                algo = (c.get("real") or {}).get("algo", "SHA-256")
                d = hs.get_hex_digest(u.pid(c["p"]), algo)
                return "ok:bytes:" + self.show_digest(d, algo)
            if op == "raw":
                return c["fn"](self)
            raise AssertionError("unknown op " + op)
        except Exception as e:  # noqa: BLE001 - the class is the observable
            return "exn:" + exn_name(e)

    def show_meta(self, m):
        u = self.u
        b = u.by_cid.get(m.cid)
        n = None
        if b is not None:
            for (bb, nn), data in u._content.items():
                if bb == b and len(data) == m.obj_size:
                    n = nn
        return "meta:%s:%s" % (b if b is not None else "?" + m.cid[:8], n if n is not None else "?%d" % m.obj_size)

    def show_meta_bytes(self, data):
        s = show_content_bytes(self.u, data)
        if s.startswith("D") and not s.startswith("D?"):
            b, n, i = s[1:].split(".")
            if int(b) >= 1000:
                return "D%d.%s.%s" % (int(b) - 1000, n, i)
            if int(b) == 0 and n == "0":
                return "D0.0.0"
        return s

    def show_digest(self, d, algo):
        from_name = algo.lower().replace("-", "").replace("_", "") if sum(ch.isdigit() for ch in algo) <= 3 \
            else algo.lower().replace("-", "_")
        for (b, n), data in self.u._content.items():
            if hashlib.new(from_name, data).hexdigest() == d:
                return "D%d.%d.%d" % (b, n, n)
        return "D?hex"

    def state(self, include_tmp=True):
        self.refresh()
        st = self.abs.state(include_tmp)
        out = {}
        for k, v in st.items():
            if k.lstrip("X").startswith("M") and v.startswith("D") and not v.startswith("D?"):
                b, n, i = v[1:].split(".")
                if int(b) >= 1000:
                    v = "D%d.%s.%s" % (int(b) - 1000, n, i)
            out[k] = v
        return out


def token_line(c):
    """token-level call dict -> the model's call syntax."""
    op = c["op"]
    if op == "so":
        return "so %s %s %d %d %s %s" % ("-" if c["p"] is None else c["p"], c.get("s", "p"), c["b"], c["n"],
                                         c.get("sz", "n") if c["p"] is not None else "n",
                                         (c.get("ck", "n") if c["p"] is not None else "n").replace("x", "b"))
    if op == "tag":
        return "tag %d %d" % (c["p"], c["c"])
    if op == "del":
        return "del %d" % c["p"]
    if op == "dii":
        return "dii %d %s %d %d" % (c["c"], c.get("sz", "n"), 1 if c["pre"] else 0, 1 if c["ok"] else 0)
    if op == "sm":
        return "sm %d %d %s %d %d" % (c["p"], c["f"], c.get("s", "p"), c["v"], c["n"])
    if op == "rm":
        return "rm %d %d" % (c["p"], c["f"])
    if op == "dm":
        return "dm %d %s" % (c["p"], "-" if c["f"] is None else c["f"])
    if op == "ro":
        return "ro %d" % c["p"]
    if op == "gh":
        return "gh %d" % c["p"]
    if op == "rej":
        return "rej %s" % c["e"]
    raise AssertionError(op)


def history_line(cmd, h):
    return cmd + " | " + " ; ".join(token_line(c) for c in h)
