"""checks_a — checks whose theorems live in the layer-A (pure) files: C15 layout, C18 identifiers,
C02 algorithms, C17 argument rejection, C14 configuration, C01 streams, C20 client.
Each function runs (1) the correspondence projections between the extracted layer-A functions
(modelrun 'A ...' commands) and the implementation in /repo/src, and (2) an implementation-side
search whose oracle is written from the property text and does not use the model."""
import hashlib
import io
import json
import os
import random
import shutil
import sys
import tempfile
from pathlib import Path

import model
from universe import REPO, scratch_root, exn_name, DEFAULT_NS

ALGOS = {"MD5": "md5", "SHA-1": "sha1", "SHA-256": "sha256", "SHA-384": "sha384", "SHA-512": "sha512"}


def hx(s):
    """str -> hex0 of its UTF-8 bytes (the layer-A front end is byte-level)"""
    b = s.encode("utf-8") if isinstance(s, str) else s
    return b.hex() if b else "-"


def cps(s):
    return ",".join(str(ord(ch)) for ch in s) if s else "-"


def uncps(s):
    return "" if s == "-" else "".join(chr(int(x)) for x in s.split(","))


def layerA(lines):
    return model.run_lines(["A " + ln for ln in lines])


def fhs():
    import hashstore.filehashstore as m
    return m


def new_store(base, depth=3, width=2, algo="SHA-256", ns=DEFAULT_NS, name="store"):
    root = os.path.join(base, name)
    props = {"store_path": root, "store_depth": depth, "store_width": width,
             "store_algorithm": algo, "store_metadata_namespace": ns}
    return fhs().FileHashStore(props), root


def tree(root, with_dirs=False, mtime=False):
    """relative path -> bytes (files); with_dirs: directories map to None"""
    out = {}
    for dp, dn, fn in os.walk(root):
        dn.sort()
        rel = os.path.relpath(dp, root)
        if with_dirs and rel != ".":
            out[rel + "/"] = None
        for f in fn:
            p = os.path.join(dp, f)
            r = os.path.relpath(p, root)
            with open(p, "rb") as fh:
                data = fh.read()
            out[r] = (data, os.stat(p).st_mtime_ns) if mtime else data
    return out


def readme_shard(d, w, h):
    """independent implementation of the README layout: depth tokens of width characters, then the remainder"""
    toks = []
    pos = 0
    for _ in range(d):
        toks.append(h[pos:pos + w])
        pos += w
    toks.append(h[pos:])
    return [t for t in toks if t != ""]


ADVERSARIAL = [
    "doi:10.5063/F1.obj.7", "obj.7", "doi:10.5063/F1", "OBJ.7", "Obj.7", "../../etc/passwd", "..", ".", "./x", "/abs/path",
    "-rf", "--help", ".hidden", "a/b/c", "a\\b", "*", "?", "[a-z]*", "$(touch${IFS}pwned)", "`id`", ";rm", "a|b", "a&b", "%s%n",
    "jtao.1700.1", "urn:uuid:1b35d0a5-b17a-423b-a2ed-de2b18dc367a", "été", "été", "über", "\U0001F600", "\U00010348x",
    "café", "café", "中文", "a" * 4000, "ab" * 1500 + "c", "x" * 255, "y" * 256, "pid", "pid1", "1pid", "PID", "p", "pi",
    "null", "None", "tmp", "objects", "refs/pids", "hashstore.yaml", "_delete", "a_delete", "con", "nul", "​", "a​b", "﻿bom", "a\x00b"[:1] + "b",
    "\x7f", "\x01\x02", "~", "~root", "a'b", 'a"b', "a<b>", "{}", "#", "a=b", "a,b", "a:b;c",
]
# pairs of DIFFERENT identifiers that Unicode normalisation (of the string or of single characters) would identify
EQUIVALENT_PAIRS = [("\u212b", "\u00c5"), ("x\u212a", "xK"), ("\u2126m", "\u03a9m"), ("e\u0301", "\u00e9"), ("\u1fbe", "\u03b9"), ("\ufb01", "fi"),
                    ("\uff21", "A"), ("\u00b5", "\u03bc"), ("\u0340", "\u0300"),
                    ("\u4e2d" * 2100 + "A", "\u4e2d" * 2100 + "B"), ("\U0001F600" * 1100 + "x", "\U0001F600" * 1100 + "y"), ("\u00e9" * 5000, "\u00e9" * 5001)]


def adversarial_ids(rng, n):
    out = list(ADVERSARIAL)
    # prefix / suffix / case variants of random bases
    for _ in range(n):
        base = rng.choice(ADVERSARIAL[:30]) + str(rng.randint(0, 99))
        out += [base, base[:-1], base[1:], base.upper(), base.lower(), base + base[-1]]
    out = [s for s in dict.fromkeys(out) if s and not any(ch.isspace() for ch in s)]       # distinct identifiers
    return out


# ====================================================================== C15

def layout_script(hs, u_pids, data1, data2, doc1, doc2, fmt2, base, H):
    """store two pids on one content, a third on another; two metadata documents for pid 0"""
    f1 = os.path.join(base, "d1")
    f2 = os.path.join(base, "d2")
    m1 = os.path.join(base, "m1")
    m2 = os.path.join(base, "m2")
    for p, d in ((f1, data1), (f2, data2), (m1, doc1), (m2, doc2)):
        with open(p, "wb") as fh:
            fh.write(d)
    hs.store_object(u_pids[0], f1)
    hs.store_object(u_pids[1], f1)
    hs.store_object(u_pids[2], f2)
    hs.store_metadata(u_pids[0], m1)
    hs.store_metadata(u_pids[0], m2, fmt2)
    hs.store_metadata(u_pids[2], m2, fmt2)
    # a removal from the middle of a cid list followed by an append: the list must stay one pid per
    # newline-terminated line (u_pids[3] joins content 1, u_pids[1] leaves and is tagged again)
    hs.store_object(u_pids[3], f1)
    hs.delete_object(u_pids[1])
    hs.tag_object(u_pids[1], H(data1))


def expected_layout(shard, H, pids, data1, data2, doc1, doc2, ns, fmt2):
    """the README tree, parameterised by the sharding function [shard : hex -> list of tokens]"""
    def path(*parts):
        return "/".join(parts)
    c1, c2 = H(data1), H(data2)
    exp = {}
    exp[path("objects", *shard(c1))] = data1
    exp[path("objects", *shard(c2))] = data2
    exp[path("refs", "cids", *shard(c1))] = (pids[0] + "\n" + pids[3] + "\n" + pids[1] + "\n").encode("utf-8")
    exp[path("refs", "cids", *shard(c2))] = (pids[2] + "\n").encode("utf-8")
    for p, c in ((pids[0], c1), (pids[1], c1), (pids[2], c2), (pids[3], c1)):
        exp[path("refs", "pids", *shard(H(p.encode("utf-8"))))] = c.encode("utf-8")
    exp[path("metadata", *shard(H(pids[0].encode("utf-8"))), H((pids[0] + ns).encode("utf-8")))] = doc1
    exp[path("metadata", *shard(H(pids[0].encode("utf-8"))), H((pids[0] + fmt2).encode("utf-8")))] = doc2
    exp[path("metadata", *shard(H(pids[2].encode("utf-8"))), H((pids[2] + fmt2).encode("utf-8")))] = doc2
    return exp


def c15(run):
    rng = random.Random(run.seed)
    quick = run.tier == "quick"
    import yaml
    grid = [(d, w, a) for d in range(1, 7) for w in range(1, 5) for a in ALGOS]
    rng.shuffle(grid)
    # always include the default configuration and the extremes
    must = [(3, 2, "SHA-256"), (1, 1, "MD5"), (6, 4, "MD5"), (6, 4, "SHA-512"), (1, 4, "SHA-1"), (6, 1, "SHA-384")]
    configs = must + [g for g in grid if g not in must][: (18 if quick else len(grid))]
    ids = adversarial_ids(rng, 4)
    base = scratch_root()
    try:
        # ---- P-shard: _shard of the live class vs the model, incl. strings outside the documented range
        hs0, _ = new_store(base, name="shardstore")
        cases = []
        for d, w, a in configs:
            L = hashlib.new(ALGOS[a]).digest_size * 2
            for n in sorted({0, 1, w, d * w - 1, d * w, d * w + 1, L - 1, L, L + 3, rng.randint(0, L)}):
                if n < 0:
                    continue
                s = "".join(rng.choice("0123456789abcdef") for _ in range(n))
                cases.append((d, w, s))
            cases.append((d, w, "".join(rng.choice("xyz-_./ABC") for _ in range(rng.randint(1, 3 * d * w)))))
        lines = ["shard %d %d %s" % (d, w, hx(s)) for d, w, s in cases]
        got_m = layerA(lines)
        for (d, w, s), gm in zip(cases, got_m):
            hs0.depth, hs0.width = d, w
            gi = "/".join(hs0._shard(s))
            run.case("P-shard", (d, w, s), nontrivial=len(s) > 0,
                     sample={"projection": "P-shard", "depth": d, "width": w, "string": s[:40], "impl": gi[:60]})
            if gm != gi:
                run.disagree("P-shard", {"depth": d, "width": w, "string": s}, gm, gi, ["C15_shard_eq_spec", "C15_shard_compact_spec_all"])
            ro = "/".join(readme_shard(d, w, s))
            if d * w < len(s) and gi != ro:
                run.violation({"kind": "shard", "depth": d, "width": w}, "_shard(%r) with depth=%d width=%d gives %s, README layout is %s" % (s[:20], d, w, gi[:50], ro[:50]),
                              {"depth": d, "width": w, "string": s})
        # ---- P-layout: a fixed script per configuration; the whole tree against the README layout
        for k, (d, w, a) in enumerate(configs):
            H = lambda b, a=a: hashlib.new(ALGOS[a], b).hexdigest()
            pids = rng.sample(ids, 4)
            if k % 3 == 0:
                pids[2] = os.path.join(base, "c%d" % k, "d1")      # an identifier that names an existing file: still an opaque string
            ns = rng.choice([DEFAULT_NS, "http://ns.example/v1", "ns", "urn:local\\types\\nceas-sysmeta-v1", 'q"uote: #x', "2.0"])      # incl. values a naive YAML writer mangles
            fmt2 = rng.choice(["http://www.w3.org/ns/prov#", "fmt", pids[1], "a b"])
            data1 = os.urandom(rng.choice([0, 1, 100, 5000]))
            data2 = data1 + b"x"
            doc1, doc2 = b"<sysmeta/>" * rng.randint(0, 3), os.urandom(rng.randint(1, 300))
            sub = os.path.join(base, "c%d" % k)
            os.makedirs(sub)
            hs, root = new_store(sub, d, w, a, ns)
            decoys = []
            if k % 4 == 1:
                # files in the WORKING DIRECTORY named like the content's digest (plain and sharded): where an object lives does not depend on them
                for dn in (H(data2), os.path.join(*readme_shard(d, w, H(data2)))):
                    dp_ = os.path.join(os.getcwd(), dn)
                    os.makedirs(os.path.dirname(dp_), exist_ok=True)
                    with open(dp_, "wb") as fh:
                        fh.write(data2)
                    decoys.append(dn.split(os.sep)[0])
            try:
                layout_script(hs, pids, data1, data2, doc1, doc2, fmt2, sub, H)
            except Exception as e:  # noqa: BLE001 - the fixed script consists of calls that must succeed
                run.violation({"kind": "layout-script", "exn": exn_name(e)},
                              "the layout script (store x3, store_metadata x3, store, delete_object, tag_object on fresh identifiers) raised %s for depth=%d width=%d %s" % (exn_name(e), d, w, a),
                              {"depth": d, "width": w, "algorithm": a, "pids": pids, "ns": ns, "fmt2": fmt2, "exception": repr(e)[:300]})
                shutil.rmtree(sub, ignore_errors=True)
                continue
            for dn in decoys:
                dp_ = os.path.join(os.getcwd(), dn)
                shutil.rmtree(dp_, ignore_errors=True) if os.path.isdir(dp_) else (os.path.exists(dp_) and os.remove(dp_))
            got = tree(root)
            yml = got.pop("hashstore.yaml", None)
            got = {p: v for p, v in got.items() if not p.endswith(".log")}
            # model-side expectation: the extracted shard function
            hexes = sorted({H(data1), H(data2)} | {H(p.encode("utf-8")) for p in pids})
            toks = dict(zip(hexes, [r.split("/") for r in layerA(["shard %d %d %s" % (d, w, hx(h)) for h in hexes])]))
            exp_m = expected_layout(lambda h: toks[h], H, pids, data1, data2, doc1, doc2, ns, fmt2)
            # ... and the whole relative paths from Layout.render (proved contained / injective / prefix-free)
            rl = []
            for c_ in sorted({H(data1), H(data2)}):
                rl += [("obj", c_, "-"), ("cid", c_, "-")]
            for p_ in pids:
                rl.append(("pid", H(p_.encode("utf-8")), "-"))
            rl += [("meta", H(pids[0].encode("utf-8")), H((pids[0] + ns).encode("utf-8"))), ("meta", H(pids[0].encode("utf-8")), H((pids[0] + fmt2).encode("utf-8"))),
                   ("meta", H(pids[2].encode("utf-8")), H((pids[2] + fmt2).encode("utf-8")))]
            rendered = set(layerA(["render %d %d %s %s %s" % (d, w, k_, h1, h2) for k_, h1, h2 in rl]))
            if rendered != set(got):
                run.disagree("P-layout/render", {"depth": d, "width": w, "algorithm": a, "pids": pids},
                             sorted(rendered - set(got))[:3], sorted(set(got) - rendered)[:3], ["C18_render_injective", "C18_render_contained", "C15_shard_eq_spec"])
            exp_r = expected_layout(lambda h: readme_shard(d, w, h), H, pids, data1, data2, doc1, doc2, ns, fmt2)
            run.case("P-layout", (d, w, a, tuple(pids)), sample={"projection": "P-layout", "depth": d, "width": w, "algorithm": a,
                                                              "pids": [p[:30] for p in pids], "files": len(got)})
            run.count("config", "%d/%d/%s" % (d, w, a))
            if got != exp_m:
                diff = sorted(set(got) ^ set(exp_m)) or [p for p in got if got[p] != exp_m.get(p)]
                run.disagree("P-layout", {"depth": d, "width": w, "algorithm": a, "pids": pids, "fmt2": fmt2}, "paths " + str(diff[:4]), "impl tree differs",
                             ["C15_shard_eq_spec", "C15_split_unparse", "C15_add_exact"])
            if got != exp_r:
                diff = sorted(set(got) ^ set(exp_r)) or [p for p in got if got[p] != exp_r.get(p)]
                run.violation({"kind": "layout", "depth": d, "width": w, "algorithm": a},
                              "tree under the store root differs from the README layout for depth=%d width=%d %s at %s" % (d, w, a, diff[:3]),
                              {"depth": d, "width": w, "algorithm": a, "pids": pids, "ns": ns, "fmt2": fmt2,
                               "data1_hex": data1.hex()[:200], "differs_at": diff[:6]})
            # a cid is the string the caller gave (tag_object accepts any): upper- and lower-case spellings are two cids with two lists
            up = H(b"never stored " + data1).upper()
            try:
                hs.tag_object("case-pid-U", up)
                hs.tag_object("case-pid-L", up.lower())
                for cid_, pid_ in ((up, "case-pid-U"), (up.lower(), "case-pid-L")):
                    lp = os.path.join(root, "refs", "cids", *readme_shard(d, w, cid_))
                    pp = os.path.join(root, "refs", "pids", *readme_shard(d, w, H(pid_.encode("utf-8"))))
                    have_l = open(lp, "rb").read() if os.path.isfile(lp) else None
                    have_p = open(pp, "rb").read() if os.path.isfile(pp) else None
                    run.case("search-cid-spelling", (d, w, a, cid_[:8]), sample={"search": "cid spelled in upper / lower case", "depth": d, "width": w, "cid": cid_[:16]})
                    if have_l != (pid_ + "\n").encode() or have_p != cid_.encode():
                        run.violation({"kind": "layout", "what": "cid-case"},
                                      "tag_object(%s, %s...): reference list at refs/cids/<shard(cid)> holds %r and the pid reference %r; expected the pid line and the cid as given" % (
                                          pid_, cid_[:12], have_l, (have_p or b"")[:20]), {"depth": d, "width": w, "algorithm": a, "cid": cid_, "pid": pid_})
                hs.delete_object("case-pid-U")
                hs.delete_object("case-pid-L")
            except Exception as e:  # noqa: BLE001
                run.violation({"kind": "layout", "what": "cid-case", "exn": exn_name(e)}, "tagging / deleting pids on an upper-case and a lower-case spelling of a cid raised %s" % exn_name(e),
                              {"depth": d, "width": w, "algorithm": a, "cid": up})
            # cid list codec: the model's line splitter applied to the implementation's bytes
            for p, v in got.items():
                if p.startswith("refs/cids/"):
                    ln = layerA(["lines " + cps(v.decode("utf-8"))])[0]
                    names = [uncps(x) for x in ln.split("|")] if ln else []
                    want = [pids[0], pids[3], pids[1]] if p == "refs/cids/" + "/".join(toks[H(data1)]) else [pids[2]]
                    if names != want:
                        run.disagree("P-layout/lines", {"file": p, "bytes": v.decode("utf-8", "replace")[:80]}, names, want, ["C15_split_unparse"])
            # hashstore.yaml: the five documented keys with the configured values
            y = yaml.safe_load(yml.decode("utf-8")) if yml else {}
            want = {"store_depth": d, "store_width": w, "store_algorithm": a, "store_metadata_namespace": ns}
            bad = {k2: (y.get(k2), v) for k2, v in want.items() if y.get(k2) != v}
            if "store_default_algo_list" not in y or sorted(y["store_default_algo_list"]) != sorted(ALGOS):
                bad["store_default_algo_list"] = (y.get("store_default_algo_list"), sorted(ALGOS))
            if bad:
                run.violation({"kind": "yaml", "keys": sorted(bad)}, "hashstore.yaml does not record the configuration under the documented keys: %s" % bad,
                              {"depth": d, "width": w, "algorithm": a, "ns": ns, "yaml": y})
            shutil.rmtree(sub, ignore_errors=True)
    finally:
        shutil.rmtree(base, ignore_errors=True)


# ====================================================================== C18

def c18(run):
    rng = random.Random(run.seed)
    quick = run.tier == "quick"
    ids = adversarial_ids(rng, 6 if quick else 40)
    base = scratch_root()
    F = fhs().FileHashStore
    try:
        # ---- P-checkstr: _check_string vs the code-point level model
        strs = [None, "", " ", "\t", "a b", "a\nb", "a b", " ", "a　", "\x1c", "\x1f", "\x85", "a​b", " ", "᠎", " x",
                " ", " ", "﻿", "\x0b", "\x0c", "x\r"] + ids[:60]
        lines = ["checkcp " + ("N" if s is None else "S" + cps(s)) for s in strs]
        for s, gm in zip(strs, layerA(lines)):
            try:
                F._check_string(s, "arg")
                gi = "ok"
            except ValueError:
                gi = "ValueError"
            except Exception as e:  # noqa: BLE001
                gi = type(e).__name__
            run.case("P-checkstr", s, nontrivial=s not in (None, ""), sample={"projection": "P-checkstr", "string": (s or "")[:30], "impl": gi})
            if gm != gi:
                run.disagree("P-checkstr", {"string": s}, gm, gi, ["C18_check_string_spec"])
            want = "ok" if (s is not None and s != "" and not any(ch.isspace() for ch in s)) else "ValueError"
            if gi != want:
                run.violation({"kind": "checkstr"}, "_check_string(%r) gives %s, expected %s" % (s, gi, want), {"string": s})
        # ---- P-refs: membership and removal on reference lists with related identifiers
        hs, root = new_store(base, name="refstore")
        n_lists = 60 if quick else 600
        for k in range(n_lists):
            basep = rng.choice(ids)[:40]
            rel = [basep, basep + "x", "x" + basep, basep[:-1] or "q", basep.upper(), basep.lower(), basep + basep, rng.choice(ids)[:40]]
            rel = [r for r in dict.fromkeys(rel) if r]
            lst = rng.sample(rel, rng.randint(1, len(rel)))
            target = rng.choice(rel)
            content = "".join(p + "\n" for p in lst)
            fpath = os.path.join(base, "list%d" % k)
            with open(fpath, "w", encoding="utf8", newline="") as fh:
                fh.write(content)
            gi_in = F._is_string_in_refs_file(target, Path(fpath))
            hs._update_refs_file(Path(fpath), target, "remove")
            with open(fpath, "r", encoding="utf8", newline="") as fh:
                gi_rm = fh.read()
            gm_in, gm_rm = layerA(["inrefs %s %s" % (cps(target), cps(content)), "rmref %s %s" % (cps(target), cps(content))])
            run.case("P-refs", (tuple(lst), target), sample={"projection": "P-refs", "list": [p[:20] for p in lst], "target": target[:20],
                                                            "member": gi_in})
            run.count("member", str(gi_in))
            if (gm_in == "t") != gi_in:
                run.disagree("P-refs/member", {"list": lst, "target": target}, gm_in, gi_in, ["C18_member_exact"])
            if uncps(gm_rm) != gi_rm:
                run.disagree("P-refs/remove", {"list": lst, "target": target}, uncps(gm_rm)[:100], gi_rm[:100], ["C18_remove_exact"])
            # property oracle: whole-line semantics
            if gi_in != (target in lst):
                run.violation({"kind": "member"}, "membership of %r in list %r reported %s" % (target[:30], [p[:30] for p in lst], gi_in),
                              {"list": lst, "target": target})
            if gi_rm != "".join(p + "\n" for p in lst if p != target):
                run.violation({"kind": "remove"}, "removing %r from list %r left %r" % (target[:30], [p[:30] for p in lst], gi_rm[:80]),
                              {"list": lst, "target": target})
            os.remove(fpath)
        # ---- search: pairs / triples of adversarial identifiers sharing one object
        sentinel = os.path.join(base, "sentinel")
        os.makedirs(os.path.join(sentinel, "sub"))
        with open(os.path.join(sentinel, "sub", "keep"), "w") as fh:
            fh.write("keep")
        cwd_before = sorted(os.listdir(os.getcwd()))
        n_groups = 25 if quick else 250
        for g in range(n_groups):
            basep = rng.choice(ids)[:200]
            fam = [basep, basep + "1", basep[:-1] or "z", basep.swapcase(), rng.choice(ids), rng.choice(ids)]
            fam = [x for x in dict.fromkeys(fam) if x and not any(ch.isspace() for ch in x)]
            group = rng.sample(fam, min(len(fam), rng.choice([2, 3])))
            if g < len(EQUIVALENT_PAIRS):
                group = list(EQUIVALENT_PAIRS[g]) + group[:1]
                group = [x for x in dict.fromkeys(group)]
            fmt = rng.choice([None, "f", group[-1][:50], "../x", "a/b"])
            sub = os.path.join(base, "g%d" % g)
            os.makedirs(sub)
            hs, root = new_store(sub)
            data = os.urandom(rng.choice([1, 64, 5000]))
            src = os.path.join(sub, "data")
            with open(src, "wb") as fh:
                fh.write(data)
            if g % 4 == 0:
                # identifiers that happen to name existing files / directories (they are opaque strings all the same)
                group = [rng.choice([src, os.path.join(root, "hashstore.yaml"), "/etc/hostname", "/etc/passwd", root, sub])] + group[:2]
                group = [x for x in dict.fromkeys(group) if not any(ch.isspace() for ch in x)]
            docs = {}
            problems = []
            try:
                for p in group:
                    hs.store_object(p, src)
                    docs[p] = os.urandom(40)
                    dp = os.path.join(sub, "doc")
                    with open(dp, "wb") as fh:
                        fh.write(docs[p])
                    hs.store_metadata(p, dp, fmt)
            except Exception as e:  # noqa: BLE001
                problems.append("setup raised %s for identifiers %r" % (exn_name(e), [x[:30] for x in group]))
            victim, bystanders = group[0], group[1:]
            # an identifier nobody stored names nothing, whatever it looks like (a cid, a sharded path, a store-internal or outside file)
            if not problems:
                cidx = hashlib.sha256(data).hexdigest()
                for probe in (cidx, "/".join(readme_shard(3, 2, cidx)), "../hashstore.yaml", os.path.join(root, "hashstore.yaml"), src,
                              "objects/" + "/".join(readme_shard(3, 2, cidx))):
                    if probe in group:
                        continue
                    try:
                        s_ = hs.retrieve_object(probe)
                        got_ = s_.read()
                        s_.close()
                        problems.append("retrieve_object(%r) for an identifier that was never stored returned %d bytes" % (probe[:40], len(got_)))
                    except Exception as e:  # noqa: BLE001
                        if exn_name(e) != "PidRefsDoesNotExist":
                            problems.append("retrieve_object(%r) for an identifier that was never stored raised %s" % (probe[:40], exn_name(e)))
            # locations derive from hashes of the identifier STRINGS only (independent computation)
            if not problems:
                cid = hashlib.sha256(data).hexdigest()
                for p in group:
                    hp = hashlib.sha256(p.encode("utf-8")).hexdigest()
                    ref = os.path.join(root, "refs", "pids", *readme_shard(3, 2, hp))
                    fm = fmt if fmt is not None else DEFAULT_NS
                    doc = os.path.join(root, "metadata", *readme_shard(3, 2, hp), hashlib.sha256((p + fm).encode("utf-8")).hexdigest())
                    if not os.path.isfile(ref) or open(ref).read() != cid:
                        problems.append("pid reference of %r is not at refs/pids/shard(sha256(pid))" % p[:40])
                    if not os.path.isfile(doc):
                        problems.append("metadata document of %r is not at metadata/shard(sha256(pid))/sha256(pid+format)" % p[:40])

            def check_bystanders(step):
                for b in bystanders:
                    try:
                        s = hs.retrieve_object(b)
                        got = s.read()
                        s.close()
                        if got != data:
                            problems.append("after %s on %r: retrieve_object(%r) gives other bytes" % (step, victim[:30], b[:30]))
                        s = hs.retrieve_metadata(b, fmt)
                        got = s.read()
                        s.close()
                        if got != docs[b]:
                            problems.append("after %s on %r: retrieve_metadata(%r) gives other bytes" % (step, victim[:30], b[:30]))
                    except Exception as e:  # noqa: BLE001
                        problems.append("after %s on %r: bystander %r raises %s" % (step, victim[:30], b[:30], exn_name(e)))
            if not problems:
                steps = [("retrieve_object", lambda: hs.retrieve_object(victim).close()),
                         ("store_metadata", lambda: hs.store_metadata(victim, src, fmt)),
                         ("delete_metadata", lambda: hs.delete_metadata(victim, fmt)),
                         ("tag_object again", lambda: hs.tag_object(victim, hashlib.sha256(data).hexdigest())),
                         ("delete_object", lambda: hs.delete_object(victim)),
                         ("store_object again", lambda: hs.store_object(victim, src)),
                         ("delete_metadata all", lambda: hs.delete_metadata(victim)),
                         ("delete_object 2", lambda: hs.delete_object(victim))]
                for name, fn in steps:
                    try:
                        fn()
                    except Exception as e:  # noqa: BLE001
                        if not (name == "tag_object again" and exn_name(e) == "HashStoreRefsAlreadyExists"):
                            problems.append("%s(%r) raised %s" % (name, victim[:30], exn_name(e)))
                    check_bystanders(name)
            # every file lies inside the root at a hash-derived location
            for rel in tree(root):
                parts = rel.split("/")
                if rel == "hashstore.yaml":
                    continue
                ok = parts[0] in ("objects", "metadata", "refs") and all(
                    (t in ("pids", "cids", "tmp") and i == 1) or all(ch in "0123456789abcdef" for ch in t.replace("_delete", ""))
                    or (i == 2 and parts[1] == "tmp") for i, t in enumerate(parts) if i > 0)
                if not ok:
                    problems.append("file at a location not derived from hashes: %s" % rel[:80])
            extra = [x for x in os.listdir(sub) if x not in ("store", "data", "doc")]
            if extra:
                problems.append("files created outside the store root: %s" % extra[:3])
            run.case("search-ids", tuple(group), sample={"search": "identifier groups", "ids": [x[:30] for x in group], "format": (fmt or "default")[:20]})
            for pr in problems[:3]:
                run.violation({"kind": "ids", "what": pr.split(":")[0][:40]}, pr, {"group": group, "format": fmt, "size": len(data)})
            shutil.rmtree(sub, ignore_errors=True)
        # (pid, format) pairs whose CONCATENATIONS coincide, through one store instance
        for (p1, f1, p2, f2) in (("doi:10.5063/F1", "ABC:eml", "doi:10.5063/F1ABC", ":eml"), ("ab", "c", "a", "bc"), ("x", "yz" + DEFAULT_NS, "xyz", DEFAULT_NS)):
            sub = os.path.join(base, "cc%d" % len(p1))
            os.makedirs(sub)
            hs, root = new_store(sub)
            d1p, d2p = os.path.join(sub, "m1"), os.path.join(sub, "m2")
            with open(d1p, "wb") as fh:
                fh.write(b"document of the first pair")
            with open(d2p, "wb") as fh:
                fh.write(b"document of the second pair")
            probs = []

            def rd(p_, f_):
                try:
                    s_ = hs.retrieve_metadata(p_, f_)
                    r_ = s_.read()
                    s_.close()
                    return r_
                except Exception as e:  # noqa: BLE001
                    return "exn:" + exn_name(e)
            hs.store_metadata(p1, d1p, f1)
            if rd(p2, f2) != "exn:ValueError":
                probs.append("retrieve_metadata(%r, %r) finds the document of (%r, %r)" % (p2, f2, p1, f1))
            hs.store_metadata(p2, d2p, f2)
            if rd(p1, f1) != b"document of the first pair" or rd(p2, f2) != b"document of the second pair":
                probs.append("documents of (%r, %r) and (%r, %r) are mixed up" % (p1, f1, p2, f2))
            hs.delete_metadata(p2, f2)
            if rd(p1, f1) != b"document of the first pair":
                probs.append("delete_metadata(%r, %r) removed the document of (%r, %r)" % (p2, f2, p1, f1))
            run.case("search-concatenations", (p1, f1, p2, f2), sample={"search": "(pid, format) pairs with equal concatenation", "pairs": [[p1, f1[:20]], [p2, f2[:20]]]})
            for pr in probs[:2]:
                run.violation({"kind": "concatenation"}, pr, {"pairs": [[p1, f1], [p2, f2]]})
            shutil.rmtree(sub, ignore_errors=True)
        if tree(sentinel) != {"sub/keep": b"keep"}:
            run.violation({"kind": "sentinel"}, "a directory next to the store root was modified", {"sentinel": sorted(tree(sentinel))})
        if sorted(os.listdir(os.getcwd())) != cwd_before:
            run.violation({"kind": "cwd"}, "the working directory was modified", {"cwd": sorted(os.listdir(os.getcwd()))[:10]})
    finally:
        shutil.rmtree(base, ignore_errors=True)


CHECKS = {"C15": c15, "C18": c18}


# ====================================================================== C02

CANON = ["md5", "sha1", "sha256", "sha384", "sha512", "sha224", "sha3_224", "sha3_256", "sha3_384", "sha3_512", "blake2b", "blake2s"]
DATAONE = {"md5": "MD5", "sha1": "SHA-1", "sha256": "SHA-256", "sha384": "SHA-384", "sha512": "SHA-512", "sha224": "SHA-224",
           "sha3_224": "SHA3-224", "sha3_256": "SHA3-256", "sha3_384": "SHA3-384", "sha3_512": "SHA3-512"}
COREUTILS = {"md5": "md5sum", "sha1": "sha1sum", "sha224": "sha224sum", "sha256": "sha256sum", "sha384": "sha384sum",
             "sha512": "sha512sum", "blake2b": "b2sum"}


def spellings(rng, canon, n=4):
    """accepted spellings: hashlib name, DataONE name, '-'/'_' variants, arbitrary case"""
    base = {canon, DATAONE.get(canon, canon), canon.replace("_", "-"), canon.upper(), DATAONE.get(canon, canon).lower(),
            DATAONE.get(canon, canon).replace("-", "_")}
    out = []
    for b in sorted(base):
        out.append(b)
        out.append("".join(ch.upper() if rng.random() < 0.5 else ch.lower() for ch in b))
    rng.shuffle(out)
    return out[:n]


def independent_digest(algo, path, data):
    """digest by a second implementation where one exists (coreutils), else one-shot hashlib"""
    import subprocess
    if algo in COREUTILS and shutil.which(COREUTILS[algo]):
        out = subprocess.run([COREUTILS[algo], path], capture_output=True, text=True).stdout
        return out.split()[0].lstrip("\\")
    return hashlib.new(algo, data).hexdigest()


def c02(run):
    rng = random.Random(run.seed)
    quick = run.tier == "quick"
    base = scratch_root()
    try:
        hs, root = new_store(base)
        # ---- P-algo/clean
        strs = []
        for c in CANON:
            strs += spellings(rng, c, 6 if quick else 12)
            strs += [c + "x", c[:-1], "-" + c, c + "-", c.replace("sha", "sha_"), c.replace("3_", "3__"), c.replace("_", "")]
        strs += ["", "sha", "SHA", "sha-3-256", "sha3256", "sha_3_256", "SHA3_256", "sha3-256", "md-5", "m-d-5", "MD_5", "blake2", "blake-2b",
                 "BLAKE_2S", "sha2-256", "sha512_256", "shake_128", "SHA-1024", "ſha256", "sha256 ", "1234", "sha١"]
        strs = [s for s in dict.fromkeys(strs) if all(ord(ch) < 128 for ch in s)]
        res = layerA(["clean " + hx(s) for s in strs])
        for s, gm in zip(strs, res):
            try:
                gi = "some " + hx(hs._clean_algorithm(s))
            except Exception as e:  # noqa: BLE001
                gi = "none" if exn_name(e) == "UnsupportedAlgorithm" else "exn " + exn_name(e)
            run.case("P-algo/clean", s, nontrivial=gi != "none", sample={"projection": "P-algo/clean", "string": s, "impl": gi})
            if gm != gi:
                run.disagree("P-algo/clean", {"string": s}, gm, gi, ["C02_clean_sound", "C02_clean_complete_anycase"])
            # oracle: accepted iff it squashes to a canonical name; never mapped to another algorithm
            sq = s.lower().replace("-", "").replace("_", "")
            if gi.startswith("some "):
                got = bytes.fromhex(gi[5:]).decode()
                if got.replace("_", "") != sq or got not in CANON:
                    run.violation({"kind": "clean"}, "_clean_algorithm(%r) = %r which is not the algorithm the spelling names" % (s, got), {"string": s})
        # ---- P-algo/refine: the per-call list and the instance's default list after the call
        opts = [None] + CANON
        pairs = [(a, c) for a in opts for c in opts]
        rng.shuffle(pairs)
        pairs = pairs[: (40 if quick else len(pairs))]
        enc = lambda o: "N" if o is None else "S" + hx(o)
        res = layerA(["refine 1 %s %s" % (enc(a), enc(c)) for a, c in pairs])
        for (a, c), gm in zip(pairs, res):
            inst = fhs().FileHashStore({"store_path": root, "store_depth": 3, "store_width": 2, "store_algorithm": "SHA-256",
                                        "store_metadata_namespace": DEFAULT_NS})
            calc = inst._refine_algorithm_list(a, c)
            gi = ",".join(inst.default_algo_list) + " " + ",".join(sorted(calc))
            m_inst, m_calc = gm.split(" ")
            gm2 = m_inst + " " + ",".join(sorted(m_calc.split(",")))
            run.case("P-algo/refine", (a, c), nontrivial=(a is not None or c is not None), sample={"projection": "P-algo/refine", "additional": a, "checksum_algorithm": c, "impl": gi})
            if gm2 != gi:
                run.disagree("P-algo/refine", {"additional": a, "checksum_algorithm": c}, gm2, gi, ["C02_refine_copy_keys", "C02_refine_copy_history"])
        # ---- search: histories of store_object on ONE instance; keys depend only on the call that asked
        n_hist = 6 if quick else 60
        for hno in range(n_hist):
            sub = os.path.join(base, "h%d" % hno)
            os.makedirs(sub)
            inst, r2 = new_store(sub)
            calls = []
            for k in range(rng.randint(2, 6)):
                size = rng.choice([0, 1, 4095, 4096, 4097, 70000])
                data = os.urandom(size)
                src = os.path.join(sub, "d%d" % k)
                with open(src, "wb") as fh:
                    fh.write(data)
                add = rng.choice([None, None] + CANON)
                cka = rng.choice([None, None] + CANON)
                add_s = None if add is None else rng.choice(spellings(rng, add))
                cka_s = None if cka is None else rng.choice(spellings(rng, cka))
                chk = None if cka is None else hashlib.new(cka, data).hexdigest()
                if chk is not None and rng.random() < 0.3:
                    chk = chk.upper()
                pid = "pid-%d-%d" % (hno, k)
                calls.append({"pid": pid, "size": size, "additional": add_s, "checksum_algorithm": cka_s})
                try:
                    m = inst.store_object(pid, src, add_s, chk, cka_s)
                except Exception as e:  # noqa: BLE001
                    run.violation({"kind": "store", "exn": exn_name(e)}, "store_object with additional=%r checksum_algorithm=%r (correct checksum) raised %s" % (add_s, cka_s, exn_name(e)),
                                  {"calls": calls})
                    break
                want = set(CANON[:5]) | ({add} if add else set()) | ({cka} if cka else set())
                run.case("search-digests", (hno, k), sample={"search": "store_object history", "call": calls[-1], "keys": sorted(m.hex_digests)})
                run.count("extra_algorithms", "%d" % (len(want) - 5))
                if set(m.hex_digests) != want:
                    run.violation({"kind": "keys", "extra": sorted(set(m.hex_digests) - want), "missing": sorted(want - set(m.hex_digests))},
                                  "hex_digests keys %s differ from the five defaults plus the algorithms named in the call %s (call %d of a history on one instance)" % (
                                      sorted(m.hex_digests), sorted(want - set(CANON[:5])), k + 1), {"calls": calls})
                for alg, val in m.hex_digests.items():
                    if alg in CANON and val != independent_digest(alg, src, data):
                        run.violation({"kind": "value", "algorithm": alg}, "hex_digests[%s] is not the digest of the stored content (size %d)" % (alg, size), {"calls": calls})
                if m.obj_size != size or m.cid != hashlib.sha256(data).hexdigest():
                    run.violation({"kind": "cid"}, "cid / size reported do not match the content", {"calls": calls})
                # a rejected store for the SAME pid with other content (the pid is bound) must not change what get_hex_digest reports
                if k % 2 == 1:
                    other_src = os.path.join(sub, "other%d" % k)
                    with open(other_src, "wb") as fh:
                        fh.write(os.urandom(77))
                    try:
                        inst.store_object(pid, other_src, rng.choice([None] + CANON))
                    except Exception:  # noqa: BLE001
                        pass
                # get_hex_digest under every algorithm and spelling
                for alg in (CANON if k == 0 else rng.sample(CANON, 3)):
                    for sp in spellings(rng, alg, 2):
                        try:
                            got = inst.get_hex_digest(pid, sp)
                        except Exception as e:  # noqa: BLE001
                            got = "exn:" + exn_name(e)
                        run.case("search-gethex", (hno, k, sp), sample=None)
                        if got != independent_digest(alg, src, data):
                            run.violation({"kind": "gethex", "algorithm": alg}, "get_hex_digest(pid, %r) gives %s, not the %s digest of the content" % (sp, got[:20], alg),
                                          {"calls": calls, "spelling": sp})
            shutil.rmtree(sub, ignore_errors=True)
    finally:
        shutil.rmtree(base, ignore_errors=True)


CHECKS["C02"] = c02


# ====================================================================== C17

def pyval_to_py(tok, ctx):
    """pyval word of the layer-A front end -> a real Python value"""
    k, rest = tok[0], tok[1:]
    if k == "N":
        return None
    if k == "T":
        return True
    if k == "U":
        return False
    if k == "I":
        return int(rest)
    if k == "F":
        return 5.0
    if k == "S":
        return "" if rest == "-" else bytes.fromhex(rest).decode()
    if k == "Y":
        return b"bytes"
    if k == "P":
        return Path("" if rest == "-" else bytes.fromhex(rest).decode())
    if k == "R":
        if rest == "1":
            f = open(ctx["src"], "rb")
            ctx["open"].append(f)
            return f
        return io.BytesIO(ctx["data"])
    if k == "X":
        return io.StringIO("text")
    if k == "O":
        return ctx["meta"]
    return ["a", "list"]


def S(s):
    return "S" + hx(s)


def c17(run):
    rng = random.Random(run.seed)
    quick = run.tier == "quick"
    base = scratch_root()
    try:
        hs, root = new_store(base)
        data = b"content-for-c17" * 10
        src = os.path.join(base, "srcfile")
        with open(src, "wb") as fh:
            fh.write(data)
        doc = os.path.join(base, "docfile")
        with open(doc, "wb") as fh:
            fh.write(b"<doc/>")
        m = hs.store_object("bound-pid", src)
        hs.store_metadata("bound-pid", doc)
        hs.store_metadata("bound-pid", doc, "fmt-x")
        # an object stored WITHOUT a pid (what delete_if_invalid_object is for) and a pid that has metadata but no object
        other = b"unreferenced-content-for-c17"
        osrc = os.path.join(base, "osrcfile")
        with open(osrc, "wb") as fh:
            fh.write(other)
        m_unref = hs.store_object(None, osrc)
        hs.store_metadata("meta-only-pid", doc)
        hs.store_metadata("meta-only-pid", doc, "fmt-x")
        ctx = {"src": src, "data": data, "open": [], "meta": m_unref}
        sha = hashlib.sha256(other).hexdigest()
        bad_str = ["N", S(""), S(" "), S("a b"), S("\t"), S("a\nb"), S("x\x1c")]
        bad_algo = [S("sha-3"), S("md6"), S("sha256x"), S("sm3"), S("SHA-2560")]
        # what is (un)supported does not depend on what the instance was asked before: every supported algorithm is used once,
        # then spellings that differ from a supported one only in their separators - and that the model rejects - are tried
        for a_ in list(CANON) + ["SHA3-256", "Sha3_384", "SHA3_512", "BLAKE2B"]:
            try:
                hs.get_hex_digest("bound-pid", a_)
            except Exception:  # noqa: BLE001
                pass
        near = ["sha3256", "SHA-3384", "sha_35_12", "sha3224", "sha-3512", "sha2_56", "s_ha256", "blake2_b", "blake-2s", "m_d5", "sha_1"]
        near = [n_ for n_, r_ in zip(near, layerA(["clean " + hx(n_) for n_ in near])) if r_ == "none"]
        bad_algo += [S(n_) for n_ in near]
        bad_size = ["I0", "I-1", "U", S("5"), "F", "Z", "Y"]
        bad_data = ["N", S(""), S("  "), "I5", "Y", "X", "Z", "F", "T"]
        # method -> (valid argument vector, per-parameter invalid values, in the order of the model's args_* functions)
        newsrc = os.path.join(base, "newsrcfile")
        with open(newsrc, "wb") as fh:
            fh.write(b"content that is not in the store yet " * 300)
        METHODS = {
            "store_object": (["S" + hx("new-pid"), S(newsrc), "N", "N", "N", "N"],
                             [bad_str, bad_data, bad_algo, [S(""), S(" ")], bad_algo + ["N"], bad_size]),
            "tag_object": ([S("new-pid"), S(sha)], [bad_str, bad_str]),
            "delete_if_invalid_object": (["O", S(sha), S("SHA-256"), "N"], [["N", S("x"), "I1", "Z"], bad_str, bad_str + bad_algo, bad_size]),
            "store_metadata": ([S("new-pid"), S(doc), "N"], [bad_str, bad_data, [S(" "), S("\t\n")]]),
            "retrieve_object": ([S("bound-pid")], [bad_str]),
            "retrieve_metadata": ([S("bound-pid"), "N"], [bad_str, [S(" "), S("  ")]]),
            "delete_object": ([S("new-pid")], [bad_str]),
            "delete_metadata": ([S("new-pid"), "N"], [bad_str, [S(" ")]]),
            "get_hex_digest": ([S("bound-pid"), S("SHA-256")], [bad_str, bad_str + bad_algo]),
        }
        cases = []
        for meth, (valid, bads) in METHODS.items():
            cases.append((meth, list(valid)))
            for i, bl in enumerate(bads):
                for b in bl:
                    v = list(valid)
                    v[i] = b
                    if meth == "store_object" and i == 3:
                        v[4] = "N"             # checksum without algorithm
                    if meth == "store_object" and i == 4 and b == "N":
                        v[3] = S(sha)          # ... and the reverse: checksum given, algorithm None
                    elif meth == "store_object" and i == 4:
                        v[3] = S(sha)
                    cases.append((meth, v))
            # pairs of bad parameters
            for _ in range(6 if quick else 40):
                if len(bads) < 2:
                    break
                i, j = rng.sample(range(len(bads)), 2)
                v = list(valid)
                v[i], v[j] = rng.choice(bads[i]), rng.choice(bads[j])
                cases.append((meth, v))
        # unknown pid for retrieve / delete / get_hex_digest, absent metadata document
        # an invalid argument together with a VALID BUT MISMATCHING one: the rejection comes first and nothing is judged or deleted
        for balgo in bad_algo:
            cases.append(("delete_if_invalid_object", ["O", S(sha), balgo, "I%d" % (len(other) + 7)]))
            cases.append(("delete_if_invalid_object", ["O", S("0" * 64), balgo, "N"]))
            cases.append(("store_object", [S("new-pid"), S(src), "N", S("0" * 64), balgo, "I%d" % (len(data) + 7)]))
            cases.append(("store_object", [S("new-pid"), S(src), balgo, "N", "N", "I%d" % (len(data) + 7)]))
        for bsz in bad_size:
            cases.append(("delete_if_invalid_object", ["O", S("0" * 64), S("SHA-256"), bsz]))
            cases.append(("store_object", [S("new-pid"), S(src), "N", S("0" * 64), S("MD5"), bsz]))
        # unknown pid that nevertheless has metadata documents
        cases += [("delete_object", [S("meta-only-pid")]), ("retrieve_object", [S("meta-only-pid")]), ("get_hex_digest", [S("meta-only-pid"), S("sha256")])]
        cases += [("retrieve_object", [S("unknown-pid")]), ("delete_object", [S("unknown-pid")]),
                  ("get_hex_digest", [S("unknown-pid"), S("md5")]), ("retrieve_metadata", [S("unknown-pid"), "N"]),
                  ("retrieve_metadata", [S("bound-pid"), S("no-such-format")]),
                  ("store_object", [S("pid-m"), S(os.path.join(base, "missing-file")), "N", "N", "N", "N"]),
                  ("store_object", [S("pid-m"), "P" + hx(os.path.join(base, "missing-file")), "N", "N", "N", "N"])]
        lines = ["args %s %s %s" % (meth, hx("sha256"), " ".join(v)) for meth, v in cases]
        res = layerA(lines)
        DOMAIN_STR = ("N", "S")
        for (meth, v), gm in zip(cases, res):
            before = tree(root, with_dirs=True, mtime=True)
            args = [pyval_to_py(t, ctx) for t in v]
            try:
                r = getattr(hs, meth)(*args)
                if hasattr(r, "close"):
                    r.close()
                gi = "ok"
            except Exception as e:  # noqa: BLE001
                gi = exn_name(e)
            for f in ctx["open"]:
                f.close()
            ctx["open"] = []
            after = tree(root, with_dirs=True, mtime=True)
            changed = before != after
            key = (meth, tuple(v))
            run.case("P-args", key, nontrivial=gm != "ok", sample={"projection": "P-args", "method": meth, "args": v, "model": gm, "impl": gi})
            run.count("class", gi)
            # the model's domain: str-typed parameters are None / str (exact class elsewhere is not claimed)
            strpos = {"store_object": [0, 2, 3, 4], "tag_object": [0, 1], "delete_if_invalid_object": [1, 2], "store_metadata": [0, 2],
                      "retrieve_object": [0], "retrieve_metadata": [0, 1], "delete_object": [0], "delete_metadata": [0, 1], "get_hex_digest": [0, 1]}[meth]
            in_domain = all(v[i][0] in DOMAIN_STR for i in strpos)
            if in_domain and gm != "ok" and gm != gi:
                run.disagree("P-args", {"method": meth, "args": v}, gm, gi, ["C17_store_object_first_failure", "C17_rejected_pure"])
            if in_domain and gm == "ok" and gi in ("TypeError", "UnsupportedAlgorithm", "AttributeError") :
                run.disagree("P-args", {"method": meth, "args": v}, gm, gi, ["C17_store_object_args_ok_iff"])
            # property oracle: a rejected call, an unknown pid, and a successful read-only call change nothing
            rejected = gi in ("ValueError", "TypeError", "UnsupportedAlgorithm", "PidRefsDoesNotExist", "AttributeError")
            readonly = meth in ("retrieve_object", "retrieve_metadata", "get_hex_digest")
            if (rejected or readonly) and changed:
                diff = sorted(set(before) ^ set(after)) or [p for p in before if before[p] != after.get(p)]
                run.violation({"kind": "changed", "method": meth, "class": gi},
                              "%s(%s) -> %s changed the store: %s" % (meth, ", ".join(repr(a)[:30] for a in args), gi, diff[:4]),
                              {"method": meth, "args": v, "outcome": gi, "changed": diff[:10]})
            # fixture hygiene (outside the API): the fresh content must stay "not yet stored" for the next case
            ncid = hashlib.sha256(open(newsrc, "rb").read()).hexdigest()
            nobj = os.path.join(root, "objects", ncid[:2], ncid[2:4], ncid[4:6], ncid[6:])
            nref = os.path.join(root, "refs", "cids", ncid[:2], ncid[2:4], ncid[4:6], ncid[6:])
            if not rejected and not readonly and gi == "ok":
                # restore the fixture state for the next case (a valid call did its work)
                for undo in (lambda: hs.delete_object("new-pid"), lambda: hs.delete_metadata("new-pid"), lambda: hs.delete_object("pid-m")):
                    try:
                        undo()
                    except Exception:  # noqa: BLE001
                        pass
                if meth == "delete_if_invalid_object":
                    pass
            if os.path.isfile(nobj) and not os.path.isfile(nref):
                os.remove(nobj)
            valid = METHODS[meth][0]
            sizepos = {"store_object": 5, "delete_if_invalid_object": 3}.get(meth)
            ckpos = {"store_object": 3, "delete_if_invalid_object": 1}.get(meth)
            # documented classes for the documented conditions
            want = None
            if meth in ("retrieve_object", "delete_object", "get_hex_digest") and v[0] in (S("unknown-pid"), S("meta-only-pid")):
                want = "PidRefsDoesNotExist"
            if want and gi != want:
                run.violation({"kind": "class", "method": meth}, "%s on an unknown pid raised %s, documented class is %s" % (meth, gi, want), {"method": meth, "args": v})
            # exactly ONE argument invalid (all others as in the valid call): the documented class for that kind of invalid value,
            # and nothing touched.  (None / empty / whitespace-containing identifier, checksum, algorithm -> ValueError; whitespace
            # judged by str.isspace, so U+00A0, U+2028, 0x1c.. count; size of another type -> TypeError, < 1 -> ValueError)
            diff = [i for i in range(len(v)) if v[i] != valid[i]] if len(v) == len(valid) else []
            if len(diff) == 1:
                i1, b1 = diff[0], v[diff[0]]
                want1 = None
                if b1 in bad_str and not (meth == "store_object" and i1 in (0, 2) and b1 == "N") and i1 in strpos:
                    want1 = "ValueError"
                if meth == "store_object" and i1 == 2 and b1 in bad_str:
                    want1 = None                      # the additional algorithm is cleaned, not string-checked
                if b1 in bad_size and i1 == sizepos:
                    want1 = "ValueError" if b1 in ("I0", "I-1", "U") else "TypeError"
                if want1 and (gi != want1 or changed):
                    run.violation({"kind": "single-invalid", "method": meth, "pos": i1, "class": gi},
                                  "%s with one invalid argument (position %d = %s) -> %s%s; documented: %s, store unchanged" % (
                                      meth, i1, b1[:24], gi, " and the store changed" if changed else "", want1), {"method": meth, "args": v, "outcome": gi})
            if meth == "store_object" and len(v) == 6 and v[0] == valid[0] and v[1] == valid[1] and v[5] == "N" and v[2] == "N":
                # checksum and checksum_algorithm go together: one without the other (None or blank) is a ValueError
                ck_given, al_given = v[3] != "N", v[4] != "N"
                blank = lambda t: t in ("N", S(""), S(" "))
                if (ck_given != al_given and (blank(v[3]) or blank(v[4]))) and (gi != "ValueError" or changed):
                    run.violation({"kind": "pairing", "method": meth, "class": gi},
                                  "store_object with checksum=%s and checksum_algorithm=%s -> %s%s; documented: ValueError, store unchanged" % (
                                      v[3][:12], v[4][:12], gi, " and the store changed" if changed else ""), {"method": meth, "args": v, "outcome": gi})
            # an unsupported data type (or a blank string) with a valid pid: TypeError, nothing touched
            datapos = {"store_object": 1, "store_metadata": 1}.get(meth)
            if datapos is not None and v[datapos] in bad_data and v[0] == METHODS[meth][0][0]:
                if gi != "TypeError" or changed:
                    run.violation({"kind": "unsupported-data", "method": meth, "class": gi},
                                  "%s with data %s (not a str / Path / buffered binary stream) -> %s%s; documented: TypeError, store unchanged" % (
                                      meth, v[datapos], gi, " and the store changed" if changed else ""), {"method": meth, "args": v, "outcome": gi})
            # an unsupported algorithm name, all other arguments well-formed (possibly mismatching the content): UnsupportedAlgorithm, nothing touched
            algpos = {"store_object": [2, 4], "delete_if_invalid_object": [2], "get_hex_digest": [1]}.get(meth, [])
            wellformed = all(v[i] == valid[i]
                             or (i == sizepos and v[i][0] == "I" and int(v[i][1:]) >= 1)
                             or (i == ckpos and v[i][0] == "S" and len(v[i]) > 20)
                             for i in range(len(v)) if i not in algpos)
            if any(v[i] in bad_algo for i in algpos) and all(v[i] in bad_algo or v[i] in ("N", valid[i]) for i in algpos) and wellformed \
                    and not (meth == "store_object" and v[4] in bad_algo and v[3] == "N"):
                if gi != "UnsupportedAlgorithm" or changed:
                    run.violation({"kind": "unsupported-algorithm", "method": meth, "class": gi},
                                  "%s with an unsupported algorithm name (other arguments well-formed) -> %s%s; documented: UnsupportedAlgorithm, store unchanged" % (
                                      meth, gi, " and the store changed" if changed else ""), {"method": meth, "args": v, "outcome": gi})
    finally:
        shutil.rmtree(base, ignore_errors=True)


CHECKS["C17"] = c17


# ====================================================================== C14

def enc_props(p):
    """dict (or None / {}) -> the front end's props syntax; values: None, int, str, bool, float"""
    if p is None:
        return "N"
    if not p:
        return "E"
    items = []
    for k, v in p.items():
        if v is None:
            w = "N"
        elif v is True:
            w = "T"
        elif v is False:
            w = "U"
        elif isinstance(v, int):
            w = "I%d" % v
        elif isinstance(v, float):
            w = "F"
        elif isinstance(v, str):
            w = "S" + hx(v)
        else:
            w = "Z"
        items.append(hx(k) + "=" + w)
    return ";".join(items)


def c14(run):
    import framework as _fw
    _fw.environment_projection(run)
    rng = random.Random(run.seed)
    quick = run.tier == "quick"
    import yaml
    base = scratch_root()
    NS2 = "http://ns.example.org/meta/v1"
    F = fhs().FileHashStore
    try:
        n_cases = 260 if quick else 4000
        k = 0
        corpus = [
            # (state, creation cfg, reopen mutation)  — the reopening properties are creation cfg + mutation
            ("populated", (3, 2, "SHA-256", DEFAULT_NS), {"store_depth": "3", "store_width": "2"}),
            ("populated", (3, 2, "SHA-256", DEFAULT_NS), {"store_depth": 2}),
            ("populated", (3, 2, "SHA-256", DEFAULT_NS), {"store_algorithm": "sha256"}),
            ("populated", (3, 2, "SHA-256", DEFAULT_NS), {"store_algorithm": "SHA-512"}),
            ("populated", (3, 2, "SHA-256", DEFAULT_NS), {"store_metadata_namespace": NS2}),
            ("datadirs", (3, 2, "SHA-256", DEFAULT_NS), {}),
            ("noroot", (3, 2, "SHA-224", DEFAULT_NS), {}),
            ("emptyroot", (3, 2, "sha256", DEFAULT_NS), {}),
            ("yaml", (5, 4, "MD5", NS2), {"store_width": " 4 "}),
            ("yaml", (5, 4, "MD5", NS2), {"store_width": "4.0"}),
            ("yaml", (1, 1, "SHA-1", NS2), {"store_depth": True}),
        ]
        while k < n_cases:
            if k < len(corpus):
                state, create, mut = corpus[k]
            else:
                state = rng.choice(["noroot", "emptyroot", "datadirs", "yaml", "populated", "populated"])
                create = (rng.randint(1, 5), rng.randint(1, 4), rng.choice(list(ALGOS)), rng.choice([DEFAULT_NS, NS2]))
                mut = {}
                r = rng.random()
                if state in ("noroot", "emptyroot", "datadirs"):
                    if r < 0.35:
                        create = create[:2] + (rng.choice(["SHA-224", "sha256", "SHA256", "sha3_256", "BLAKE2B", "md5", "SHA_256", "Sha-256", "SHA-3"]),) + create[3:]
                    elif r < 0.5:
                        mut = {rng.choice(["store_depth", "store_width"]): rng.choice(["2", " 3", "x", "", "2.0", None, "1_0", "+2"])}
                else:
                    if r < 0.2:
                        mut = {}
                    elif r < 0.4:
                        key = rng.choice(["store_depth", "store_width"])
                        cur = create[0] if key == "store_depth" else create[1]
                        mut = {key: rng.choice([str(cur), " %d " % cur, "0%d" % cur, "+%d" % cur, cur + 1, str(cur + 1), max(1, cur - 1), "%d.0" % cur, "x", None, True])}
                    elif r < 0.6:
                        a = create[2]
                        mut = {"store_algorithm": rng.choice([a.lower(), a.replace("-", ""), a.replace("-", "_"), rng.choice(list(ALGOS)), "SHA-224", ALGOS[a], None, a + " "])}
                    elif r < 0.75:
                        mut = {"store_metadata_namespace": rng.choice([NS2, DEFAULT_NS, DEFAULT_NS + "/", DEFAULT_NS.upper(), "", None])}
                    elif r < 0.85:
                        mut = {"__drop__": rng.choice(["store_depth", "store_width", "store_algorithm", "store_metadata_namespace"])}
                    elif r < 0.92:
                        mut = {"extra_key": "extra", "store_depth": str(create[0])}
                    else:
                        mut = {"store_depth": create[0] + rng.choice([0, 1]), "store_algorithm": rng.choice(list(ALGOS))}
            k += 1
            sub = os.path.join(base, "s%d" % k)
            os.makedirs(sub)
            root = os.path.join(sub, "store")
            d, w, a, ns = create
            cprops = {"store_path": root, "store_depth": d, "store_width": w, "store_algorithm": a, "store_metadata_namespace": ns}
            stored = {}
            yaml_cfg = "N"
            if state in ("yaml", "populated"):
                try:
                    hs = F(dict(cprops))
                except Exception:  # noqa: BLE001 - creation with an unsupported name is itself a case below
                    shutil.rmtree(sub, ignore_errors=True)
                    continue
                yaml_cfg = "%d,%d,%s,%s" % (d, w, hx(a), hx(ns))
                if state == "populated":
                    for i in range(2):
                        data = os.urandom(50 + i)
                        src = os.path.join(sub, "src%d" % i)
                        with open(src, "wb") as fh:
                            fh.write(data)
                        hs.store_object("pid-%d" % i, src)
                        hs.store_metadata("pid-%d" % i, src)
                        stored["pid-%d" % i] = data
            elif state == "emptyroot":
                os.makedirs(root)
            elif state == "datadirs":
                # the data directories of a store whose configuration file is gone: real directories, only one of them, or
                # symbolic links to directories elsewhere (a store root assembled from several volumes)
                shape = rng.choice(["dirs", "dirs", "one", "links"])
                os.makedirs(root, exist_ok=True)
                names = ("objects", "metadata", "refs") if shape != "one" else (rng.choice(("objects", "metadata", "refs")),)
                for s_ in names:
                    if shape == "links":
                        tgt = os.path.join(sub, "vol-" + s_)
                        os.makedirs(tgt, exist_ok=True)
                        os.symlink(tgt, os.path.join(root, s_))
                    else:
                        os.makedirs(os.path.join(root, s_))
            # the reopening properties
            rprops = dict(cprops)
            for kk, vv in mut.items():
                if kk == "__drop__":
                    rprops.pop(vv, None)
                else:
                    rprops[kk] = vv
            root_exists = os.path.exists(root)
            dd = any(os.path.isdir(os.path.join(root, s_)) for s_ in ("objects", "metadata", "refs"))     # the model's input: "a data directory is there"
            before = tree(sub, with_dirs=True, mtime=True)
            try:
                hs2 = F(dict(rprops))
                y = yaml.safe_load(open(os.path.join(root, "hashstore.yaml")))
                eff = []
                if not root_exists:
                    eff.append("mkroot")
                if yaml_cfg == "N":
                    eff.append("writeyaml")
                if not dd:
                    eff.append("mkdatadirs")
                gi = "accept %d %d %s %s [%s]" % (hs2.depth, hs2.width, hx(y["store_algorithm"]), hx(hs2.sysmeta_ns), ",".join(eff))
            except Exception as e:  # noqa: BLE001
                hs2 = None
                gi = "refuse " + exn_name(e)
            after = tree(sub, with_dirs=True, mtime=True)
            gm = layerA(["config %s %s %s %s" % (yaml_cfg, "1" if root_exists else "0", "1" if dd else "0", enc_props(rprops))])[0]
            key = (state, create, tuple(sorted((str(a_), str(b_)) for a_, b_ in mut.items())))
            run.case("P-config", key, nontrivial=bool(mut) or state in ("datadirs", "populated"),
                     sample={"projection": "P-config", "state": state, "created_with": list(create), "reopen_change": {str(a_): b_ for a_, b_ in mut.items()},
                             "model": gm[:60], "impl": gi[:60]})
            run.count("state", state)
            run.count("decision", gi.split(" ")[0] + ("" if gi.startswith("accept") else ":" + gi.split(" ")[1]))
            if gm != gi and gm != "refuse TypeError":
                run.disagree("P-config", {"state": state, "created_with": create, "reopen_props": {k2: v2 for k2, v2 in rprops.items() if k2 != "store_path"}},
                             gm, gi, ["C14_open_iff", "C14_reopen_mismatch_refused", "C14_effects_only_on_accept"])
            # ---- property oracle (independent of the model)
            if hs2 is None:
                if before != after:
                    diff = sorted(set(before) ^ set(after)) or [p for p in before if before[p] != after.get(p)]
                    run.violation({"kind": "refused-but-wrote", "state": state, "class": gi},
                                  "a refused open (%s) created or modified files: %s" % (gi, diff[:4]),
                                  {"state": state, "created_with": create, "reopen_props": {k2: v2 for k2, v2 in rprops.items() if k2 != "store_path"}})
            else:
                if state in ("yaml", "populated"):
                    def as_int(v):
                        try:
                            return int(v)
                        except Exception:  # noqa: BLE001
                            return None
                    same = (as_int(rprops.get("store_depth")) == d and as_int(rprops.get("store_width")) == w
                            and rprops.get("store_algorithm") == a and rprops.get("store_metadata_namespace") == ns)
                    if not same:
                        run.violation({"kind": "mismatch-accepted", "keys": sorted(str(x) for x in mut)},
                                      "an existing store created with %s was opened with different properties %s" % (create, mut),
                                      {"state": state, "created_with": create, "reopen_props": {k2: v2 for k2, v2 in rprops.items() if k2 != "store_path"}})
                    if before != after:
                        diff = sorted(set(before) ^ set(after)) or [p for p in before if before[p] != after.get(p)]
                        run.violation({"kind": "reopen-wrote", "state": state}, "reopening an existing store modified files: %s" % diff[:4],
                                      {"state": state, "created_with": create})
                    for p, data in stored.items():
                        try:
                            s_ = hs2.retrieve_object(p)
                            got = s_.read()
                            s_.close()
                            s_ = hs2.retrieve_metadata(p)
                            got2 = s_.read()
                            s_.close()
                        except Exception as e:  # noqa: BLE001
                            got, got2 = "exn:" + exn_name(e), None
                        if got != data or got2 != data:
                            run.violation({"kind": "data-invisible"}, "after an accepted reopen the data of %s is not visible as before (%s)" % (p, str(got)[:30]),
                                          {"state": state, "created_with": create, "reopen_props": {k2: v2 for k2, v2 in rprops.items() if k2 != "store_path"}})
                elif state == "datadirs":
                    run.violation({"kind": "datadirs-accepted"}, "a directory holding store data but no configuration file was opened", {"state": state, "created_with": create})
                else:
                    if a not in ALGOS:
                        run.violation({"kind": "unsupported-accepted", "algorithm": a}, "a store was created with the unsupported store algorithm %r" % a, {"created_with": create})
            shutil.rmtree(sub, ignore_errors=True)
        # ---- namespaces / values that a hand-made YAML writer would mangle: what was created must be what reopens, and nothing else
        ODD_NS = ["http://ns.example.org/sysmeta #v2", "2.0", "yes", "null", "a: b", "'quoted'", "ns\ttab", "- item", "{x}", "~", "1e3", "http://x/y?z=1&w=2#frag", "Größe"]
        ESC_NS = ["urn:local\\types\\nceas-sysmeta-v1", 'say "hi"', "back\\slash\\", "50%", "a\\u0041b"]      # backslashes and double quotes (escapes inside a quoted YAML scalar)
        for i, ns_ in enumerate((ODD_NS if not quick else rng.sample(ODD_NS, 5)) + (ESC_NS if not quick else ESC_NS[:2] + rng.sample(ESC_NS[2:], 1))):
            sub = os.path.join(base, "odd%d" % i)
            os.makedirs(sub)
            root = os.path.join(sub, "store")
            mk = lambda n_: {"store_path": root, "store_depth": 3, "store_width": 2, "store_algorithm": "SHA-256", "store_metadata_namespace": n_}
            probs = []
            try:
                hs_ = F(mk(ns_))
                src = os.path.join(sub, "doc")
                with open(src, "wb") as fh:
                    fh.write(b"<doc/>")
                hs_.store_metadata("pid-odd", src)
                try:
                    hs2_ = F(mk(ns_))
                    s_ = hs2_.retrieve_metadata("pid-odd")
                    if s_.read() != b"<doc/>":
                        probs.append("default-format document not served after reopen")
                    s_.close()
                except Exception as e:  # noqa: BLE001
                    probs.append("reopening with the creation properties raised %s" % exn_name(e))
                for wrong in (ns_ + " ", ns_.split(" ")[0] if " " in ns_ else ns_ + "x", ns_.upper() if ns_.upper() != ns_ else ns_ + "X"):
                    if wrong == ns_:
                        continue
                    try:
                        F(mk(wrong))
                        probs.append("a store created with namespace %r was opened with %r" % (ns_, wrong))
                    except Exception:  # noqa: BLE001
                        pass
            except Exception as e:  # noqa: BLE001
                probs.append("creating a store with namespace %r raised %s" % (ns_, exn_name(e)))
            run.case("search-odd-namespaces", ns_, sample={"search": "namespaces that are not plain YAML scalars", "namespace": ns_})
            for pr in probs[:2]:
                run.violation({"kind": "odd-namespace"}, "metadata namespace %r: %s" % (ns_, pr), {"namespace": ns_})
            shutil.rmtree(sub, ignore_errors=True)
        # ---- histories at ONE path within one process: the store is removed and created again with another configuration;
        #      what pins the configuration is the hashstore.yaml that is there now, nothing remembered from earlier opens
        root = os.path.join(base, "reused", "store")
        prev = None
        for i in range(12 if quick else 80):
            cfg_ = (rng.randint(1, 5), rng.randint(1, 4), rng.choice(list(ALGOS)), rng.choice([DEFAULT_NS, NS2]))
            shutil.rmtree(os.path.dirname(root), ignore_errors=True)
            mk = lambda c_: {"store_path": root, "store_depth": c_[0], "store_width": c_[1], "store_algorithm": c_[2], "store_metadata_namespace": c_[3]}
            seq_ = []
            try:
                hs_ = F(mk(cfg_))
                seq_.append("create%s" % (cfg_,))
                src = os.path.join(base, "reuse-src")
                with open(src, "wb") as fh:
                    fh.write(b"reuse-%d" % i)
                hs_.store_object("pid-reuse", src)
                F(mk(cfg_))
                seq_.append("open-same")
                ok_same = True
            except Exception as e:  # noqa: BLE001
                ok_same = False
                seq_.append("raised " + exn_name(e))
            run.case("search-path-reuse", (i, cfg_), sample={"search": "one path, store removed and re-created", "configuration": list(cfg_), "previous": list(prev) if prev else None})
            if not ok_same:
                run.violation({"kind": "reuse-refused"}, "a store re-created at a path that earlier held a store with %s cannot be created / opened with its own configuration %s (%s)" % (prev, cfg_, seq_),
                              {"previous": prev, "configuration": cfg_})
            elif prev is not None and prev != cfg_:
                try:
                    F(mk(prev))
                    run.violation({"kind": "reuse-stale-accepted"}, "a store created with %s at a path that earlier held one created with %s is opened with the EARLIER configuration" % (cfg_, prev),
                                  {"previous": prev, "configuration": cfg_})
                except Exception:  # noqa: BLE001
                    pass
            prev = cfg_
    finally:
        shutil.rmtree(base, ignore_errors=True)


CHECKS["C14"] = c14


# ====================================================================== C01

class RecordingReader(io.BufferedReader):
    """a buffered binary stream that records the sizes returned by read(n)"""

    def __init__(self, raw):
        super().__init__(raw)
        self.reads = []
        self.requested = []

    def read(self, n=-1):
        r = super().read(n)
        self.requested.append(n)
        self.reads.append(len(r))
        return r


def c01(run):
    rng = random.Random(run.seed)
    quick = run.tier == "quick"
    base = scratch_root()
    try:
        probe = os.path.join(base, "probe")
        open(probe, "wb").close()
        from universe import impl_buffer_size
        bsf = impl_buffer_size("file")           # buffer size the implementation uses for file-backed data (measured on the live Stream)
        bsm = impl_buffer_size("mem")            # ... and for in-memory streams (no .name)
        kinds = ["str", "Path", "file", "file@mid", "file@end", "bytesio", "bytesio@mid", "bufreader", "rwfile-unflushed", "file-path-replaced"]
        n = 0
        stores = {}
        for a in ALGOS:
            sub = os.path.join(base, "st-" + a)
            os.makedirs(sub)
            stores[a] = new_store(sub, algo=a)[0]
        sizes_for = lambda bs: sorted({0, 1, 2, bs - 1, bs, bs + 1, 2 * bs - 1, 2 * bs, 2 * bs + 1, 3 * bs + 7, rng.randint(2, 5 * bs)} |
                                      (set() if quick else {5 * bs, 1 << 20, (1 << 20) + 1}))
        cases = []
        for kind in kinds:
            bs = bsf if kind in ("str", "Path", "file", "file@mid", "file@end") else bsm
            for size in sizes_for(bs):
                algos = list(ALGOS) if (not quick or size in (0, bs, 2 * bs + 1)) else [rng.choice(list(ALGOS))]
                for a in algos:
                    cases.append((kind, size, a, bs))
        small = sorted({(bs, size) for (_, size, _, bs) in cases if size <= 200000})      # the model's lists are unary: 1 MiB is checked by the oracle only
        want_chunks = dict(zip(small, layerA(["chunks %d %d" % k_ for k_ in small])))
        for kind, size, a, bs in cases:
            n += 1
            hs = stores[a]
            data = os.urandom(size)
            src = os.path.join(base, "src-%d" % n)
            with open(src, "wb") as fh:
                fh.write(data)
            pid = "pid-%s-%d" % (a, n)
            off = {"file@mid": size // 2, "file@end": size, "bytesio@mid": size // 3}.get(kind, 0)
            rec = None
            stream = None
            if kind == "str":
                arg = src
            elif kind == "Path":
                arg = Path(src)
            elif kind == "rwfile-unflushed":
                # a read/write binary stream whose content has been written but not flushed: the stream IS the data
                rw = os.path.join(base, "rw-%d" % n)
                stream = open(rw, "w+b")
                stream.write(data)
                stream.seek(0)
                arg = stream
            elif kind == "file-path-replaced":
                # the stream was opened, then another file was renamed over its path: the stream still holds the original bytes
                stream = open(src, "rb")
                other_f = os.path.join(base, "other-%d" % n)
                with open(other_f, "wb") as fh:
                    fh.write(b"completely different content " * 3)
                os.replace(other_f, src)
                arg = stream
            elif kind.startswith("file"):
                stream = RecordingReader(io.FileIO(src, "r"))
                stream.seek(off)
                arg = rec = stream
            elif kind.startswith("bytesio"):
                stream = io.BytesIO(data)
                stream.seek(off)
                arg = stream
            else:
                stream = RecordingReader(io.BytesIO(data))
                arg = rec = stream
            try:
                m = hs.store_object(pid, arg)
                out = "ok"
            except Exception as e:  # noqa: BLE001
                m, out = None, "exn:" + exn_name(e)
            key = (kind, size, a)
            run.case("P-stream", key, nontrivial=size > 0, sample={"projection": "P-stream", "kind": kind, "size": size, "algorithm": a, "buffer": bs, "outcome": out})
            run.count("kind", kind)
            replay = {"kind": kind, "size": size, "algorithm": a, "offset": off}
            if m is None:
                run.violation({"kind": "store-raised", "data": kind, "exn": out}, "store_object(pid, <%s of %d bytes>) raised %s" % (kind, size, out[4:]), replay)
                continue
            # correspondence: the sequence of non-empty reads is the model's chunking of the content
            if rec is not None and isinstance(rec, RecordingReader) and (bs, size) in want_chunks:
                got = [x for x in rec.reads if x > 0]
                want = [int(x) for x in want_chunks[(bs, size)].split(",")] if want_chunks[(bs, size)] != "-" else []
                file_backed = kind.startswith("file")
                if not file_backed or True:
                    # FileIO has no .name problems: BufferedReader over FileIO has .name = path -> blksize of the file
                    if got != want:
                        run.disagree("P-stream/chunks", replay, want[:6], got[:6], ["C01_chunks_concat", "C01_chunks_bounds"])
            # property oracle
            cid = hashlib.new(ALGOS[a], data).hexdigest() if kind == "file-path-replaced" else independent_digest(ALGOS[a], src, data)
            if kind == "rwfile-unflushed":
                cid = hashlib.new(ALGOS[a], data).hexdigest()
            if m.cid != cid or m.obj_size != size:
                run.violation({"kind": "cid-size", "data": kind}, "store_object reported cid/size %s.../%s for content of %d bytes whose %s digest is %s..." % (m.cid[:12], m.obj_size, size, a, cid[:12]), replay)
            try:
                s_ = hs.retrieve_object(pid)
                got = s_.read()
                s_.close()
            except Exception as e:  # noqa: BLE001
                got = "exn:" + exn_name(e)
            if got != data:
                run.violation({"kind": "bytes", "data": kind}, "retrieve_object after store_object(<%s, %d bytes>) does not return the stored bytes (%s)" % (kind, size, str(got)[:30]), replay)
            if stream is not None:
                if stream.closed:
                    run.violation({"kind": "stream-closed", "data": kind}, "the caller's stream (%s) was closed by store_object" % kind, replay)
                elif stream.tell() != off:
                    run.violation({"kind": "stream-offset", "data": kind}, "the caller's stream (%s) was left at offset %d, it was supplied at %d" % (kind, stream.tell(), off), replay)
                if not stream.closed:
                    stream.close()
            if os.path.exists(src):
                os.remove(src)
        # ---- "together with the true byte size": expected sizes on and around multiples of the read buffer (shared with C06)
        import checks as _checks
        _checks.c06_sizes(run)
        # ---- histories of other calls between the store and the retrieve
        n_hist = 12 if quick else 150
        for hno in range(n_hist):
            a = rng.choice(list(ALGOS))
            sub = os.path.join(base, "h%d" % hno)
            os.makedirs(sub)
            hs, root = new_store(sub, algo=a)
            data = os.urandom(rng.choice([0, 1, 700, bsf + 1, 3 * bsf]))
            other = os.urandom(33)
            src, osrc = os.path.join(sub, "x"), os.path.join(sub, "o")
            for p_, d_ in ((src, data), (osrc, other)):
                with open(p_, "wb") as fh:
                    fh.write(d_)
            log = []
            if hno % 2 == 1:
                # a related pid (the watched pid is a suffix of it) holds the same content BEFORE the watched pid is stored
                hs.store_object("x-the-pid", src)
                log.append("store_object(x-the-pid, same) ok [before the watched store]")
            m = hs.store_object("the-pid", src)
            # every third history: the calls "on other pids" use the OTHER Unicode normal form of a second watched pid
            nfc_pid, nfd_pid = "r\u00e9sum\u00e9-pid", "re\u0301sume\u0301-pid"
            if hno % 3 == 2:
                hs.store_object(nfc_pid, src)
                for nm_, fn_ in (("delete_object", lambda: hs.delete_object(nfd_pid)), ("delete_metadata", lambda: hs.delete_metadata(nfd_pid)),
                                 ("tag_object", lambda: hs.tag_object(nfd_pid, m.cid)), ("delete_object", lambda: hs.delete_object(nfd_pid))):
                    try:
                        fn_()
                        log.append("%s(<NFD form of a stored NFC pid>) ok" % nm_)
                    except Exception as e:  # noqa: BLE001
                        log.append("%s(<NFD form of a stored NFC pid>) %s" % (nm_, exn_name(e)))
                    try:
                        s3 = hs.retrieve_object(nfc_pid)
                        g3 = s3.read()
                        s3.close()
                    except Exception as e:  # noqa: BLE001
                        g3 = "exn:" + exn_name(e)
                    if g3 != data:
                        run.violation({"kind": "history-normal-forms"}, "after [%s] the pid stored in NFC form is no longer served (%s): calls on its NFD spelling are calls on ANOTHER pid" % (
                            "; ".join(log), str(g3)[:30]), {"algorithm": a, "history": log})
                        break
            wrong = "0" * len(m.cid)
            menu = [
                ("store_object(q, same)", lambda q: hs.store_object(q, src)),
                ("store_object(q, other)", lambda q: hs.store_object(q, osrc)),
                ("store_object(q, same, wrong checksum)", lambda q: hs.store_object(q, src, None, wrong, a)),
                ("store_object(None, same)", lambda q: hs.store_object(None, src)),
                ("tag_object(q, cid)", lambda q: hs.tag_object(q, m.cid)),
                ("delete_object(q)", lambda q: hs.delete_object(q)),
                ("delete_if_invalid_object(meta, wrong)", lambda q: hs.delete_if_invalid_object(m, wrong, a, len(data) or 1)),
                ("delete_if_invalid_object(meta, wrong size)", lambda q: hs.delete_if_invalid_object(m, m.cid, a, len(data) + 1)),
                ("store_metadata(q)", lambda q: hs.store_metadata(q, osrc)),
                ("store_metadata(the-pid)", lambda q: hs.store_metadata("the-pid", osrc)),
                ("delete_metadata(q)", lambda q: hs.delete_metadata(q)),
                ("delete_metadata(the-pid)", lambda q: hs.delete_metadata("the-pid")),
                ("store_object(the-pid, other)", lambda q: hs.store_object("the-pid", osrc)),
                ("tag_object(the-pid, cid)", lambda q: hs.tag_object("the-pid", m.cid)),
                ("get_hex_digest(q)", lambda q: hs.get_hex_digest(q, "md5")),
            ]
            # corpus first: related identifiers sharing the content are stored and deleted around the watched pid
            RELATED = ["x-the-pid", "pid", "THE-PID", "the-pi", "the-pid-2"]
            scripted = []
            if hno < 2 * len(RELATED):
                rq = RELATED[hno // 2]
                scripted = [("store_object(q, same)", rq), ("delete_object(q)", rq)] if hno % 2 == 0 else [("delete_object(q)", "x-the-pid"), ("store_object(q, same)", rq), ("delete_object(q)", rq)]
            by_name = dict(menu)
            for step in range(len(scripted) + rng.randint(3, 10 if quick else 25)):
                if step < len(scripted):
                    name, q = scripted[step]
                    fn = by_name[name]
                else:
                    name, fn = rng.choice(menu)
                    q = rng.choice(["q1", "q2", "the-pid-2", "the-pi", "x-the-pid", "pid", "THE-PID"])
                try:
                    fn(q)
                    log.append(name.replace("q", q, 1) + " ok")
                    # a store_object that RETURNED is a store of those bytes: the pid it names serves them at once
                    if name.startswith("store_object(") and "None" not in name:
                        who = "the-pid" if "the-pid" in name else q
                        want_b = other if "other" in name else data
                        try:
                            s2 = hs.retrieve_object(who)
                            got2 = s2.read()
                            s2.close()
                        except Exception as e2:  # noqa: BLE001
                            got2 = "exn:" + exn_name(e2)
                        if got2 != want_b:
                            run.violation({"kind": "history-store-ok", "last": name}, "after [%s] the store_object that just returned success is not served back (retrieve_object(%s) gives %s)" % (
                                "; ".join(log), who, str(got2)[:30]), {"algorithm": a, "size": len(data), "history": log})
                            break
                except Exception as e:  # noqa: BLE001
                    log.append(name.replace("q", q, 1) + " " + exn_name(e))
                try:
                    s_ = hs.retrieve_object("the-pid")
                    got = s_.read()
                    s_.close()
                except Exception as e:  # noqa: BLE001
                    got = "exn:" + exn_name(e)
                if got != data:
                    run.violation({"kind": "history", "last": name}, "after [%s] retrieve_object(the-pid) no longer returns the stored bytes (%s)" % ("; ".join(log), str(got)[:30]),
                                  {"algorithm": a, "size": len(data), "history": log})
                    break
            run.case("search-histories", (hno,), sample={"search": "calls on other pids between store and retrieve", "history": log[:8]})
            shutil.rmtree(sub, ignore_errors=True)
    finally:
        shutil.rmtree(base, ignore_errors=True)


CHECKS["C01"] = c01


# ====================================================================== C19

def c19(run):
    import seq
    import oracles
    from universe import Universe, history_line, token_line
    rng = random.Random(run.seed)
    quick = run.tier == "quick"
    A = seq.alphabet("all", contents={7: 1, 8: 1}, pids=(1, 2, 3))
    n_cases = 120 if quick else 1500
    ALG_PRE = ["SHA-256", "sha256", "MD5", "SHA-1", "sha-384", "SHA_512"]
    ALG_OTHER = ["sha3_256", "SHA3-256", "sha224", "blake2b", "BLAKE2S", "sha3_512"]
    for k in range(n_cases):
        u = Universe()
        prefix = seq.random_history(rng, A, rng.randint(0, 6))
        for c in prefix:
            seq.decorate(rng, c)
        p, b = rng.choice([1, 2, 3]), rng.choice([7, 8])
        mode = rng.choice(["absent", "correct", "correct", "wrongck", "wrongsz", "correct-nondefault", "wrongck-nondefault", "wrongck-other", "wrongboth"])
        pre = "nondefault" not in mode
        algo = rng.choice(ALG_PRE if pre else ALG_OTHER)
        case_ = rng.choice(["lower", "upper"])
        if mode == "absent":
            sz, ck = "n", "n"
        elif mode.startswith("correct"):
            sz, ck = rng.choice(["o", "n"]), "o"
        elif mode == "wrongboth":
            sz, ck = "b", "b"
        elif mode == "wrongck-other":
            sz, ck = "n", "x"
        elif mode.startswith("wrongck"):
            sz, ck = rng.choice(["o", "n"]), "b"
        else:
            sz, ck = "b", "o"
        real = {"algo": algo, "case": case_}
        if mode in ("wrongck", "wrongck-nondefault", "correct-nondefault") and rng.random() < 0.5:
            real["add"] = rng.choice([algo, algo.lower(), algo.upper()])      # the additional algorithm names the checksum algorithm too
        if mode == "wrongck-other":
            # the checksum supplied is the digest of the OTHER content, which is put into the store first (same length)
            ob = 15 - b
            prefix = prefix + [{"op": "so", "p": None, "b": ob, "n": 1}]
            real["algo"] = "SHA-256"
            real["other_data"] = Universe().content(ob, 1)
            pre = True
        one = [dict(c) for c in prefix] + [{"op": "so", "p": p, "b": b, "n": 1, "sz": sz, "ck": ck, "real": dict(real)}]
        steps = [dict(c) for c in prefix] + [{"op": "so", "p": None, "b": b, "n": 1}]
        if ck != "n":
            steps.append({"op": "dii", "c": b, "sz": sz, "pre": pre, "ok": ck == "o", "real": dict(real)})
        steps.append({"op": "tag", "p": p, "c": b})
        res = {}
        for _ in range(2):      # contents first, then the never-stored cids (registering a content rebuilds the cid table)
            seq.prepare(u, one)
            seq.prepare(u, steps)
        for name, h in (("one", one), ("steps", steps)):
            ms = seq.run_model([h])[0]
            outs = []
            # the stepwise procedure stops at the first call that raises
            def runit(h=h):
                from universe import Impl
                ps, fs = seq.ids_of(h)
                im = Impl(u, ps, fs)
                r = []
                try:
                    for i, c in enumerate(h):
                        o = im.gcall(c)
                        r.append((o, im.state(), {}))
                        if o == "exn:HANG":
                            run.violation({"kind": "does-not-return", "procedure": name}, "%s procedure: call [%s] does not return after [%s]" % (
                                name, token_line(c), " ; ".join(token_line(x) for x in h[:i])), {"history": seq.strip(h[:i + 1]), "line": history_line("states", h[:i + 1])})
                            break
                        if name == "steps" and i >= len(prefix) and o.startswith("exn:"):
                            break
                    return r, [c.get("_meta") for c in h]
                finally:
                    im.close()
            ires, metas = runit()
            for i, (m_, i_) in enumerate(zip(ms, ires)):
                d = seq.diff_step(m_, i_)
                if d:
                    run.disagree("P-seq[C19]", {"procedure": name, "line": history_line("states", h), "step": i}, m_[0], i_[0] + " " + d[:200],
                                 ["C19_converge_valid", "C19_converge_invalid"])
                    break
            res[name] = (ires, metas)
        (r1, m1), (r2, m2) = res["one"], res["steps"]
        st1, st2 = r1[-1][1], r2[-1][1]
        o1, o2 = r1[-1][0], r2[-1][0]
        key = (tuple(token_line(c) for c in prefix), p, b, mode)
        run.case("P-seq[C19]", key, nontrivial=True, sample={"projection": "P-seq[C19]", "prefix": [token_line(c) for c in prefix], "pid": p, "content": b,
                                                             "validation": mode, "algorithm": algo, "one_call": o1, "in_steps": o2})
        run.count("validation", mode)
        run.count("one_call_outcome", o1.split(":")[1] if o1.startswith("exn") else "ok")
        replay = {"prefix": seq.strip(prefix), "pid": p, "content": b, "validation": mode, "algorithm": algo, "case": case_}
        before = r1[len(prefix) - 1][1] if prefix else {}
        if mode == "absent" or mode.startswith("correct"):
            if st1 != st2:
                km = {k_: v for k_, v in st1.items() if st2.get(k_) != v}
                ki = {k_: v for k_, v in st2.items() if st1.get(k_) != v}
                run.violation({"kind": "states-differ", "validation": mode}, "one call and in-steps leave different states (validation %s): only-one-call %s, only-in-steps %s; prefix [%s]" % (
                    mode, km, ki, "; ".join(token_line(c) for c in prefix)), replay)
            c1 = (o1.split(":")[0], o1.split(":")[1] if o1.startswith("exn") else "")
            c2 = (o2.split(":")[0], o2.split(":")[1] if o2.startswith("exn") else "")
            if c1 != c2:
                run.violation({"kind": "outcomes-differ", "validation": mode}, "one call ends with %s, in-steps with %s (validation %s)" % (o1, o2, mode), replay)
            ma, mb = m1[len(prefix)], m2[len(prefix)]
            if ma is not None and mb is not None:
                five = ("md5", "sha1", "sha256", "sha384", "sha512")
                if (ma.cid, ma.obj_size, {a_: ma.hex_digests[a_] for a_ in five}) != (mb.cid, mb.obj_size, {a_: mb.hex_digests[a_] for a_ in five}):
                    run.violation({"kind": "reports-differ"}, "the two procedures report different cid / size / default digests", replay)
        else:
            want = "exn:NonMatchingObjSize" if mode in ("wrongsz", "wrongboth") else "exn:NonMatchingChecksum"
            b1, _, _, _, _ = oracles.refs_of(st1)
            b2, _, _, _, _ = oracles.refs_of(st2)
            b0, l0, obj0, _, _ = oracles.refs_of(before)
            if o1 != want or o2 != want:
                # a pid that is already bound, or a rejected argument, legitimately pre-empts the mismatch in neither procedure
                run.violation({"kind": "mismatch-class", "validation": mode}, "incorrect validation data (%s): one call -> %s, in steps -> %s, expected %s in both" % (mode, o1, o2, want), replay)
            for nm, bb, st in (("one call", b1, st1), ("in steps", b2, st2)):
                if bb.get(str(p)) != b0.get(str(p)):
                    run.violation({"kind": "bound-after-invalid", "proc": nm}, "%s with incorrect validation data left pid %d bound to %s" % (nm, p, bb.get(str(p))), replay)
                for cid, lst in l0.items():
                    if lst and cid in obj0 and st.get("O" + cid) != before.get("O" + cid):
                        run.violation({"kind": "referenced-disturbed", "proc": nm}, "%s with incorrect validation data disturbed referenced object %s" % (nm, cid), replay)


CHECKS["C19"] = c19


# ====================================================================== C20

VERB_FLAGS = ["-getchecksum", "-storeobject", "-storemetadata", "-retrieveobject", "-retrievemetadata", "-deleteobject", "-deletemetadata"]
VERB_API = {"-getchecksum": "get_hex_digest", "-storeobject": "store_object", "-storemetadata": "store_metadata",
            "-retrieveobject": "retrieve_object", "-retrievemetadata": "retrieve_metadata", "-deleteobject": "delete_object",
            "-deletemetadata": "delete_metadata"}


def show_py(v):
    if v is None:
        return "N"
    if v is True:
        return "T"
    if v is False:
        return "U"
    if isinstance(v, int):
        return "I%d" % v
    if isinstance(v, str):
        return "S" + hx(v)
    if isinstance(v, Path):
        return "P" + hx(str(v))
    return "Z"


def run_client(argv):
    """hashstoreclient.main() in-process -> (stdout, exception class or None, calls that reached the API)"""
    import contextlib
    import hashstore.hashstoreclient as hc
    F = fhs().FileHashStore
    calls = []
    saved = {}
    for name in VERB_API.values():
        orig = getattr(F, name)
        saved[name] = orig

        def mk(name, orig):
            def wrapper(self, *a, **k):
                calls.append((name, a, k))
                return orig(self, *a, **k)
            return wrapper
        setattr(F, name, mk(name, orig))
    out = io.StringIO()
    old_argv = sys.argv
    sys.argv = ["hashstore"] + argv
    exn = None
    try:
        with contextlib.redirect_stdout(out), contextlib.redirect_stderr(io.StringIO()):
            hc.main()
    except SystemExit as e:
        exn = "SystemExit"
    except Exception as e:  # noqa: BLE001
        exn = exn_name(e)
    finally:
        sys.argv = old_argv
        for name, orig in saved.items():
            setattr(F, name, orig)
    return out.getvalue(), exn, calls


def c20(run):
    rng = random.Random(run.seed)
    quick = run.tier == "quick"
    base = scratch_root()
    F = fhs().FileHashStore
    try:
        DATAS = [("object-content-for-the-client " * 7).encode(), b"line one\r\nline two\rline three\n" * 5,
                 ("\u00e9\u4e2d\U0001F600 text " * 150).encode("utf-8")]
        DOCS = [b"<metadata>for the client</metadata>", b"<m>\r\n</m>\r\n", ("<m>" + "\u00fc" * 1500 + "</m>").encode("utf-8")]
        data, doc = DATAS[0], DOCS[0]
        src = os.path.join(base, "obj.bin")
        dsrc = os.path.join(base, "doc.xml")
        with open(src, "wb") as fh:
            fh.write(data)
        with open(dsrc, "wb") as fh:
            fh.write(doc)
        sha = hashlib.sha256(data).hexdigest()
        VALUES = {
            "-pid": ["client-pid", "bound-pid", "unknown-pid"],
            "-path": [src, dsrc, os.path.join(base, "missing")],
            "-algo": ["SHA-256", "sha3_256", "md5", "blake2b", "nonsense", "SHA-224"],
            "-checksum": [sha, sha.upper(), "0" * 64, hashlib.md5(data).hexdigest()],
            "-checksum_algo": ["SHA-256", "sha256", "MD5", "nonsense"],
            "-obj_size": [str(len(data)), str(len(data) + 1), "0", "-3", "abc", "5.0", " %d " % len(data), "1_0"],
            "-formatid": [DEFAULT_NS, "http://other/ns", "fmt2"],
        }
        OPTS = list(VALUES)
        n_cases = 160 if quick else 2500
        corpus = [("-storeobject", {"-pid": "client-pid", "-path": src, "-obj_size": str(len(data))}),
                  ("-storeobject", {"-pid": "client-pid", "-path": src, "-checksum": sha, "-checksum_algo": "SHA-256", "-algo": "sha3_256"}),
                  ("-deletemetadata", {"-pid": "bound-pid"}),
                  ("-retrievemetadata", {"-pid": "bound-pid"}),
                  ("-getchecksum", {"-pid": "bound-pid", "-algo": "md5"})]
        for k in range(n_cases):
            if k < len(corpus):
                verb, opts = corpus[k]
            else:
                verb = rng.choice(VERB_FLAGS)
                relevant = {"-getchecksum": ["-pid", "-algo"], "-storeobject": OPTS[:6], "-storemetadata": ["-pid", "-path", "-formatid"],
                            "-retrieveobject": ["-pid"], "-retrievemetadata": ["-pid", "-formatid"], "-deleteobject": ["-pid"],
                            "-deletemetadata": ["-pid", "-formatid"]}[verb]
                opts = {}
                for o in OPTS:
                    pr = 0.8 if o in relevant[:2] else (0.45 if o in relevant else 0.08)
                    if rng.random() < pr:
                        opts[o] = rng.choice(VALUES[o])
                if verb == "-storemetadata" and "-path" in opts and rng.random() < 0.7:
                    opts["-path"] = dsrc
            # two copies of one store: bound-pid stored with two metadata documents; the content rotates (plain / CR LF / long multi-byte)
            if verb in ("-retrieveobject", "-retrievemetadata") or k % 5 == 0:
                vi = k % 3
                with open(src, "wb") as fh:
                    fh.write(DATAS[vi])
                with open(dsrc, "wb") as fh:
                    fh.write(DOCS[vi])
            sub = os.path.join(base, "k%d" % k)
            os.makedirs(sub)
            roots = []
            store_ns = DEFAULT_NS if k % 2 == 0 else "http://other/ns"
            for nm in ("A", "B"):
                hs, root = new_store(sub, name=nm, ns=store_ns)
                hs.store_object("bound-pid", src)
                hs.store_metadata("bound-pid", dsrc)
                hs.store_metadata("bound-pid", dsrc, "fmt2")
                roots.append(root)
            rootA, rootB = roots
            argv = [rootA, verb] + ["%s=%s" % (o, v) for o, v in opts.items()]
            out, exn, calls = run_client(argv)
            # ---- correspondence with the model's option -> call mapping
            enc = lambda o: "N" if o not in opts else "S" + hx(opts[o])
            flags = "".join("1" if f == verb else "0" for f in VERB_FLAGS)
            gm = layerA(["client 1 %s %s %s %s %s %s %s %s %s" % (hx(store_ns), enc("-pid"), enc("-path"), enc("-algo"), enc("-checksum"),
                                                                   enc("-checksum_algo"), enc("-obj_size"), enc("-formatid"), flags)])[0]
            api_calls = [c for c in calls if c[0] == VERB_API[verb]]
            if api_calls:
                name, a, kw = api_calls[0]
                gi = "call %s %s" % (name, " ".join(show_py(x) for x in a))
            elif exn is not None:
                gi = "exn " + exn
            else:
                gi = "nothing"
            key = (verb, tuple(sorted(opts.items())))
            run.case("P-client", key, nontrivial=bool(api_calls), sample={"projection": "P-client", "argv": argv[1:], "model": gm[:80], "impl": gi[:80]})
            run.count("verb", verb)
            run.count("reached_api", str(bool(api_calls)))
            if gm != gi:
                run.disagree("P-client", {"argv": argv[1:]}, gm, gi, ["C20_client_types_fixed", "C20_client_values_storeobject"])
            # ---- property oracle: same effect and same report as the API call with those values (independent mapping)
            size = opts.get("-obj_size")
            api_exn, api_ret = None, None
            hsB = F({"store_path": rootB, "store_depth": 3, "store_width": 2, "store_algorithm": "SHA-256", "store_metadata_namespace": store_ns})
            fmt = opts.get("-formatid", store_ns)
            need = {"-getchecksum": ["-pid", "-algo"], "-storeobject": ["-pid", "-path"], "-storemetadata": ["-pid", "-path"]}.get(verb, ["-pid"])
            skip_api = any(o not in opts for o in need)
            size_int = None
            if size is not None and verb == "-storeobject":
                try:
                    size_int = int(size)
                except ValueError:
                    skip_api = True           # not an integer: the client must refuse (ValueError), nothing to compare with
            try:
                if skip_api:
                    api_exn = "ValueError"
                elif verb == "-getchecksum":
                    api_ret = hsB.get_hex_digest(opts["-pid"], opts["-algo"])
                elif verb == "-storeobject":
                    api_ret = hsB.store_object(opts["-pid"], opts["-path"], opts.get("-algo"), opts.get("-checksum"), opts.get("-checksum_algo"), size_int)
                elif verb == "-storemetadata":
                    api_ret = hsB.store_metadata(opts["-pid"], opts["-path"], fmt)
                elif verb == "-retrieveobject":
                    s_ = hsB.retrieve_object(opts["-pid"])
                    api_ret = s_.read(1000).decode("utf-8")
                    s_.close()
                elif verb == "-retrievemetadata":
                    s_ = hsB.retrieve_metadata(opts["-pid"], fmt)
                    api_ret = s_.read(1000).decode("utf-8")
                    s_.close()
                elif verb == "-deleteobject":
                    hsB.delete_object(opts["-pid"])
                elif verb == "-deletemetadata":
                    hsB.delete_metadata(opts["-pid"], fmt)
            except Exception as e:  # noqa: BLE001
                api_exn = exn_name(e)
            tA = {p: v for p, v in tree(rootA).items() if not p.endswith(".log")}
            tB = {p: v for p, v in tree(rootB).items() if not p.endswith(".log")}
            replay = {"argv": argv[1:], "client_exception": exn, "api_exception": api_exn}
            if exn != api_exn:
                run.violation({"kind": "outcome", "verb": verb, "client": exn, "api": api_exn},
                              "client %s %s ends with %s, the API call with those values with %s" % (verb, opts, exn, api_exn), replay)
            elif tA != tB:
                diff = sorted(set(tA) ^ set(tB)) or [p for p in tA if tA[p] != tB.get(p)]
                run.violation({"kind": "effect", "verb": verb}, "client %s %s leaves a different store than the API call: %s" % (verb, opts, diff[:3]), replay)
            elif exn is None and api_ret is not None:
                if verb == "-getchecksum" and api_ret not in out:
                    run.violation({"kind": "report", "verb": verb}, "client -getchecksum does not report the digest the API returns", replay)
                if verb == "-storeobject" and (api_ret.cid not in out or any(v not in out for v in api_ret.hex_digests.values()) or str(api_ret.obj_size) not in out):
                    run.violation({"kind": "report", "verb": verb}, "client -storeobject does not report the cid / size / digests the API returns", replay)
                if verb == "-storemetadata" and os.path.relpath(str(api_ret), rootB) not in out.replace(rootA + "/", ""):
                    run.violation({"kind": "report", "verb": verb}, "client -storemetadata does not report the path the API returns", replay)
                if verb in ("-retrieveobject", "-retrievemetadata") and api_ret not in out:
                    run.violation({"kind": "report", "verb": verb}, "client %s does not print the content the API returns" % verb, replay)
            shutil.rmtree(sub, ignore_errors=True)
        # ---- create with the client, open with the API, and vice versa
        grid = [(d, w, a, ns) for d in (1, 3, 5) for w in (1, 2, 4) for a in list(ALGOS) + ["SHA-224", "sha256"] for ns in (DEFAULT_NS, "http://other/ns")]
        rng.shuffle(grid)
        for k, (d, w, a, ns) in enumerate(grid[: (30 if quick else len(grid))]):
            sub = os.path.join(base, "c%d" % k)
            os.makedirs(sub)
            root = os.path.join(sub, "st")
            out, exn, _ = run_client([root, "-chs", "-dp=%d" % d, "-wp=%d" % w, "-ap=" + a, "-nsp=" + ns])
            props = {"store_path": root, "store_depth": d, "store_width": w, "store_algorithm": a, "store_metadata_namespace": ns}
            try:
                F(dict(props))
                api = None
            except Exception as e:  # noqa: BLE001
                api = exn_name(e)
            run.case("P-client/create", (d, w, a, ns), sample={"projection": "P-client/create", "props": [d, w, a, ns], "client": exn, "api_open": api})
            ok_algo = a in ALGOS
            if ok_algo and (exn is not None or api is not None):
                run.violation({"kind": "create-open"}, "store created by the client with %s is not opened by the API with the same properties (client %s, API %s)" % ((d, w, a, ns), exn, api),
                              {"props": [d, w, a, ns]})
            if not ok_algo and exn is None:
                run.violation({"kind": "create-unsupported"}, "client created a store with unsupported algorithm %s" % a, {"props": [d, w, a, ns]})
            # a second -chs on the existing store with conflicting properties is refused, exactly as the API refuses it
            if ok_algo and exn is None:
                d2_ = d + 1
                before_ = tree(root)
                out2, exn_c, _ = run_client([root, "-chs", "-dp=%d" % d2_, "-wp=%d" % w, "-ap=" + a, "-nsp=" + ns])
                try:
                    F(dict(props, store_depth=d2_))
                    api_c = None
                except Exception as e:  # noqa: BLE001
                    api_c = exn_name(e)
                after_ = {p_: v_ for p_, v_ in tree(root).items() if not p_.endswith(".log")}
                before_ = {p_: v_ for p_, v_ in before_.items() if not p_.endswith(".log")}
                if exn_c != api_c or after_ != before_:
                    run.violation({"kind": "create-again"}, "-chs on an existing store with a different depth: client %s, API %s%s" % (exn_c, api_c, "" if after_ == before_ else "; the store changed"),
                                  {"props": [d, w, a, ns], "second_depth": d2_})
            # vice versa
            root2 = os.path.join(sub, "st2")
            props["store_path"] = root2
            if ok_algo:
                F(dict(props))
                out, exn2, calls = run_client([root2, "-retrieveobject", "-pid=nobody"])
                if exn2 != "PidRefsDoesNotExist":
                    run.violation({"kind": "api-create-client-open"}, "a store created by the API with %s is not usable by the client (%s)" % ((d, w, a, ns), exn2), {"props": [d, w, a, ns]})
            shutil.rmtree(sub, ignore_errors=True)
    finally:
        shutil.rmtree(base, ignore_errors=True)


CHECKS["C20"] = c20
