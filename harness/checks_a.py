"""checks_a — checks whose theorems live in the layer-A (pure) files: C15 layout, C18 identifiers,
C02 algorithms, C17 argument rejection, C14 configuration, C01 streams, C20 client.
Each function runs (1) the correspondence projections between the extracted layer-A functions
(modelrun 'A ...' commands) and the implementation in /repo/src, and (2) an implementation-side
search whose oracle is written from the property text and does not use the model."""
import hashlib
import io
import json
import os
import random
import shutil
import sys
import tempfile
from pathlib import Path

import model
from universe import REPO, scratch_root, exn_name, DEFAULT_NS

ALGOS = {"MD5": "md5", "SHA-1": "sha1", "SHA-256": "sha256", "SHA-384": "sha384", "SHA-512": "sha512"}


def hx(s):
    """str -> hex0 of its UTF-8 bytes (the layer-A front end is byte-level)"""
    b = s.encode("utf-8") if isinstance(s, str) else s
    return b.hex() if b else "-"


def cps(s):
    return ",".join(str(ord(ch)) for ch in s) if s else "-"


def uncps(s):
    return "" if s == "-" else "".join(chr(int(x)) for x in s.split(","))


def layerA(lines):
    return model.run_lines(["A " + ln for ln in lines])


def fhs():
    import hashstore.filehashstore as m
    return m


def new_store(base, depth=3, width=2, algo="SHA-256", ns=DEFAULT_NS, name="store"):
    root = os.path.join(base, name)
    props = {"store_path": root, "store_depth": depth, "store_width": width,
             "store_algorithm": algo, "store_metadata_namespace": ns}
    return fhs().FileHashStore(props), root


def tree(root, with_dirs=False, mtime=False):
    """relative path -> bytes (files); with_dirs: directories map to None"""
    out = {}
    for dp, dn, fn in os.walk(root):
        dn.sort()
        rel = os.path.relpath(dp, root)
        if with_dirs and rel != ".":
            out[rel + "/"] = None
        for f in fn:
            p = os.path.join(dp, f)
            r = os.path.relpath(p, root)
            with open(p, "rb") as fh:
                data = fh.read()
            out[r] = (data, os.stat(p).st_mtime_ns) if mtime else data
    return out


def readme_shard(d, w, h):
    """independent implementation of the README layout: depth tokens of width characters, then the remainder"""
    toks = []
    pos = 0
    for _ in range(d):
        toks.append(h[pos:pos + w])
        pos += w
    toks.append(h[pos:])
    return [t for t in toks if t != ""]


ADVERSARIAL = [
    "doi:10.5063/F1.obj.7", "obj.7", "doi:10.5063/F1", "OBJ.7", "Obj.7", "../../etc/passwd", "..", ".", "./x", "/abs/path",
    "-rf", "--help", ".hidden", "a/b/c", "a\\b", "*", "?", "[a-z]*", "$(touch${IFS}pwned)", "`id`", ";rm", "a|b", "a&b", "%s%n",
    "jtao.1700.1", "urn:uuid:1b35d0a5-b17a-423b-a2ed-de2b18dc367a", "été", "été", "über", "\U0001F600", "\U00010348x",
    "café", "café", "中文", "a" * 4000, "ab" * 1500 + "c", "x" * 255, "y" * 256, "pid", "pid1", "1pid", "PID", "p", "pi",
    "null", "None", "tmp", "objects", "refs/pids", "hashstore.yaml", "_delete", "a_delete", "con", "nul", "​", "a​b", "﻿bom", "a\x00b"[:1] + "b",
    "\x7f", "\x01\x02", "~", "~root", "a'b", 'a"b', "a<b>", "{}", "#", "a=b", "a,b", "a:b;c",
]


def adversarial_ids(rng, n):
    out = list(ADVERSARIAL)
    # prefix / suffix / case variants of random bases
    for _ in range(n):
        base = rng.choice(ADVERSARIAL[:30]) + str(rng.randint(0, 99))
        out += [base, base[:-1], base[1:], base.upper(), base.lower(), base + base[-1]]
    out = [s for s in out if s and not any(ch.isspace() for ch in s)]
    return out


# ====================================================================== C15

def layout_script(hs, u_pids, data1, data2, doc1, doc2, fmt2, base, H):
    """store two pids on one content, a third on another; two metadata documents for pid 0"""
    f1 = os.path.join(base, "d1")
    f2 = os.path.join(base, "d2")
    m1 = os.path.join(base, "m1")
    m2 = os.path.join(base, "m2")
    for p, d in ((f1, data1), (f2, data2), (m1, doc1), (m2, doc2)):
        with open(p, "wb") as fh:
            fh.write(d)
    hs.store_object(u_pids[0], f1)
    hs.store_object(u_pids[1], f1)
    hs.store_object(u_pids[2], f2)
    hs.store_metadata(u_pids[0], m1)
    hs.store_metadata(u_pids[0], m2, fmt2)
    hs.store_metadata(u_pids[2], m2, fmt2)
    # a removal from the middle of a cid list followed by an append: the list must stay one pid per
    # newline-terminated line (u_pids[3] joins content 1, u_pids[1] leaves and is tagged again)
    hs.store_object(u_pids[3], f1)
    hs.delete_object(u_pids[1])
    hs.tag_object(u_pids[1], H(data1))


def expected_layout(shard, H, pids, data1, data2, doc1, doc2, ns, fmt2):
    """the README tree, parameterised by the sharding function [shard : hex -> list of tokens]"""
    def path(*parts):
        return "/".join(parts)
    c1, c2 = H(data1), H(data2)
    exp = {}
    exp[path("objects", *shard(c1))] = data1
    exp[path("objects", *shard(c2))] = data2
    exp[path("refs", "cids", *shard(c1))] = (pids[0] + "\n" + pids[3] + "\n" + pids[1] + "\n").encode("utf-8")
    exp[path("refs", "cids", *shard(c2))] = (pids[2] + "\n").encode("utf-8")
    for p, c in ((pids[0], c1), (pids[1], c1), (pids[2], c2), (pids[3], c1)):
        exp[path("refs", "pids", *shard(H(p.encode("utf-8"))))] = c.encode("utf-8")
    exp[path("metadata", *shard(H(pids[0].encode("utf-8"))), H((pids[0] + ns).encode("utf-8")))] = doc1
    exp[path("metadata", *shard(H(pids[0].encode("utf-8"))), H((pids[0] + fmt2).encode("utf-8")))] = doc2
    exp[path("metadata", *shard(H(pids[2].encode("utf-8"))), H((pids[2] + fmt2).encode("utf-8")))] = doc2
    return exp


def c15(run):
    rng = random.Random(run.seed)
    quick = run.tier == "quick"
    import yaml
    grid = [(d, w, a) for d in range(1, 7) for w in range(1, 5) for a in ALGOS]
    rng.shuffle(grid)
    # always include the default configuration and the extremes
    must = [(3, 2, "SHA-256"), (1, 1, "MD5"), (6, 4, "MD5"), (6, 4, "SHA-512"), (1, 4, "SHA-1"), (6, 1, "SHA-384")]
    configs = must + [g for g in grid if g not in must][: (18 if quick else len(grid))]
    ids = adversarial_ids(rng, 4)
    base = scratch_root()
    try:
        # ---- P-shard: _shard of the live class vs the model, incl. strings outside the documented range
        hs0, _ = new_store(base, name="shardstore")
        cases = []
        for d, w, a in configs:
            L = hashlib.new(ALGOS[a]).digest_size * 2
            for n in sorted({0, 1, w, d * w - 1, d * w, d * w + 1, L - 1, L, L + 3, rng.randint(0, L)}):
                if n < 0:
                    continue
                s = "".join(rng.choice("0123456789abcdef") for _ in range(n))
                cases.append((d, w, s))
            cases.append((d, w, "".join(rng.choice("xyz-_./ABC") for _ in range(rng.randint(1, 3 * d * w)))))
        lines = ["shard %d %d %s" % (d, w, hx(s)) for d, w, s in cases]
        got_m = layerA(lines)
        for (d, w, s), gm in zip(cases, got_m):
            hs0.depth, hs0.width = d, w
            gi = "/".join(hs0._shard(s))
            run.case("P-shard", (d, w, s), nontrivial=len(s) > 0,
                     sample={"projection": "P-shard", "depth": d, "width": w, "string": s[:40], "impl": gi[:60]})
            if gm != gi:
                run.disagree("P-shard", {"depth": d, "width": w, "string": s}, gm, gi, ["C15_shard_eq_spec", "C15_shard_compact_spec_all"])
            ro = "/".join(readme_shard(d, w, s))
            if d * w < len(s) and gi != ro:
                run.violation({"kind": "shard", "depth": d, "width": w}, "_shard(%r) with depth=%d width=%d gives %s, README layout is %s" % (s[:20], d, w, gi[:50], ro[:50]),
                              {"depth": d, "width": w, "string": s})
        # ---- P-layout: a fixed script per configuration; the whole tree against the README layout
        for k, (d, w, a) in enumerate(configs):
            H = lambda b, a=a: hashlib.new(ALGOS[a], b).hexdigest()
            pids = rng.sample(ids, 4)
            ns = rng.choice([DEFAULT_NS, "http://ns.example/v1", "ns"])
            fmt2 = rng.choice(["http://www.w3.org/ns/prov#", "fmt", pids[1], "a b"])
            data1 = os.urandom(rng.choice([0, 1, 100, 5000]))
            data2 = data1 + b"x"
            doc1, doc2 = b"<sysmeta/>" * rng.randint(0, 3), os.urandom(rng.randint(1, 300))
            sub = os.path.join(base, "c%d" % k)
            os.makedirs(sub)
            hs, root = new_store(sub, d, w, a, ns)
            try:
                layout_script(hs, pids, data1, data2, doc1, doc2, fmt2, sub, H)
            except Exception as e:  # noqa: BLE001 - the fixed script consists of calls that must succeed
                run.violation({"kind": "layout-script", "exn": exn_name(e)},
                              "the layout script (store x3, store_metadata x3, store, delete_object, tag_object on fresh identifiers) raised %s for depth=%d width=%d %s" % (exn_name(e), d, w, a),
                              {"depth": d, "width": w, "algorithm": a, "pids": pids, "ns": ns, "fmt2": fmt2, "exception": repr(e)[:300]})
                shutil.rmtree(sub, ignore_errors=True)
                continue
            got = tree(root)
            yml = got.pop("hashstore.yaml", None)
            got = {p: v for p, v in got.items() if not p.endswith(".log")}
            # model-side expectation: the extracted shard function
            hexes = sorted({H(data1), H(data2)} | {H(p.encode("utf-8")) for p in pids})
            toks = dict(zip(hexes, [r.split("/") for r in layerA(["shard %d %d %s" % (d, w, hx(h)) for h in hexes])]))
            exp_m = expected_layout(lambda h: toks[h], H, pids, data1, data2, doc1, doc2, ns, fmt2)
            exp_r = expected_layout(lambda h: readme_shard(d, w, h), H, pids, data1, data2, doc1, doc2, ns, fmt2)
            run.case("P-layout", (d, w, a, tuple(pids)), sample={"projection": "P-layout", "depth": d, "width": w, "algorithm": a,
                                                              "pids": [p[:30] for p in pids], "files": len(got)})
            run.count("config", "%d/%d/%s" % (d, w, a))
            if got != exp_m:
                diff = sorted(set(got) ^ set(exp_m)) or [p for p in got if got[p] != exp_m.get(p)]
                run.disagree("P-layout", {"depth": d, "width": w, "algorithm": a, "pids": pids, "fmt2": fmt2}, "paths " + str(diff[:4]), "impl tree differs",
                             ["C15_shard_eq_spec", "C15_split_unparse", "C15_add_exact"])
            if got != exp_r:
                diff = sorted(set(got) ^ set(exp_r)) or [p for p in got if got[p] != exp_r.get(p)]
                run.violation({"kind": "layout", "depth": d, "width": w, "algorithm": a},
                              "tree under the store root differs from the README layout for depth=%d width=%d %s at %s" % (d, w, a, diff[:3]),
                              {"depth": d, "width": w, "algorithm": a, "pids": pids, "ns": ns, "fmt2": fmt2,
                               "data1_hex": data1.hex()[:200], "differs_at": diff[:6]})
            # cid list codec: the model's line splitter applied to the implementation's bytes
            for p, v in got.items():
                if p.startswith("refs/cids/"):
                    ln = layerA(["lines " + cps(v.decode("utf-8"))])[0]
                    names = [uncps(x) for x in ln.split("|")] if ln else []
                    want = [pids[0], pids[3], pids[1]] if p == "refs/cids/" + "/".join(toks[H(data1)]) else [pids[2]]
                    if names != want:
                        run.disagree("P-layout/lines", {"file": p, "bytes": v.decode("utf-8", "replace")[:80]}, names, want, ["C15_split_unparse"])
            # hashstore.yaml: the five documented keys with the configured values
            y = yaml.safe_load(yml.decode("utf-8")) if yml else {}
            want = {"store_depth": d, "store_width": w, "store_algorithm": a, "store_metadata_namespace": ns}
            bad = {k2: (y.get(k2), v) for k2, v in want.items() if y.get(k2) != v}
            if "store_default_algo_list" not in y or sorted(y["store_default_algo_list"]) != sorted(ALGOS):
                bad["store_default_algo_list"] = (y.get("store_default_algo_list"), sorted(ALGOS))
            if bad:
                run.violation({"kind": "yaml", "keys": sorted(bad)}, "hashstore.yaml does not record the configuration under the documented keys: %s" % bad,
                              {"depth": d, "width": w, "algorithm": a, "ns": ns, "yaml": y})
            shutil.rmtree(sub, ignore_errors=True)
    finally:
        shutil.rmtree(base, ignore_errors=True)


# ====================================================================== C18

def c18(run):
    rng = random.Random(run.seed)
    quick = run.tier == "quick"
    ids = adversarial_ids(rng, 6 if quick else 40)
    base = scratch_root()
    F = fhs().FileHashStore
    try:
        # ---- P-checkstr: _check_string vs the code-point level model
        strs = [None, "", " ", "\t", "a b", "a\nb", "a b", " ", "a　", "\x1c", "\x1f", "\x85", "a​b", " ", "᠎", " x",
                " ", " ", "﻿", "\x0b", "\x0c", "x\r"] + ids[:60]
        lines = ["checkcp " + ("N" if s is None else "S" + cps(s)) for s in strs]
        for s, gm in zip(strs, layerA(lines)):
            try:
                F._check_string(s, "arg")
                gi = "ok"
            except ValueError:
                gi = "ValueError"
            except Exception as e:  # noqa: BLE001
                gi = type(e).__name__
            run.case("P-checkstr", s, nontrivial=s not in (None, ""), sample={"projection": "P-checkstr", "string": (s or "")[:30], "impl": gi})
            if gm != gi:
                run.disagree("P-checkstr", {"string": s}, gm, gi, ["C18_check_string_spec"])
            want = "ok" if (s is not None and s != "" and not any(ch.isspace() for ch in s)) else "ValueError"
            if gi != want:
                run.violation({"kind": "checkstr"}, "_check_string(%r) gives %s, expected %s" % (s, gi, want), {"string": s})
        # ---- P-refs: membership and removal on reference lists with related identifiers
        hs, root = new_store(base, name="refstore")
        n_lists = 60 if quick else 600
        for k in range(n_lists):
            basep = rng.choice(ids)[:40]
            rel = [basep, basep + "x", "x" + basep, basep[:-1] or "q", basep.upper(), basep.lower(), basep + basep, rng.choice(ids)[:40]]
            rel = [r for r in dict.fromkeys(rel) if r]
            lst = rng.sample(rel, rng.randint(1, len(rel)))
            target = rng.choice(rel)
            content = "".join(p + "\n" for p in lst)
            fpath = os.path.join(base, "list%d" % k)
            with open(fpath, "w", encoding="utf8", newline="") as fh:
                fh.write(content)
            gi_in = F._is_string_in_refs_file(target, Path(fpath))
            hs._update_refs_file(Path(fpath), target, "remove")
            with open(fpath, "r", encoding="utf8", newline="") as fh:
                gi_rm = fh.read()
            gm_in, gm_rm = layerA(["inrefs %s %s" % (cps(target), cps(content)), "rmref %s %s" % (cps(target), cps(content))])
            run.case("P-refs", (tuple(lst), target), sample={"projection": "P-refs", "list": [p[:20] for p in lst], "target": target[:20],
                                                            "member": gi_in})
            run.count("member", str(gi_in))
            if (gm_in == "t") != gi_in:
                run.disagree("P-refs/member", {"list": lst, "target": target}, gm_in, gi_in, ["C18_member_exact"])
            if uncps(gm_rm) != gi_rm:
                run.disagree("P-refs/remove", {"list": lst, "target": target}, uncps(gm_rm)[:100], gi_rm[:100], ["C18_remove_exact"])
            # property oracle: whole-line semantics
            if gi_in != (target in lst):
                run.violation({"kind": "member"}, "membership of %r in list %r reported %s" % (target[:30], [p[:30] for p in lst], gi_in),
                              {"list": lst, "target": target})
            if gi_rm != "".join(p + "\n" for p in lst if p != target):
                run.violation({"kind": "remove"}, "removing %r from list %r left %r" % (target[:30], [p[:30] for p in lst], gi_rm[:80]),
                              {"list": lst, "target": target})
            os.remove(fpath)
        # ---- search: pairs / triples of adversarial identifiers sharing one object
        sentinel = os.path.join(base, "sentinel")
        os.makedirs(os.path.join(sentinel, "sub"))
        with open(os.path.join(sentinel, "sub", "keep"), "w") as fh:
            fh.write("keep")
        cwd_before = sorted(os.listdir(os.getcwd()))
        n_groups = 25 if quick else 250
        for g in range(n_groups):
            basep = rng.choice(ids)[:200]
            fam = [basep, basep + "1", basep[:-1] or "z", basep.swapcase(), rng.choice(ids), rng.choice(ids)]
            fam = [x for x in dict.fromkeys(fam) if x and not any(ch.isspace() for ch in x)]
            group = rng.sample(fam, min(len(fam), rng.choice([2, 3])))
            fmt = rng.choice([None, "f", group[-1][:50], "../x", "a/b"])
            sub = os.path.join(base, "g%d" % g)
            os.makedirs(sub)
            hs, root = new_store(sub)
            data = os.urandom(rng.choice([1, 64, 5000]))
            src = os.path.join(sub, "data")
            with open(src, "wb") as fh:
                fh.write(data)
            if g % 4 == 0:
                # identifiers that happen to name existing files / directories (they are opaque strings all the same)
                group = [rng.choice([src, os.path.join(root, "hashstore.yaml"), "/etc/hostname", "/etc/passwd", root, sub])] + group[:2]
                group = [x for x in dict.fromkeys(group) if not any(ch.isspace() for ch in x)]
            docs = {}
            problems = []
            try:
                for p in group:
                    hs.store_object(p, src)
                    docs[p] = os.urandom(40)
                    dp = os.path.join(sub, "doc")
                    with open(dp, "wb") as fh:
                        fh.write(docs[p])
                    hs.store_metadata(p, dp, fmt)
            except Exception as e:  # noqa: BLE001
                problems.append("setup raised %s for identifiers %r" % (exn_name(e), [x[:30] for x in group]))
            victim, bystanders = group[0], group[1:]
            # locations derive from hashes of the identifier STRINGS only (independent computation)
            if not problems:
                cid = hashlib.sha256(data).hexdigest()
                for p in group:
                    hp = hashlib.sha256(p.encode("utf-8")).hexdigest()
                    ref = os.path.join(root, "refs", "pids", *readme_shard(3, 2, hp))
                    fm = fmt if fmt is not None else DEFAULT_NS
                    doc = os.path.join(root, "metadata", *readme_shard(3, 2, hp), hashlib.sha256((p + fm).encode("utf-8")).hexdigest())
                    if not os.path.isfile(ref) or open(ref).read() != cid:
                        problems.append("pid reference of %r is not at refs/pids/shard(sha256(pid))" % p[:40])
                    if not os.path.isfile(doc):
                        problems.append("metadata document of %r is not at metadata/shard(sha256(pid))/sha256(pid+format)" % p[:40])

            def check_bystanders(step):
                for b in bystanders:
                    try:
                        s = hs.retrieve_object(b)
                        got = s.read()
                        s.close()
                        if got != data:
                            problems.append("after %s on %r: retrieve_object(%r) gives other bytes" % (step, victim[:30], b[:30]))
                        s = hs.retrieve_metadata(b, fmt)
                        got = s.read()
                        s.close()
                        if got != docs[b]:
                            problems.append("after %s on %r: retrieve_metadata(%r) gives other bytes" % (step, victim[:30], b[:30]))
                    except Exception as e:  # noqa: BLE001
                        problems.append("after %s on %r: bystander %r raises %s" % (step, victim[:30], b[:30], exn_name(e)))
            if not problems:
                steps = [("retrieve_object", lambda: hs.retrieve_object(victim).close()),
                         ("store_metadata", lambda: hs.store_metadata(victim, src, fmt)),
                         ("delete_metadata", lambda: hs.delete_metadata(victim, fmt)),
                         ("tag_object again", lambda: hs.tag_object(victim, hashlib.sha256(data).hexdigest())),
                         ("delete_object", lambda: hs.delete_object(victim)),
                         ("store_object again", lambda: hs.store_object(victim, src)),
                         ("delete_metadata all", lambda: hs.delete_metadata(victim)),
                         ("delete_object 2", lambda: hs.delete_object(victim))]
                for name, fn in steps:
                    try:
                        fn()
                    except Exception as e:  # noqa: BLE001
                        if not (name == "tag_object again" and exn_name(e) == "HashStoreRefsAlreadyExists"):
                            problems.append("%s(%r) raised %s" % (name, victim[:30], exn_name(e)))
                    check_bystanders(name)
            # every file lies inside the root at a hash-derived location
            for rel in tree(root):
                parts = rel.split("/")
                if rel == "hashstore.yaml":
                    continue
                ok = parts[0] in ("objects", "metadata", "refs") and all(
                    (t in ("pids", "cids", "tmp") and i == 1) or all(ch in "0123456789abcdef" for ch in t.replace("_delete", ""))
                    or (i == 2 and parts[1] == "tmp") for i, t in enumerate(parts) if i > 0)
                if not ok:
                    problems.append("file at a location not derived from hashes: %s" % rel[:80])
            extra = [x for x in os.listdir(sub) if x not in ("store", "data", "doc")]
            if extra:
                problems.append("files created outside the store root: %s" % extra[:3])
            run.case("search-ids", tuple(group), sample={"search": "identifier groups", "ids": [x[:30] for x in group], "format": (fmt or "default")[:20]})
            for pr in problems[:3]:
                run.violation({"kind": "ids", "what": pr.split(":")[0][:40]}, pr, {"group": group, "format": fmt, "size": len(data)})
            shutil.rmtree(sub, ignore_errors=True)
        if tree(sentinel) != {"sub/keep": b"keep"}:
            run.violation({"kind": "sentinel"}, "a directory next to the store root was modified", {"sentinel": sorted(tree(sentinel))})
        if sorted(os.listdir(os.getcwd())) != cwd_before:
            run.violation({"kind": "cwd"}, "the working directory was modified", {"cwd": sorted(os.listdir(os.getcwd()))[:10]})
    finally:
        shutil.rmtree(base, ignore_errors=True)


CHECKS = {"C15": c15, "C18": c18}


# ====================================================================== C02

CANON = ["md5", "sha1", "sha256", "sha384", "sha512", "sha224", "sha3_224", "sha3_256", "sha3_384", "sha3_512", "blake2b", "blake2s"]
DATAONE = {"md5": "MD5", "sha1": "SHA-1", "sha256": "SHA-256", "sha384": "SHA-384", "sha512": "SHA-512", "sha224": "SHA-224",
           "sha3_224": "SHA3-224", "sha3_256": "SHA3-256", "sha3_384": "SHA3-384", "sha3_512": "SHA3-512"}
COREUTILS = {"md5": "md5sum", "sha1": "sha1sum", "sha224": "sha224sum", "sha256": "sha256sum", "sha384": "sha384sum",
             "sha512": "sha512sum", "blake2b": "b2sum"}


def spellings(rng, canon, n=4):
    """accepted spellings: hashlib name, DataONE name, '-'/'_' variants, arbitrary case"""
    base = {canon, DATAONE.get(canon, canon), canon.replace("_", "-"), canon.upper(), DATAONE.get(canon, canon).lower(),
            DATAONE.get(canon, canon).replace("-", "_")}
    out = []
    for b in sorted(base):
        out.append(b)
        out.append("".join(ch.upper() if rng.random() < 0.5 else ch.lower() for ch in b))
    rng.shuffle(out)
    return out[:n]


def independent_digest(algo, path, data):
    """digest by a second implementation where one exists (coreutils), else one-shot hashlib"""
    import subprocess
    if algo in COREUTILS and shutil.which(COREUTILS[algo]):
        out = subprocess.run([COREUTILS[algo], path], capture_output=True, text=True).stdout
        return out.split()[0].lstrip("\\")
    return hashlib.new(algo, data).hexdigest()


def c02(run):
    rng = random.Random(run.seed)
    quick = run.tier == "quick"
    base = scratch_root()
    try:
        hs, root = new_store(base)
        # ---- P-algo/clean
        strs = []
        for c in CANON:
            strs += spellings(rng, c, 6 if quick else 12)
            strs += [c + "x", c[:-1], "-" + c, c + "-", c.replace("sha", "sha_"), c.replace("3_", "3__"), c.replace("_", "")]
        strs += ["", "sha", "SHA", "sha-3-256", "sha3256", "sha_3_256", "SHA3_256", "sha3-256", "md-5", "m-d-5", "MD_5", "blake2", "blake-2b",
                 "BLAKE_2S", "sha2-256", "sha512_256", "shake_128", "SHA-1024", "ſha256", "sha256 ", "1234", "sha١"]
        strs = [s for s in dict.fromkeys(strs) if all(ord(ch) < 128 for ch in s)]
        res = layerA(["clean " + hx(s) for s in strs])
        for s, gm in zip(strs, res):
            try:
                gi = "some " + hx(hs._clean_algorithm(s))
            except Exception as e:  # noqa: BLE001
                gi = "none" if exn_name(e) == "UnsupportedAlgorithm" else "exn " + exn_name(e)
            run.case("P-algo/clean", s, nontrivial=gi != "none", sample={"projection": "P-algo/clean", "string": s, "impl": gi})
            if gm != gi:
                run.disagree("P-algo/clean", {"string": s}, gm, gi, ["C02_clean_sound", "C02_clean_complete_anycase"])
            # oracle: accepted iff it squashes to a canonical name; never mapped to another algorithm
            sq = s.lower().replace("-", "").replace("_", "")
            if gi.startswith("some "):
                got = bytes.fromhex(gi[5:]).decode()
                if got.replace("_", "") != sq or got not in CANON:
                    run.violation({"kind": "clean"}, "_clean_algorithm(%r) = %r which is not the algorithm the spelling names" % (s, got), {"string": s})
        # ---- P-algo/refine: the per-call list and the instance's default list after the call
        opts = [None] + CANON
        pairs = [(a, c) for a in opts for c in opts]
        rng.shuffle(pairs)
        pairs = pairs[: (40 if quick else len(pairs))]
        enc = lambda o: "N" if o is None else "S" + hx(o)
        res = layerA(["refine 1 %s %s" % (enc(a), enc(c)) for a, c in pairs])
        for (a, c), gm in zip(pairs, res):
            inst = fhs().FileHashStore({"store_path": root, "store_depth": 3, "store_width": 2, "store_algorithm": "SHA-256",
                                        "store_metadata_namespace": DEFAULT_NS})
            calc = inst._refine_algorithm_list(a, c)
            gi = ",".join(inst.default_algo_list) + " " + ",".join(sorted(calc))
            m_inst, m_calc = gm.split(" ")
            gm2 = m_inst + " " + ",".join(sorted(m_calc.split(",")))
            run.case("P-algo/refine", (a, c), nontrivial=(a is not None or c is not None), sample={"projection": "P-algo/refine", "additional": a, "checksum_algorithm": c, "impl": gi})
            if gm2 != gi:
                run.disagree("P-algo/refine", {"additional": a, "checksum_algorithm": c}, gm2, gi, ["C02_refine_copy_keys", "C02_refine_copy_history"])
        # ---- search: histories of store_object on ONE instance; keys depend only on the call that asked
        n_hist = 6 if quick else 60
        for hno in range(n_hist):
            sub = os.path.join(base, "h%d" % hno)
            os.makedirs(sub)
            inst, r2 = new_store(sub)
            calls = []
            for k in range(rng.randint(2, 6)):
                size = rng.choice([0, 1, 4095, 4096, 4097, 70000])
                data = os.urandom(size)
                src = os.path.join(sub, "d%d" % k)
                with open(src, "wb") as fh:
                    fh.write(data)
                add = rng.choice([None, None] + CANON)
                cka = rng.choice([None, None] + CANON)
                add_s = None if add is None else rng.choice(spellings(rng, add))
                cka_s = None if cka is None else rng.choice(spellings(rng, cka))
                chk = None if cka is None else hashlib.new(cka, data).hexdigest()
                if chk is not None and rng.random() < 0.3:
                    chk = chk.upper()
                pid = "pid-%d-%d" % (hno, k)
                calls.append({"pid": pid, "size": size, "additional": add_s, "checksum_algorithm": cka_s})
                try:
                    m = inst.store_object(pid, src, add_s, chk, cka_s)
                except Exception as e:  # noqa: BLE001
                    run.violation({"kind": "store", "exn": exn_name(e)}, "store_object with additional=%r checksum_algorithm=%r (correct checksum) raised %s" % (add_s, cka_s, exn_name(e)),
                                  {"calls": calls})
                    break
                want = set(CANON[:5]) | ({add} if add else set()) | ({cka} if cka else set())
                run.case("search-digests", (hno, k), sample={"search": "store_object history", "call": calls[-1], "keys": sorted(m.hex_digests)})
                run.count("extra_algorithms", "%d" % (len(want) - 5))
                if set(m.hex_digests) != want:
                    run.violation({"kind": "keys", "extra": sorted(set(m.hex_digests) - want), "missing": sorted(want - set(m.hex_digests))},
                                  "hex_digests keys %s differ from the five defaults plus the algorithms named in the call %s (call %d of a history on one instance)" % (
                                      sorted(m.hex_digests), sorted(want - set(CANON[:5])), k + 1), {"calls": calls})
                for alg, val in m.hex_digests.items():
                    if alg in CANON and val != independent_digest(alg, src, data):
                        run.violation({"kind": "value", "algorithm": alg}, "hex_digests[%s] is not the digest of the stored content (size %d)" % (alg, size), {"calls": calls})
                if m.obj_size != size or m.cid != hashlib.sha256(data).hexdigest():
                    run.violation({"kind": "cid"}, "cid / size reported do not match the content", {"calls": calls})
                # get_hex_digest under every algorithm and spelling
                for alg in (CANON if k == 0 else rng.sample(CANON, 3)):
                    for sp in spellings(rng, alg, 2):
                        try:
                            got = inst.get_hex_digest(pid, sp)
                        except Exception as e:  # noqa: BLE001
                            got = "exn:" + exn_name(e)
                        run.case("search-gethex", (hno, k, sp), sample=None)
                        if got != independent_digest(alg, src, data):
                            run.violation({"kind": "gethex", "algorithm": alg}, "get_hex_digest(pid, %r) gives %s, not the %s digest of the content" % (sp, got[:20], alg),
                                          {"calls": calls, "spelling": sp})
            shutil.rmtree(sub, ignore_errors=True)
    finally:
        shutil.rmtree(base, ignore_errors=True)


CHECKS["C02"] = c02


# ====================================================================== C17

def pyval_to_py(tok, ctx):
    """pyval word of the layer-A front end -> a real Python value"""
    k, rest = tok[0], tok[1:]
    if k == "N":
        return None
    if k == "T":
        return True
    if k == "U":
        return False
    if k == "I":
        return int(rest)
    if k == "F":
        return 5.0
    if k == "S":
        return "" if rest == "-" else bytes.fromhex(rest).decode()
    if k == "Y":
        return b"bytes"
    if k == "P":
        return Path("" if rest == "-" else bytes.fromhex(rest).decode())
    if k == "R":
        if rest == "1":
            f = open(ctx["src"], "rb")
            ctx["open"].append(f)
            return f
        return io.BytesIO(ctx["data"])
    if k == "X":
        return io.StringIO("text")
    if k == "O":
        return ctx["meta"]
    return ["a", "list"]


def S(s):
    return "S" + hx(s)


def c17(run):
    rng = random.Random(run.seed)
    quick = run.tier == "quick"
    base = scratch_root()
    try:
        hs, root = new_store(base)
        data = b"content-for-c17" * 10
        src = os.path.join(base, "srcfile")
        with open(src, "wb") as fh:
            fh.write(data)
        doc = os.path.join(base, "docfile")
        with open(doc, "wb") as fh:
            fh.write(b"<doc/>")
        m = hs.store_object("bound-pid", src)
        hs.store_metadata("bound-pid", doc)
        hs.store_metadata("bound-pid", doc, "fmt-x")
        ctx = {"src": src, "data": data, "open": [], "meta": m}
        sha = hashlib.sha256(data).hexdigest()
        bad_str = ["N", S(""), S(" "), S("a b"), S("\t"), S("a\nb"), S("x\x1c")]
        bad_algo = [S("sha-3"), S("md6"), S("sha256x"), S("sm3"), S("SHA-2560")]
        bad_size = ["I0", "I-1", "U", S("5"), "F", "Z", "Y"]
        bad_data = ["N", S(""), S("  "), "I5", "Y", "X", "Z", "F", "T"]
        # method -> (valid argument vector, per-parameter invalid values, in the order of the model's args_* functions)
        METHODS = {
            "store_object": (["S" + hx("new-pid"), S(src), "N", "N", "N", "N"],
                             [bad_str, bad_data, bad_algo, [S(""), S(" ")], bad_algo + ["N"], bad_size]),
            "tag_object": ([S("new-pid"), S(sha)], [bad_str, bad_str]),
            "delete_if_invalid_object": (["O", S(sha), S("SHA-256"), "N"], [["N", S("x"), "I1", "Z"], bad_str, bad_str + bad_algo, bad_size]),
            "store_metadata": ([S("new-pid"), S(doc), "N"], [bad_str, bad_data, [S(" "), S("\t\n")]]),
            "retrieve_object": ([S("bound-pid")], [bad_str]),
            "retrieve_metadata": ([S("bound-pid"), "N"], [bad_str, [S(" "), S("  ")]]),
            "delete_object": ([S("new-pid")], [bad_str]),
            "delete_metadata": ([S("new-pid"), "N"], [bad_str, [S(" ")]]),
            "get_hex_digest": ([S("bound-pid"), S("SHA-256")], [bad_str, bad_str + bad_algo]),
        }
        cases = []
        for meth, (valid, bads) in METHODS.items():
            cases.append((meth, list(valid)))
            for i, bl in enumerate(bads):
                for b in bl:
                    v = list(valid)
                    v[i] = b
                    if meth == "store_object" and i == 3:
                        v[4] = "N"             # checksum without algorithm
                    if meth == "store_object" and i == 4 and b == "N":
                        v[3] = S(sha)          # ... and the reverse: checksum given, algorithm None
                    elif meth == "store_object" and i == 4:
                        v[3] = S(sha)
                    cases.append((meth, v))
            # pairs of bad parameters
            for _ in range(6 if quick else 40):
                if len(bads) < 2:
                    break
                i, j = rng.sample(range(len(bads)), 2)
                v = list(valid)
                v[i], v[j] = rng.choice(bads[i]), rng.choice(bads[j])
                cases.append((meth, v))
        # unknown pid for retrieve / delete / get_hex_digest, absent metadata document
        cases += [("retrieve_object", [S("unknown-pid")]), ("delete_object", [S("unknown-pid")]),
                  ("get_hex_digest", [S("unknown-pid"), S("md5")]), ("retrieve_metadata", [S("unknown-pid"), "N"]),
                  ("retrieve_metadata", [S("bound-pid"), S("no-such-format")]),
                  ("store_object", [S("pid-m"), S(os.path.join(base, "missing-file")), "N", "N", "N", "N"]),
                  ("store_object", [S("pid-m"), "P" + hx(os.path.join(base, "missing-file")), "N", "N", "N", "N"])]
        lines = ["args %s %s %s" % (meth, hx("sha256"), " ".join(v)) for meth, v in cases]
        res = layerA(lines)
        DOMAIN_STR = ("N", "S")
        for (meth, v), gm in zip(cases, res):
            before = tree(root, with_dirs=True, mtime=True)
            args = [pyval_to_py(t, ctx) for t in v]
            try:
                r = getattr(hs, meth)(*args)
                if hasattr(r, "close"):
                    r.close()
                gi = "ok"
            except Exception as e:  # noqa: BLE001
                gi = exn_name(e)
            for f in ctx["open"]:
                f.close()
            ctx["open"] = []
            after = tree(root, with_dirs=True, mtime=True)
            changed = before != after
            key = (meth, tuple(v))
            run.case("P-args", key, nontrivial=gm != "ok", sample={"projection": "P-args", "method": meth, "args": v, "model": gm, "impl": gi})
            run.count("class", gi)
            # the model's domain: str-typed parameters are None / str (exact class elsewhere is not claimed)
            strpos = {"store_object": [0, 2, 3, 4], "tag_object": [0, 1], "delete_if_invalid_object": [1, 2], "store_metadata": [0, 2],
                      "retrieve_object": [0], "retrieve_metadata": [0, 1], "delete_object": [0], "delete_metadata": [0, 1], "get_hex_digest": [0, 1]}[meth]
            in_domain = all(v[i][0] in DOMAIN_STR for i in strpos)
            if in_domain and gm != "ok" and gm != gi:
                run.disagree("P-args", {"method": meth, "args": v}, gm, gi, ["C17_store_object_first_failure", "C17_rejected_pure"])
            if in_domain and gm == "ok" and gi in ("TypeError", "UnsupportedAlgorithm", "AttributeError") :
                run.disagree("P-args", {"method": meth, "args": v}, gm, gi, ["C17_store_object_args_ok_iff"])
            # property oracle: a rejected call, an unknown pid, and a successful read-only call change nothing
            rejected = gi in ("ValueError", "TypeError", "UnsupportedAlgorithm", "PidRefsDoesNotExist", "AttributeError")
            readonly = meth in ("retrieve_object", "retrieve_metadata", "get_hex_digest")
            if (rejected or readonly) and changed:
                diff = sorted(set(before) ^ set(after)) or [p for p in before if before[p] != after.get(p)]
                run.violation({"kind": "changed", "method": meth, "class": gi},
                              "%s(%s) -> %s changed the store: %s" % (meth, ", ".join(repr(a)[:30] for a in args), gi, diff[:4]),
                              {"method": meth, "args": v, "outcome": gi, "changed": diff[:10]})
            if not rejected and not readonly and gi == "ok":
                # restore the fixture state for the next case (a valid call did its work)
                for undo in (lambda: hs.delete_object("new-pid"), lambda: hs.delete_metadata("new-pid"), lambda: hs.delete_object("pid-m")):
                    try:
                        undo()
                    except Exception:  # noqa: BLE001
                        pass
                if meth == "delete_if_invalid_object":
                    pass
            # documented classes for the documented conditions
            want = None
            if meth in ("retrieve_object", "delete_object", "get_hex_digest") and v[0] == S("unknown-pid"):
                want = "PidRefsDoesNotExist"
            if want and gi != want:
                run.violation({"kind": "class", "method": meth}, "%s on an unknown pid raised %s, documented class is %s" % (meth, gi, want), {"method": meth, "args": v})
    finally:
        shutil.rmtree(base, ignore_errors=True)


CHECKS["C17"] = c17
