"""checks_cf — C09 (integrity at every instant), C10 (crash recovery), C13 (fault safety).
Theorems: props/C09.v (general invariant, Integrity.v), props/C10.v and props/C13.v (menus evaluated by the
kernel, lifted to all crash points / fault sites).  Here: P-trace, P-crash, P-fault correspondences and the
implementation-side oracles written from the property texts."""
import errno
import hashlib
import os
import random
import shutil

import cf
import fsmon
import model
import seq
import trace as tr
from universe import Universe, Impl, token_line, history_line, parse_world, scratch_root

NOTFOUND = {"exn:PidRefsDoesNotExist", "exn:OrphanPidRefsFileFound", "exn:PidNotFoundInCidRefsFile", "exn:RefsFileExistsButCidObjMissing"}


def trace_case(run, u, setup, call, proj="P-trace", theorems=()):
    """per-call op sequence, implementation vs model; returns the implementation's op list"""
    r, ops, st = tr.impl_trace(u, [dict(c) for c in setup], dict(call), cf.PIDS, cf.FMTS)
    o, mops, w = tr.model_trace(setup, call)
    d = None
    if o != r:
        d = "outcome model=%s impl=%s" % (o, r)
    else:
        d = tr.diff_traces(mops, ops)
    key = (tuple(token_line(c) for c in setup), token_line(call))
    run.case(proj, key, nontrivial=len(ops) > 2, sample={"projection": proj, "setup": [token_line(c) for c in setup], "call": token_line(call),
                                                         "ops": ops[:12], "n_ops": len(ops)})
    run.traces_validated += 1
    if d:
        run.disagree(proj, {"setup": [token_line(c) for c in setup], "call": token_line(call)}, mops[:40], ops[:40], list(theorems) + [d])
    return ops


def kernel_check(run, rng, lines, extracted, n):
    """the same command lines evaluated inside Coq (vm_compute) must give what the extracted runner gave"""
    idx = pick(rng, range(len(lines)), n)
    got = model.run_lines_kernel([lines[i] for i in idx])
    run.extra["kernel_sample"] = run.extra.get("kernel_sample", 0) + len(idx)
    for i, g in zip(idx, got):
        if g != extracted[i]:
            run.disagree("extraction-vs-kernel", {"line": lines[i]}, g, extracted[i], ["(extraction)"])


def observe(u, root, pids, fmts):
    """what a fresh instance opened on [root] serves: pid -> retrieve_object outcome, (pid, fmt) -> retrieve_metadata outcome"""
    im = Impl(u, pids, fmts, root=root)
    try:
        objs = {p: cf.guarded_call(im, {"op": "ro", "p": p}) for p in pids}
        metas = {(p, f): cf.guarded_call(im, {"op": "rm", "p": p, "f": f}) for p in pids for f in fmts}
        return objs, metas
    finally:
        for s in im.open_streams:
            s.close()


def pick(rng, items, n):
    items = list(items)
    if len(items) <= n:
        return items
    return rng.sample(items, n)


# ====================================================================== C10

def c10(run):
    import framework as _fw
    _fw.environment_projection(run)
    rng = random.Random(run.seed)
    quick = run.tier == "quick"
    menu = cf.load_menu("menus10.json")
    scen = menu["scenarios"]
    chosen = scen        # the whole menu in both tiers (about 40 s); the tiers differ in the number of fork validations
    base = scratch_root()
    points = 0
    try:
        for s in chosen:
            if len(run.violations) >= 12:
                break
            u = Universe()
            setup = cf.parse_history(s["setup"])
            call = cf.parse_call(s["call"])
            ip, others = s["pid"], s["others"]
            pids = sorted(set([ip] + others))
            fmts = cf.FMTS
            seq.prepare(u, setup + [call])
            for d in (7, 8):
                u.content(d, 1)
            ops = trace_case(run, u, setup, call, "P-trace", ["C10_crash_recovery"])
            snaps, final, r, ops2 = cf.crash_states(u, setup, call)
            states = [sn for _, sn in snaps] + [final, final]
            if len(ops2) != s["length"]:
                run.disagree("P-crash/length", {"scenario": s["id"], "setup": s["setup"], "call": s["call"]}, s["length"], len(ops2), ["C10_crash_recovery (crash points = operations of the model run)"])
            lines = [cf.model_crash(setup, call, n) for n in range(len(states))]
            mres = model.run_lines(lines)
            kernel_check(run, rng, lines, mres, 1)
            # what was served before the call
            _, root0 = cf.abstract_snapshot(u, states[0], base, pids, fmts, "init")
            objs0, metas0 = observe(u, root0, pids, fmts)
            ns = range(len(states))
            for n in ns:
                if len(run.violations) >= 12:
                    break           # enough concrete counter-examples; every further point would cost watchdog time
                points += 1
                st, root = cf.abstract_snapshot(u, states[n], base, pids, fmts, "re")
                mw = mres[n].rsplit(" len=", 1)[0]
                mst, _ = parse_world(mw)
                key = (s["id"], n)
                run.case("P-crash", key, nontrivial=0 < n < len(states) - 1,
                         sample={"projection": "P-crash", "setup": s["setup"], "call": s["call"], "crash_before_op": n,
                                 "op": snaps[n][0] if n < len(snaps) else "(call complete)", "files_left": st})
                run.count("call", s["call"].split()[0])
                if cf.canon_tmp(st) != cf.canon_tmp(mst):
                    run.disagree("P-crash", {"scenario": s["id"], "setup": s["setup"], "call": s["call"], "crash_before_op": n}, mst, st, ["C10_crash_recovery"])
                # ---- oracle: the property text on the implementation
                replay = {"scenario": s["id"], "setup": s["setup"], "call": s["call"], "crash_before_op": n,
                          "op": snaps[n][0] if n < len(snaps) else None}
                objs, metas = observe(u, root, pids, fmts)
                for q in others:
                    if objs[q] != objs0[q] or any(metas[(q, f)] != metas0[(q, f)] for f in fmts):
                        run.violation({"kind": "crash-others", "call": call["op"]},
                                      "process death before operation %d (%s) of [%s] after [%s] changed what pid %d serves: object %s -> %s" % (
                                          n, replay["op"], s["call"], s["setup"], q, objs0[q], objs[q]), replay)
                got = objs[ip]
                allowed = {objs0[ip]} if objs0[ip].startswith("ok:") else set()
                if call["op"] == "so":
                    allowed.add("ok:bytes:D%d.%d.%d" % (call["b"], call["n"], call["n"]))
                if call["op"] == "tag" and ("O%d" % call["c"]) in st:
                    allowed.add("ok:bytes:" + st["O%d" % call["c"]])
                if not (got in allowed or got in NOTFOUND):
                    run.violation({"kind": "crash-interrupted-pid", "call": call["op"], "served": got},
                                  "after process death before operation %d (%s) of [%s] after [%s], retrieve_object(pid %d) gives %s" % (n, replay["op"], s["call"], s["setup"], ip, got), replay)
                # recovery: delete_object (may say unknown) then store_object always succeeds
                for d in (7, 8):
                    _, rroot = cf.abstract_snapshot(u, states[n], base, pids, fmts, "rec")
                    im = Impl(u, pids, fmts, root=rroot)
                    try:
                        r1 = cf.guarded_call(im, {"op": "del", "p": ip})
                        r2 = cf.guarded_call(im, {"op": "so", "p": ip, "b": d, "n": 1}) if r1 != "HANG" else "exn:not-attempted (delete_object does not return)"
                        r3 = cf.guarded_call(im, {"op": "ro", "p": ip}) if r1 != "HANG" else "exn:not-attempted"
                        o_after = {q: cf.guarded_call(im, {"op": "ro", "p": q}) for q in others} if r1 != "HANG" else {q: objs0[q] for q in others}
                    finally:
                        for sfh in im.open_streams:
                            sfh.close()
                    if r1 not in ("ok:unit", "exn:PidRefsDoesNotExist") or not r2.startswith("ok:") or r3 != "ok:bytes:D%d.1.1" % d:
                        run.violation({"kind": "crash-recovery", "call": call["op"], "delete": r1, "store": r2.split(":")[0] + ":" + r2.split(":")[1]},
                                      "after process death before operation %d (%s) of [%s] after [%s]: delete_object(%d) -> %s, store_object(%d, content %d) -> %s, retrieve -> %s" % (
                                          n, replay["op"], s["call"], s["setup"], ip, r1, ip, d, r2, r3), dict(replay, recovery_content=d))
                    for q in others:
                        if o_after[q] != objs0[q]:
                            run.violation({"kind": "crash-recovery-others"}, "recovery of pid %d changed what pid %d serves (%s -> %s)" % (ip, q, objs0[q], o_after[q]), dict(replay, recovery_content=d))
            # the real thing for a few points: a forked child that dies there leaves the same directory
            for n in pick(rng, range(len(snaps)), 2 if quick else 6):
                left = cf.crash_fork(u, setup, call, n)
                a = {k: v for k, v in left.items() if "/tmp/" not in k}
                b = {k: v for k, v in states[n].items() if "/tmp/" not in k}
                run.case("P-crash/fork", (s["id"], n), sample=None)
                if a != b:
                    run.disagree("P-crash/fork", {"scenario": s["id"], "crash_before_op": n}, sorted(b), sorted(a), ["(snapshot-before-operation = state left by os._exit)"])
        run.extra["crash_points_checked"] = points
        run.extra["exhaustive"] = len(run.violations) < 12       # every crash point of every menu scenario was run on the implementation
        run.extra["menu_scenarios"] = len(scen)
        run.extra["scenarios_run"] = len(chosen)
    finally:
        shutil.rmtree(base, ignore_errors=True)


# ====================================================================== C13 (and the fault half of C08)

POINT = [None]      # the (scenario id : site : persistent) point under examination, for known-finding signatures


def classify_fault_violation(call, fired, pers, symptom):
    kind, rel = fired if fired else ("?", "")
    dest = "other"
    if rel.startswith("refs/pids"):
        dest = "pid-reference"
    elif rel.startswith("refs/cids"):
        dest = "cid-list"
    elif rel.startswith("objects"):
        dest = "object"
    elif rel.startswith("metadata"):
        dest = "metadata"
    elif rel.startswith("refs/tmp"):
        dest = "refs-tmp"
    return {"kind": "fault", "call": call["op"], "mode": "persistent" if pers else "once", "site": kind, "dest": dest, "symptom": symptom,
            "point": POINT[0]}


def fault_scenarios(run, menu_name, theorems, only_locks=False):
    rng = random.Random(run.seed)
    quick = run.tier == "quick"
    menu = cf.load_menu(menu_name)
    scen = menu["scenarios"]
    chosen = scen if (not quick or not only_locks) else pick(rng, scen, 16)      # C13: the whole menu in both tiers; C08 samples it in quick
    # corpus first: one recorded failing point per known family always takes part
    corpus = {}
    for s_ in scen:
        for f in s_.get("failing", []):
            corpus.setdefault(f["family"], (s_["id"], f["k"], True))
    must = {}
    for fam, (sid, k, pers) in corpus.items():
        must.setdefault(sid, []).append((k, pers))
    chosen = [s_ for s_ in scen if s_["id"] in must and s_ not in chosen] + list(chosen)
    runs = 0
    for s in chosen:
        setup = cf.parse_history(s["setup"])
        call = cf.parse_call(s["call"])
        ip, others = s["pid"], s["others"]
        pids = sorted(set([ip] + others))
        fmts = cf.FMTS
        u = Universe()
        seq.prepare(u, setup + [call])
        trace_case(run, u, setup, call, "P-trace", theorems)
        free = cf.run_faulted(u, setup, call, 10 ** 6, False)
        if free["sites"] != s["sites"]:
            run.disagree("P-fault/sites", {"scenario": s["id"], "setup": s["setup"], "call": s["call"]}, s["sites"], free["sites"], list(theorems))
        # what is served before the call
        im0 = cf.fresh_impl(u, setup, pids, fmts)
        try:
            st0 = im0.state()
            objs0 = {p: im0.call({"op": "ro", "p": p}) for p in pids}
            metas0 = {(p, f): im0.call({"op": "rm", "p": p, "f": f}) for p in pids for f in fmts}
        finally:
            im0.close()
        ks = list(range(s["sites"] + 1))
        plans = [(k, pers) for k in ks for pers in (False, True)]
        if quick and only_locks:
            plans = pick(rng, plans, 14)
        plans = [p_ for p_ in must.get(s["id"], []) if p_ not in plans] + plans
        lines = [cf.model_fault_line(setup, call, k, pers) for k, pers in plans]
        mres = model.run_lines(lines)
        if s is chosen[0] or s is chosen[-1]:
            kernel_check(run, rng, lines, mres, 2)
        for (k, pers), mr in zip(plans, mres):
            runs += 1
            POINT[0] = "%s:%d:%d:%d" % (menu_name.replace(".json", ""), s["id"], k, 1 if pers else 0)
            e = rng.choice([errno.EIO, errno.ENOSPC, errno.EACCES])
            res = cf.run_faulted(u, setup, call, k, pers, e, keep=True)
            im = res["im"]
            # the point's name for known-finding signatures: which operation on which file failed, and which occurrence of
            # it within the call (not its index among all operations: an added read-only probe elsewhere must not rename it)
            if res["fired"]:
                occ = sum(1 for x in res["site_list"] if tuple(x) == tuple(res["fired"]))
                POINT[0] = "%s:%d:%s %s#%d:%d" % (menu_name.replace(".json", ""), s["id"], res["fired"][0], im.abs.addr(res["fired"][1]), occ, 1 if pers else 0)
            try:
                mo, mst, mlocks, msites = cf.parse_fault_result(mr)
                key = (s["id"], k, pers)
                run.case("P-fault", key, nontrivial=res["fired"] is not None,
                         sample={"projection": "P-fault", "setup": s["setup"], "call": s["call"], "site": k, "persistent": pers, "errno": errno.errorcode[e],
                                 "failing_operation": res["fired"], "outcome": res["outcome"]})
                run.count("mode", "persistent" if pers else "once")
                run.count("outcome", res["outcome"].split(":")[1] if res["outcome"].startswith("exn") else "ok")
                if res["fired"]:
                    run.count("site_kind", res["fired"][0])
                cm = (mo, cf.canon_tmp(mst), sorted(mlocks))
                ci = (res["outcome"], cf.canon_tmp(res["state"]), sorted(res["locks"]))
                if cm != ci:
                    run.disagree("P-fault", {"scenario": s["id"], "setup": s["setup"], "call": s["call"], "site": k, "persistent": pers, "failing_operation": res["fired"]},
                                 "%s %s %s" % (mo, mst, mlocks), "%s %s %s" % (res["outcome"], res["state"], res["locks"]), list(theorems))
                # ---- oracles (property text, implementation only)
                replay = {"scenario": s["id"], "setup": s["setup"], "call": s["call"], "site": k, "persistent": pers, "errno": errno.errorcode[e],
                          "failing_operation": res["fired"], "point": "%d:%d:%d" % (s["id"], k, 1 if pers else 0)}
                out = res["outcome"]
                st = res["state"]
                if out == "HANG":
                    run.violation(classify_fault_violation(call, res["fired"], pers, "does-not-return"),
                                  "[%s] after [%s] with %s failure at site %d %s does not return (identifiers held: %s)" % (
                                      s["call"], s["setup"], "persistent" if pers else "one-off", k, res["fired"], res["locks"]), replay)
                    continue
                if res["locks"]:
                    run.violation(classify_fault_violation(call, res["fired"], pers, "identifier-left-locked"),
                                  "[%s] with %s failure at site %d %s returned %s and left identifiers locked: %s" % (s["call"], "persistent" if pers else "one-off", k, res["fired"], out, res["locks"]), replay)
                if only_locks:
                    # a follow-up call on the same identifiers completes (C08); run it with a watchdog
                    follow = follow_up(im, call)
                    if follow is None:
                        run.violation(classify_fault_violation(call, res["fired"], pers, "follow-up-blocks"),
                                      "after [%s] failed at site %d %s a follow-up call on the same identifiers does not return" % (s["call"], k, res["fired"]), replay)
                    continue
                perm = lambda d_: {a: b for a, b in d_.items() if not a.startswith("T") and not a.startswith("X")}
                if out.startswith("ok:"):
                    if perm(st) != perm(free["state"]):
                        run.violation(classify_fault_violation(call, res["fired"], pers, "success-without-effect"),
                                      "[%s] with a failure at site %d %s reported success but its effect is incomplete: %s instead of %s" % (s["call"], k, res["fired"], perm(st), perm(free["state"])), replay)
                else:
                    sym = None
                    if call["op"] in ("so", "tag"):
                        bound_before = st0.get("P%d" % ip)
                        now = st.get("P%d" % ip)
                        listed = [a for a, b in st.items() if a.startswith("R") and str(ip) in b[1:].split(",")]
                        intact = bound_before is not None and now == bound_before and listed == ["R" + bound_before[1:]]
                        unbound = now is None and not listed
                        # the property: "the pid is unbound and can be stored again at once (or its earlier binding is intact)"
                        if not intact and not unbound:
                            if bound_before is not None:
                                sym = "earlier-binding-damaged"
                            elif now is not None and listed:
                                sym = "raised-but-bound"
                            else:
                                sym = "raised-half-bound"
                    if call["op"] == "sm" and st.get("M%d.%d" % (call["p"], call["f"])) != st0.get("M%d.%d" % (call["p"], call["f"])):
                        sym = "previous-document-version-lost"
                    if sym:
                        run.violation(classify_fault_violation(call, res["fired"], pers, sym),
                                      "[%s] after [%s] with %s failure (%s) at site %d %s raised %s and left pid %d %s: %s" % (
                                          s["call"], s["setup"], "persistent" if pers else "one-off", errno.errorcode[e], k, res["fired"], out, ip, sym, perm(st)), replay)
                    elif call["op"] in ("so", "tag") and st.get("P%d" % ip) is None:
                        # unbound: can be stored again at once (the failure does not persist beyond the call)
                        r2 = cf.guarded_call(im, dict(call))
                        ok2 = r2.startswith("ok:") or (call["op"] == "tag" and r2 == "ok:unit")
                        if not ok2:
                            run.violation(classify_fault_violation(call, res["fired"], pers, "retry-rejected"),
                                          "[%s] failed at site %d %s with %s; the retry is rejected with %s" % (s["call"], k, res["fired"], out, r2), replay)
                    if call["op"] in ("del", "dm"):
                        r2 = cf.guarded_call(im, {"op": "del", "p": ip})
                        if r2 not in ("ok:unit", "exn:PidRefsDoesNotExist"):
                            run.violation(classify_fault_violation(call, res["fired"], pers, "delete-after-failure-fails"),
                                          "[%s] failed at site %d %s with %s; a later delete_object(pid %d) gives %s" % (s["call"], k, res["fired"], out, ip, r2), replay)
                # every other pid's data is untouched
                for q in others:
                    o = cf.guarded_call(im, {"op": "ro", "p": q})
                    if o != objs0[q] or any(cf.guarded_call(im, {"op": "rm", "p": q, "f": f}) != metas0[(q, f)] for f in fmts):
                        run.violation(classify_fault_violation(call, res["fired"], pers, "other-pid-disturbed"),
                                      "[%s] with a failure at site %d %s changed what pid %d serves (%s -> %s)" % (s["call"], k, res["fired"], q, objs0[q], o), replay)
            finally:
                im.close()
    run.extra["faulted_runs"] = runs
    if not only_locks:
        run.extra["exhaustive"] = True                           # every fault site x mode of every menu scenario was run on the implementation
    run.extra["menu_scenarios"] = len(scen)
    run.extra["scenarios_run"] = len(chosen)


def follow_up(im, call):
    """a call on the same identifiers, under a watchdog; -> outcome or None if it does not return"""
    import threading
    box = []

    def go():
        c = {"so": {"op": "ro", "p": call.get("p") or 1}, "tag": {"op": "tag", "p": call.get("p"), "c": call.get("c")},
             "del": {"op": "del", "p": call.get("p")}, "sm": {"op": "sm", "p": call.get("p"), "f": call.get("f", 0), "v": 2, "n": 1},
             "dm": {"op": "dm", "p": call.get("p"), "f": call.get("f")}}.get(call["op"], {"op": "ro", "p": 1})
        if call["op"] == "so" and call.get("p") is not None:
            c = {"op": "so", "p": call["p"], "b": call["b"], "n": call["n"]}
            # a store for the same pid takes the same identifiers; its outcome does not matter here
        r = im.call(c)
        # ... and the identifiers can be taken through a whole life cycle again: store (or tag) the pid, delete it, store it
        # once more — each call has to return, whatever it answers (a wait on something the failed call left behind shows here)
        p = call.get("p")
        if p is not None and call["op"] in ("so", "tag", "del"):
            b = call.get("b") or call.get("c") or 7
            n = call.get("n") or 1
            for c2 in ({"op": "so", "p": p, "b": b, "n": n}, {"op": "del", "p": p}, {"op": "so", "p": p, "b": b, "n": n}, {"op": "del", "p": p}):
                im.call(c2)
        box.append(r)
    t = threading.Thread(target=go, daemon=True)
    t.start()
    t.join(8.0)
    return box[0] if box else None


def source_read_faults(run):
    """search beyond the model's fault sites: the caller's data file fails in mid-transfer (a read of the k-th buffer raises).
    In the code that error surfaces inside the same loop as a failing write of the same buffer into the staging file, which IS a
    site of the model (WriteChunk; P-fault ties it to the model): so the two runs must agree on outcome class, files and
    identifiers held, and the property's clauses are judged on the source-read run directly."""
    cases = [("", "so 1 p 9 3 n n"), ("so 2 p 7 1 n n", "so 1 p 7 1 n n"), ("so 1 p 7 1 n n", "so 1 p 9 3 n n"), ("", "so - p 9 3 n n"),
             ("", "sm 1 0 p 1 3"), ("sm 1 0 p 1 1", "sm 1 0 p 2 3")]
    for setup_t, call_t in cases:
        setup, call = cf.parse_history(setup_t), cf.parse_call(call_t)
        u = Universe()
        seq.prepare(u, setup + [call])
        n = call["n"]
        for j in range(n + 1):                       # the (n+1)-th read is the one that reports the end of the data
            for pers in (False, True):
                e = errno.EIO
                rs = cf.run_faulted(u, setup, call, j, pers, e, only_kind="readsrc", keep=True)
                im = rs["im"]
                try:
                    rw = cf.run_faulted(u, setup, call, min(j, n - 1), False, e, only_kind="write")
                    fired = rs["fired"] is not None
                    run.case("search-source-read-faults", (setup_t, call_t, j, pers), nontrivial=fired,
                             sample={"search": "the data source fails while buffer k is read", "setup": setup_t, "call": call_t, "buffer": j,
                                     "persistent": pers, "outcome": rs["outcome"], "same_buffer_write_fault": rw["outcome"]})
                    if not fired:
                        continue
                    replay = {"setup": setup_t, "call": call_t, "source_read": j, "persistent": pers}
                    sig = {"kind": "fault", "call": call["op"], "mode": "persistent" if pers else "once", "site": "readsrc", "dest": "source"}
                    if rs["outcome"] == "HANG":
                        run.violation(dict(sig, symptom="does-not-return"), "[%s] after [%s]: the data source fails at its read number %d and the call does not return (identifiers held: %s)" % (call_t, setup_t, j, rs["locks"]), replay)
                        continue
                    if rs["locks"]:
                        run.violation(dict(sig, symptom="identifier-left-locked"), "[%s]: the data source fails at read %d; the call returned %s and left identifiers locked: %s" % (call_t, j, rs["outcome"], rs["locks"]), replay)
                    if follow_up(im, call) is None:
                        run.violation(dict(sig, symptom="follow-up-blocks"), "[%s]: after the data source failed at read %d a follow-up call on the same identifiers does not return" % (call_t, j), replay)
                        continue
                    if rs["outcome"].startswith("ok:"):
                        run.violation(dict(sig, symptom="success-without-effect"), "[%s] after [%s]: the data source failed at read %d (buffer not delivered) and the call reported success: %s" % (call_t, setup_t, j, rs["outcome"]), replay)
                    a = (rs["outcome"].startswith("exn:"), cf.canon_tmp(rs["state"]), sorted(rs["locks"]))
                    b = (rw["outcome"].startswith("exn:"), cf.canon_tmp(rw["state"]), sorted(rw["locks"]))
                    if a != b:
                        run.disagree("P-fault/source-read", replay, "as the failing write of that buffer: %s %s %s" % (rw["outcome"], rw["state"], rw["locks"]),
                                     "%s %s %s" % (rs["outcome"], rs["state"], rs["locks"]), ["FaultGeneral.rfs_write_chunks", "C13_fault_safe"])
                finally:
                    im.close()


def c13(run):
    fault_scenarios(run, "menus13.json", ["C13_fault_safe", "C13_one_off_all_pass", "C13_no_lock_left"])
    source_read_faults(run)


# ====================================================================== C09

def integrity_problems(u, snap, supplied_docs):
    """the property's three clauses, on raw bytes of a directory snapshot"""
    bad = []
    for rel, data in snap.items():
        parts = rel.split(os.sep)
        if parts[0] == "objects" and parts[1] != "tmp" and not rel.endswith("_delete"):
            name = "".join(parts[1:])
            if hashlib.new(u.halg, data).hexdigest() != name:
                bad.append("object file %s holds %d bytes whose digest is not its name" % (rel[:30], len(data)))
        if parts[0] == "metadata" and parts[1] != "tmp" and not rel.endswith("_delete"):
            if data not in supplied_docs:
                bad.append("metadata document %s holds %d bytes that no store_metadata call supplied completely" % (rel[:30], len(data)))
        if parts[0] == "refs" and parts[1] == "pids" and not rel.endswith("_delete"):
            s = data.decode("utf-8", "replace")
            if len(s) != hashlib.new(u.halg).digest_size * 2 or any(ch not in "0123456789abcdef" for ch in s):
                bad.append("pid reference %s holds %r, not one complete cid" % (rel[:30], s[:20]))
    return bad


def c09(run):
    import framework as _fw
    _fw.environment_projection(run)
    rng = random.Random(run.seed)
    quick = run.tier == "quick"
    cases = []
    sizes = [0, 1, 2, 4] if quick else [0, 1, 2, 3, 4, 6]       # chunks: 0 = empty, n = (n-1) buffers + 64..70 bytes
    for n in sizes:
        cases.append(([], {"op": "so", "p": 1, "b": 7, "n": max(n, 0)} if n else {"op": "so", "p": 1, "b": 0, "n": 0}))
    S1 = [{"op": "so", "p": 1, "b": 7, "n": 3}]
    cases += [
        (S1, {"op": "so", "p": 2, "b": 7, "n": 3}),                       # duplicate content
        (S1, {"op": "so", "p": 1, "b": 8, "n": 2}),                       # pid already bound, new content
        (S1, {"op": "so", "p": None, "b": 8, "n": 2}),
        (S1, {"op": "del", "p": 1}),
        (S1 + [{"op": "so", "p": 2, "b": 7, "n": 3}], {"op": "del", "p": 1}),
        (S1, {"op": "tag", "p": 2, "c": 7}),
        ([], {"op": "tag", "p": 1, "c": 100}),
        ([], {"op": "sm", "p": 1, "f": 0, "v": 1, "n": 3}),
        ([{"op": "sm", "p": 1, "f": 0, "v": 1, "n": 3}], {"op": "sm", "p": 1, "f": 0, "v": 2, "n": 2}),     # overwrite
        ([{"op": "sm", "p": 1, "f": 0, "v": 1, "n": 1}], {"op": "sm", "p": 1, "f": 0, "v": 0, "n": 0}),     # overwrite by an empty document
        (S1 + [{"op": "sm", "p": 1, "f": 0, "v": 1, "n": 2}, {"op": "sm", "p": 1, "f": 1, "v": 2, "n": 1}], {"op": "del", "p": 1}),
        ([{"op": "sm", "p": 1, "f": 0, "v": 1, "n": 2}, {"op": "sm", "p": 1, "f": 1, "v": 2, "n": 1}], {"op": "dm", "p": 1, "f": None}),
        (S1, {"op": "so", "p": 2, "b": 7, "n": 3, "sz": "b", "ck": "n"}),
        ([{"op": "so", "p": None, "b": 7, "n": 3}], {"op": "dii", "c": 7, "sz": "n", "pre": True, "ok": False}),
    ]
    instants = 0
    for setup, call in cases:
        u = Universe()
        seq.prepare(u, setup + [call])
        trace_case(run, u, setup, call, "P-trace", ["integrity_invariant", "api_never_writes_permanent_in_place", "api_publishes_from_own_temp"])
        snaps, final, r, ops = cf.crash_states(u, setup, call, also=("tclose",))
        supplied = {b""}
        for c in setup + [call]:
            if c["op"] == "sm":
                supplied.add(b"" if c["n"] == 0 else u.content(1000 + c["v"], c["n"]))
        prev = None
        for k, (op, snap) in enumerate(snaps + [("(returned)", final)]):
            instants += 1
            bad = integrity_problems(u, snap, supplied)
            run.case("observer", (token_line(call), tuple(token_line(c) for c in setup), k), nontrivial=True,
                     sample={"search": "directory observed before every operation", "setup": [token_line(c) for c in setup], "call": token_line(call),
                             "instant": k, "next_operation": op, "files": len(snap)})
            for b in bad[:2]:
                run.violation({"kind": "integrity", "call": call["op"], "what": b.split(" ")[0]},
                              "during [%s] after [%s], before operation %d (%s): %s" % (token_line(call), "; ".join(token_line(c) for c in setup), k, op, b),
                              {"setup": seq.strip(setup), "call": seq.strip([call])[0], "instant": k, "next_operation": op})
            # single-step publication: a permanent file's content changes only across a rename / remove operation
            if prev is not None:
                pop, psnap = prev
                for rel in set(psnap) | set(snap):
                    parts = rel.split(os.sep)
                    permanent = (parts[0] in ("objects", "metadata") and parts[1] != "tmp") or (parts[0] == "refs" and parts[1] == "pids")
                    if permanent and psnap.get(rel) != snap.get(rel) and not pop.startswith(("rename", "remove")):
                        run.violation({"kind": "publication", "op": pop.split()[0]},
                                      "during [%s]: permanent file %s changed across operation [%s], which is neither a rename nor a remove" % (token_line(call), rel[:40], pop),
                                      {"setup": seq.strip(setup), "call": seq.strip([call])[0], "operation": pop})
            prev = (op, snap)
    run.extra["instants_observed"] = instants
    # ---- concurrent observer: the directory as a concurrent reader sees it after EVERY step of random schedules of two / three
    #      writers (same pid with different formats, same content under different pids, store against delete)
    import sched as sch_mod
    POOLS = [("", "sm 1 0 p 1 3 || sm 1 1 p 2 2"), ("sm 1 0 p 1 2", "sm 1 0 p 2 3 || sm 1 1 p 1 2 || dm 1 0"),
             ("", "so 1 p 7 3 n n || so 2 p 7 3 n n"), ("so 1 p 7 3 n n", "so 2 p 7 3 n n || del 1"),
             ("so - p 7 3 n n", "tag 1 7 || tag 2 7 || so 3 p 8 2 n n"), ("so 1 p 7 3 n n ; sm 1 0 p 1 2", "del 1 || sm 1 0 p 2 3")]
    for setup_t, calls_t in POOLS:
        setup = cf.parse_history(setup_t)
        calls = [cf.parse_call(x) for x in calls_t.split("||")]
        for k in range(4 if quick else 40):
            u = Universe()
            seq.prepare(u, setup + calls)
            supplied = {b""}
            for c in setup + calls:
                if c["op"] == "sm":
                    supplied.add(b"" if c["n"] == 0 else u.content(1000 + c["v"], c["n"]))
            bad_box = []

            def on_step(im, sc, i, bad_box=bad_box, supplied=supplied, u=u):
                if bad_box:
                    return
                with fsmon._Suppress():
                    snap = cf.snapshot_tree(im.root)
                b = integrity_problems(u, snap, supplied)
                if b:
                    bad_box.append((len(sc.steps), i, b[0]))
            r = sch_mod.run_schedule(u, [dict(c) for c in setup], [dict(c) for c in calls], rng=random.Random(rng.random()),
                                     sticky=rng.choice([0.0, 0.6, 0.9]), on_step=on_step)
            instants += len(r["schedule"])
            run.case("observer/concurrent", (calls_t, tuple(r["schedule"])), nontrivial=True,
                     sample={"search": "directory observed after every step of a concurrent schedule", "setup": setup_t, "calls": calls_t, "steps": len(r["schedule"])})
            if bad_box:
                step, th, what = bad_box[0]
                run.violation({"kind": "integrity-concurrent", "what": what.split(" ")[0]},
                              "during [%s] after [%s], after step %d of schedule %s: %s" % (calls_t, setup_t, step, ",".join(map(str, r["schedule"][:step])), what),
                              {"setup": setup_t, "calls": calls_t, "schedule": ",".join(map(str, r["schedule"]))})
                break
    run.extra["instants_observed"] = instants
    # ---- P-trace over states reached by random histories: the operation sequence of the LAST call of each history
    A = seq.alphabet("all", contents={7: 1, 8: 1}, pids=(1, 2, 3))      # one size per content id: a content token is one byte string
    for _ in range(40 if quick else 500):
        h = seq.random_history(rng, A, rng.randint(1, 7))
        for c in h:
            c.pop("real", None)
        u = Universe()
        for _i in range(2):
            seq.prepare(u, h)
        trace_case(run, u, h[:-1], h[-1], "P-trace/random", ["integrity_invariant (the programs are what the code does)"])


CHECKS = {"C10": c10, "C13": c13, "C09": c09}
