"""framework — what every check shares: proof build + audit, bookkeeping of correspondence
cases, violation / known-finding verdicts, evidence files."""
import fcntl
import glob
import json
import os
import re
import subprocess
import sys
import time

VERIF = os.path.dirname(os.path.dirname(os.path.abspath(__file__)))
COQ = os.path.join(VERIF, "coq")
THEORIES = os.path.join(COQ, "theories")
PROPS = os.path.join(THEORIES, "props")
EVIDENCE = os.environ.get("VERIF_EVIDENCE_DIR") or os.path.join(VERIF, "evidence")     # seeded runs write elsewhere
REPLAYS = os.path.join(VERIF, "replays")
KNOWN = os.path.join(VERIF, "known_findings.json")

FORBIDDEN = re.compile(
    r"\bAdmitted\b|\badmit\b|\bAxiom\b|\bAxioms\b|\bParameter\b|\bParameters\b|\bConjecture\b|"
    r"Unset\s+Guard|Unset\s+Positivity|Unset\s+Universe|bypass_check|type-in-type|impredicative-set|"
    r"Admit\s+Obligations|\bnative_compute\b")
STMT = re.compile(r"^\s*(?:Local\s+|Global\s+)?(Theorem|Lemma|Example|Corollary|Proposition|Fact|Remark)\s+([A-Za-z0-9_']+)", re.M)

TRUSTED_BASE = [
    "Coq 8.16.1 kernel (coqc; vm_compute for closed boolean obligations; no native_compute)",
    "hand-written Gallina model of FileHashStore (coq/theories), tied to /repo by the correspondence projections run in this check",
    "extraction: ExtrOcamlBasic only (bool, option, unit, list, prod, sumbool, sumor, andb/orb inlined) + OCaml 4.13.1 + extract/driver.ml (I/O glue); a sample of cases is re-evaluated by the kernel (vm_compute) and must agree",
    "harness/fsmon.py interposition, harness/universe.py token<->string mapping and disk abstraction",
    "platform facts listed in DESIGN.md section 8 (hashlib incremental = one-shot, POSIX rename/unlink atomicity, fresh temp names, st_blksize > 0)",
]


def strip_comments(src):
    out, depth, i = [], 0, 0
    while i < len(src):
        if src.startswith("(*", i):
            depth += 1
            i += 2
        elif src.startswith("*)", i) and depth > 0:
            depth -= 1
            i += 2
        else:
            if depth == 0:
                out.append(src[i])
            i += 1
    return "".join(out)


def coq_deps(vfile, seen=None):
    """Transitive HS.* dependencies of a .v file (by its Require lines)."""
    seen = seen if seen is not None else set()
    if vfile in seen or not os.path.exists(vfile):
        return seen
    seen.add(vfile)
    src = strip_comments(open(vfile).read())
    for m in re.finditer(r"From\s+HS\s+Require\s+(?:Import|Export)\s+([^.]+)\.", src):
        for name in m.group(1).split():
            cand = [os.path.join(THEORIES, name + ".v"), os.path.join(PROPS, name + ".v")]
            for c in cand:
                if os.path.exists(c):
                    coq_deps(c, seen)
    return seen


class Run:
    def __init__(self, prop, tier, seed):
        self.prop, self.tier, self.seed = prop, tier, seed
        self.t0 = time.time()
        self.obligations = 0
        self.discharged = 0
        self.theorems = []
        self.axioms = {}
        self.proof_failures = []
        self.proj = {}          # projection -> {"cases": n, "disagreements": n}
        self.disagreements = [] # dicts
        self.evaluations = 0
        self.distinct = set()
        self.samples = []
        self.dist = {}
        self.violations = []    # dicts with signature/what/replay
        self.known_hits = []
        self.notes = []
        self.traces_validated = 0
        self.extra = {}
        os.makedirs(os.path.join(REPLAYS, prop), exist_ok=True)
        try:
            self.known = json.load(open(KNOWN))
        except Exception:
            self.known = {"known": [], "fixed": []}

    # ------------------------------------------------------------ proof
    def proof(self, files=None):
        """Incremental make of the development, unconditional re-check of props/<ID>.v, audit."""
        os.makedirs(COQ, exist_ok=True)
        lock = open(os.path.join(COQ, ".buildlock"), "w")
        fcntl.flock(lock, fcntl.LOCK_EX)
        try:
            if not os.path.exists(os.path.join(COQ, "Makefile")):
                subprocess.run(["sh", os.path.join(VERIF, "setup.sh")], capture_output=True, text=True, timeout=3600)
            # only this property's dependency cone (and the model runner's): an unrelated part of the
            # development being rebuilt or broken must not disturb this check
            targets = ["theories/CodecA.vo"]
            for extra_pf in sorted(glob.glob(os.path.join(PROPS, self.prop + "*.v"))):
                targets.append("theories/props/%s.vo" % os.path.basename(extra_pf)[:-2])
            p = subprocess.run(["make", "-j16"] + targets, cwd=COQ, capture_output=True, text=True, timeout=3000)
            if p.returncode != 0:
                self.proof_failures.append("make failed: " + (p.stdout + p.stderr)[-1500:])
            if not os.path.exists(os.path.join(VERIF, "extract", "modelrun")) or \
               os.path.getmtime(os.path.join(VERIF, "extract", "modelrun")) < os.path.getmtime(os.path.join(THEORIES, "CodecA.vo")):
                b = subprocess.run(["sh", os.path.join(VERIF, "extract", "build.sh")], capture_output=True, text=True, timeout=1200)
                if b.returncode != 0:
                    self.proof_failures.append("extraction build failed: " + (b.stdout + b.stderr)[-800:])
        finally:
            fcntl.flock(lock, fcntl.LOCK_UN)
            lock.close()
        pf = os.path.join(PROPS, self.prop + ".v")
        if not os.path.exists(pf):
            self.proof_failures.append("missing property file " + pf)
            return
        outdir = os.path.join(REPLAYS, self.prop)
        p = subprocess.run(["coqc", "-Q", THEORIES, "HS", "-o", os.path.join(outdir, self.prop + ".vo"), pf],
                           capture_output=True, text=True, timeout=1800)
        for ext in (".vo", ".vok", ".vos", ".glob"):
            try:
                os.remove(os.path.join(outdir, self.prop + ext))
            except OSError:
                pass
        out = p.stdout + p.stderr
        if p.returncode != 0:
            self.proof_failures.append("props/%s.v does not check: %s" % (self.prop, out[-1500:]))
        # Print Assumptions output
        src = strip_comments(open(pf).read())
        asked = re.findall(r"Print\s+Assumptions\s+([A-Za-z0-9_'.]+)\s*\.", src)
        closed = out.count("Closed under the global context")
        axioms = re.findall(r"^Axioms:\n((?:.+\n?)+?)(?=\n\S|\Z)", out, re.M)
        self.theorems = asked
        if axioms:
            self.axioms = {"listed": [a.strip() for a in axioms]}
        if p.returncode == 0 and closed + len(axioms) < len(asked):
            self.proof_failures.append("Print Assumptions answered %d of %d" % (closed + len(axioms), len(asked)))
        # audit + obligations over the dependency cone
        deps = sorted(coq_deps(pf))
        n_ob, n_dis = 0, 0
        for v in deps:
            s = strip_comments(open(v).read())
            bad = FORBIDDEN.findall(s)
            if bad:
                self.proof_failures.append("forbidden construct %r in %s" % (sorted(set(bad)), os.path.relpath(v, VERIF)))
            k = len(STMT.findall(s))
            n_ob += k
            vo = v[:-2] + ".vo"
            if v == pf:
                if p.returncode == 0:
                    n_dis += k
            elif os.path.exists(vo) and os.path.getmtime(vo) >= os.path.getmtime(v):
                n_dis += k
            else:
                self.proof_failures.append("no up-to-date .vo for " + os.path.relpath(v, VERIF))
        # companion property files props/<ID><suffix>.v (general theorems added next to a generated file)
        for comp in sorted(glob.glob(os.path.join(PROPS, self.prop + "?*.v"))):
            q = subprocess.run(["coqc", "-Q", THEORIES, "HS", "-o", os.path.join(outdir, os.path.basename(comp)[:-2] + ".vo"), comp],
                               capture_output=True, text=True, timeout=1800)
            for ext in (".vo", ".vok", ".vos", ".glob"):
                try:
                    os.remove(os.path.join(outdir, os.path.basename(comp)[:-2] + ext))
                except OSError:
                    pass
            o2 = q.stdout + q.stderr
            src2 = strip_comments(open(comp).read())
            asked2 = re.findall(r"Print\s+Assumptions\s+([A-Za-z0-9_'.]+)\s*\.", src2)
            if q.returncode != 0:
                self.proof_failures.append("props/%s does not check: %s" % (os.path.basename(comp), o2[-800:]))
            elif o2.count("Closed under the global context") < len(asked2):
                ax2 = re.findall(r"^Axioms:\n((?:.+\n?)+?)(?=\n\S|\Z)", o2, re.M)
                if ax2:
                    self.axioms.setdefault("listed", []).extend(a.strip() for a in ax2)
                else:
                    self.proof_failures.append("Print Assumptions of %s answered fewer than asked" % os.path.basename(comp))
            self.theorems = list(self.theorems) + asked2
            for v in sorted(coq_deps(comp)):
                if v in deps:
                    continue
                deps.append(v)
                s2 = strip_comments(open(v).read())
                bad = FORBIDDEN.findall(s2)
                if bad:
                    self.proof_failures.append("forbidden construct %r in %s" % (sorted(set(bad)), os.path.relpath(v, VERIF)))
                k = len(STMT.findall(s2))
                n_ob += k
                vo = v[:-2] + ".vo"
                if v == comp:
                    n_dis += k if q.returncode == 0 else 0
                elif os.path.exists(vo) and os.path.getmtime(vo) >= os.path.getmtime(v):
                    n_dis += k
                else:
                    self.proof_failures.append("no up-to-date .vo for " + os.path.relpath(v, VERIF))
        self.extra["proof_files"] = [os.path.relpath(v, VERIF) for v in deps]
        self.extra["property_theorems"] = self.theorems
        self.obligations, self.discharged = n_ob, n_dis
        # thorough tier: the independent checker re-checks the compiled property file and everything it depends on
        if self.tier == "thorough" and p.returncode == 0 and os.environ.get("VERIF_COQCHK", "1") != "0":
            try:
                c = subprocess.run(["coqchk", "-silent", "-o", "-Q", THEORIES, "HS", "HS.props." + self.prop],
                                   capture_output=True, text=True, timeout=3000)
                out2 = c.stdout + c.stderr
                m = re.search(r"\* Axioms:\s*(.*?)\n\s*\n", out2, re.S)
                self.extra["coqchk"] = {"exit": c.returncode, "axioms": (m.group(1).strip() if m else "?")[:600]}
                if c.returncode != 0:
                    self.proof_failures.append("coqchk rejects props/%s.vo: %s" % (self.prop, out2[-600:]))
            except subprocess.TimeoutExpired:
                self.extra["coqchk"] = {"exit": "timeout"}
        self.extra["proof_files"] = [os.path.relpath(v, VERIF) for v in deps]
        self.extra["property_theorems"] = asked

    # ------------------------------------------------------------ bookkeeping
    def case(self, proj, key, nontrivial=True, sample=None):
        self.evaluations += 1
        self.heartbeat = time.time()
        self.last_case = (proj, str(key)[:300])
        d = self.proj.setdefault(proj, {"cases": 0, "disagreements": 0})
        d["cases"] += 1
        if nontrivial:
            self.distinct.add((proj, key))
        if sample is not None and len(self.samples) < 12 and (len(self.samples) < 3 or self.evaluations % 97 == 0):
            self.samples.append(sample)

    def count(self, name, key):
        d = self.dist.setdefault(name, {})
        d[key] = d.get(key, 0) + 1

    def disagree(self, proj, case, model, impl, theorems=None):
        d = self.proj.setdefault(proj, {"cases": 0, "disagreements": 0})
        d["disagreements"] += 1
        if len(self.disagreements) < 50:
            self.disagreements.append({"projection": proj, "case": case, "model": model, "impl": impl,
                                       "theorems_resting_on_this_model_fragment": theorems or []})

    def violation(self, signature, what, replay):
        """signature: dict used to match known findings."""
        if os.environ.get("VERIF_DUMP_SIGNATURES"):          # maintenance aid (tools/rekey_known13.py): every signature seen, matched or not
            with open(os.environ["VERIF_DUMP_SIGNATURES"], "a") as fh:
                fh.write(json.dumps(signature, default=str) + "\n")
        for k in self.known.get("known", []):
            if k.get("property") == self.prop and sig_match(k.get("signature", {}), signature):
                if k["id"] not in [h["id"] for h in self.known_hits]:
                    self.known_hits.append({"id": k["id"], "what": k["what"]})
                return False
        if len(self.violations) < 50:
            self.violations.append({"signature": signature, "what": what, "replay": replay})
        return True

    # ------------------------------------------------------------ verdict
    def finish(self, level="proof", assumptions=None, rule=None):
        code = 0
        lines = []
        for h in self.known_hits:
            lines.append("KNOWN-FINDING: property=%s %s" % (self.prop, h["what"]))
        if self.violations:
            path = os.path.join("replays", self.prop, "viol-%d.json" % int(self.seed))
            json.dump({"property": self.prop, "kind": "violation", "violations": self.violations,
                       "disagreements": self.disagreements[:10]},
                      open(os.path.join(VERIF, path), "w"), indent=1, default=str)
            lines.append("VIOLATION property=%s replay=%s" % (self.prop, path))
            for v in self.violations[:5]:
                lines.append("  what: " + v["what"])
            code = 1
        elif self.disagreements or self.proof_failures:
            path = os.path.join("replays", self.prop, "corr-%d.json" % int(self.seed))
            json.dump({"property": self.prop, "kind": "no-failing-input-found",
                       "proof_failures": self.proof_failures, "disagreements": self.disagreements,
                       "note": "the theorem(s) / correspondence projection(s) named here no longer check; the "
                               "implementation-side search found no concrete failing input"},
                      open(os.path.join(VERIF, path), "w"), indent=1, default=str)
            lines.append("VIOLATION property=%s replay=%s no-failing-input-found" % (self.prop, path))
            for f in self.proof_failures[:3]:
                lines.append("  proof: " + f[:300])
            for d in self.disagreements[:3]:
                lines.append("  corr[%s]: case=%s model=%s impl=%s" % (d["projection"], json.dumps(d["case"], default=str)[:300],
                                                                     str(d["model"])[:200], str(d["impl"])[:200]))
            code = 1
        ev = {
            "property_id": self.prop,
            "tier": self.tier,
            "seed": int(self.seed),
            "level": level,
            "coverage": {
                "obligations": self.obligations,
                "discharged": self.discharged,
                "checker_cmd": "make -C coq (coq_makefile, full .vo) && coqc -Q coq/theories HS coq/theories/props/%s.v (Print Assumptions parsed) && forbidden-construct audit" % self.prop,
                "trusted_base": TRUSTED_BASE,
                "evaluations": self.evaluations,
                "distinct_nontrivial": len(self.distinct),
                "rule": rule or "correspondence / search cases; distinct by (projection, canonical case key); trivial = rejected before reaching the store",
                "samples": self.samples[:12] if self.samples else [{"note": "no case sample recorded"}],
                "traces_validated_against_impl": self.traces_validated,
                "projections": self.proj,
                "input_distribution": self.dist,
                "property_theorems": self.theorems,
                "axioms_reported_by_Print_Assumptions": self.axioms or "none: every theorem is closed under the global context",
                "proof_failures": self.proof_failures,
                "disagreements": len(self.disagreements),
                "known_findings_hit": self.known_hits,
                "notes": self.notes,
            },
            "assumptions": assumptions or [],
            "wall_s": round(time.time() - self.t0, 2),
            "violations": len(self.violations),
        }
        ev["coverage"].update(self.extra)
        os.makedirs(EVIDENCE, exist_ok=True)
        json.dump(ev, open(os.path.join(EVIDENCE, self.prop + ".json"), "w"), indent=1, default=str)
        for ln in lines:
            print(ln)
        print("%s %s: obligations=%d discharged=%d evaluations=%d distinct=%d disagreements=%d violations=%d known=%d wall=%.1fs" % (
            self.prop, self.tier, self.obligations, self.discharged, self.evaluations, len(self.distinct),
            len(self.disagreements), len(self.violations), len(self.known_hits), time.time() - self.t0))
        sys.stdout.flush()
        return code


def sig_match(pattern, sig):
    """every key of the known finding's signature must be present and equal (lists: subset)."""
    for k, v in pattern.items():
        if k not in sig:
            return False
        if isinstance(v, list):
            if not set(map(str, v)) >= set(map(str, sig[k] if isinstance(sig[k], list) else [sig[k]])):
                return False
        elif str(sig[k]) != str(v):
            return False
    return True


BUILTIN_EXNS = {"ValueError", "TypeError", "KeyError", "RuntimeError", "FileNotFoundError", "FileExistsError", "OSError",
                "AttributeError", "AssertionError", "Exception"}


def consts_projection(run):
    """P-consts: the constants the model is written against vs the live classes (every check runs it)."""
    import inspect
    import shutil
    import model
    from universe import scratch_root, DEFAULT_NS
    line = model.run_lines(["A consts"])[0]
    m = dict(kv.split("=", 1) for kv in line.split(" "))
    import hashstore.filehashstore as fhs
    import hashstore.filehashstore_exceptions as fex
    base = scratch_root()
    try:
        hs = fhs.FileHashStore({"store_path": os.path.join(base, "s"), "store_depth": 3, "store_width": 2, "store_algorithm": "SHA-256",
                                "store_metadata_namespace": DEFAULT_NS})
        live = {"default": ",".join(hs.default_algo_list), "other": ",".join(fhs.FileHashStore.other_algo_list),
                "keys": ",".join(fhs.FileHashStore.property_required_keys)}
    finally:
        shutil.rmtree(base, ignore_errors=True)
    for k, v in live.items():
        run.case("P-consts", k, nontrivial=True, sample=None)
        if m.get(k) != v:
            run.disagree("P-consts", {"constant": k}, m.get(k), v, ["(every theorem that mentions the algorithm lists / required keys)"])
    custom = {n: c for n, c in inspect.getmembers(fex, inspect.isclass) if c.__module__ == fex.__name__}
    want = set(m["exns"].split(",")) - BUILTIN_EXNS
    run.case("P-consts", "exceptions", nontrivial=True, sample=None)
    if set(custom) != want:
        run.disagree("P-consts", {"constant": "exception classes"}, sorted(want), sorted(custom), ["(outcome classes of every call)"])
    for n, c in custom.items():
        if c.__bases__ != (Exception,):
            run.disagree("P-consts", {"constant": "bases of " + n}, "(Exception,)", str(c.__bases__), ["(which handler catches it: the model treats the classes as unrelated)"])


def environment_projection(run):
    """P-env: the model's inputs are the call arguments, the store directory and ONE environment variable
    (USE_MULTIPROCESSING, Config.v mode_of_env).  The library source is scanned for every environment variable it reads
    (os.getenv / os.environ.get / os.environ[...] with a literal key; a non-literal key is reported as such): any other
    name is configuration the model does not know, and no projection could have exercised it."""
    import ast
    import glob
    from universe import REPO
    found = {}
    for path in sorted(glob.glob(os.path.join(REPO, "src", "hashstore", "*.py"))):
        if os.path.basename(path) == "hashstoreclient.py":
            continue                                     # the client sets the variable for its own process (C20 covers the client)
        try:
            tree = ast.parse(open(path).read())
        except SyntaxError:
            continue
        for node in ast.walk(tree):
            key = None
            if isinstance(node, ast.Call) and isinstance(node.func, ast.Attribute):
                f = node.func
                is_getenv = f.attr == "getenv" and isinstance(f.value, ast.Name) and f.value.id == "os"
                is_envget = f.attr in ("get", "pop", "setdefault") and isinstance(f.value, ast.Attribute) and f.value.attr == "environ"
                if (is_getenv or is_envget) and node.args:
                    key = node.args[0].value if isinstance(node.args[0], ast.Constant) else "<computed>"
            elif isinstance(node, ast.Subscript) and isinstance(node.value, ast.Attribute) and node.value.attr == "environ" \
                    and isinstance(node.ctx, ast.Load):
                sl = node.slice
                key = sl.value if isinstance(sl, ast.Constant) else "<computed>"
            elif isinstance(node, ast.Attribute) and node.attr in ("environ", "environb") and isinstance(node.value, ast.Name) and node.value.id == "os":
                found.setdefault("<os.environ>", os.path.basename(path))
                continue
            if key is not None:
                found[str(key)] = os.path.basename(path)
    names = sorted(k for k in found if k != "<os.environ>")
    run.case("P-env", tuple(names), nontrivial=True, sample={"projection": "P-env", "variables_read_by_the_library": names})
    if names != ["USE_MULTIPROCESSING"]:
        run.disagree("P-env", {"environment variables read": names}, ["USE_MULTIPROCESSING"], names,
                     ["(every theorem: the model's behaviour depends on no other configuration; Config.v mode_of_env)"])


def start_stall_watchdog(run, main_thread_id):
    """Last line of defence against an implementation call that never returns in a place where no per-call watchdog stands:
    when the check has recorded no case for a long time (10 min in the quick tier, 40 min in the thorough tier; the clock starts
    after the proofs are built), the call the main thread is in is reported as a violation of "every call returns" - with the
    call and its history taken from the stack - and the check leaves."""
    import sys
    import threading
    limit = int(os.environ.get("VERIF_STALL_LIMIT", 600 if run.tier == "quick" else 2400))

    def watch():
        while True:
            time.sleep(5)
            hb = getattr(run, "heartbeat", None)
            if hb is None or time.time() - hb < limit:
                continue
            fr = sys._current_frames().get(main_thread_id)
            stack, ctx = [], {}
            while fr is not None:
                stack.append("%s:%d %s" % (fr.f_code.co_filename, fr.f_lineno, fr.f_code.co_name))
                for name in ("c", "call", "h", "history", "setup", "calls", "meth", "v", "kind", "size", "pid"):
                    if name in fr.f_locals and name not in ctx:
                        try:
                            ctx[name] = json.loads(json.dumps(fr.f_locals[name], default=str))
                        except Exception:  # noqa: BLE001
                            pass
                fr = fr.f_back
            inside = [x for x in stack if "/hashstore/" in x]
            if not inside:
                run.heartbeat = time.time()          # the harness itself is busy (a long model evaluation): not the implementation
                continue
            os.makedirs(os.path.join(VERIF, "replays", run.prop), exist_ok=True)
            path = os.path.join("replays", run.prop, "stall-%d.json" % int(run.seed))
            json.dump({"property": run.prop, "kind": "violation", "violations": [{"what": "an API call does not return (no progress for %d s)" % limit,
                       "replay": {"last_case_recorded": getattr(run, "last_case", None), "arguments_on_the_stack": ctx, "implementation_frames": inside[:12], "stack": stack[:40]}}]},
                      open(os.path.join(VERIF, path), "w"), indent=1, default=str)
            print("VIOLATION property=%s replay=%s" % (run.prop, path))
            print("  what: an API call does not return; it is in %s (arguments on the stack: %s)" % (inside[0], json.dumps(ctx, default=str)[:400]))
            sys.stdout.flush()
            os._exit(1)
    threading.Thread(target=watch, daemon=True).start()
