import json
import os
import sys
import traceback

sys.path.insert(0, os.path.dirname(os.path.abspath(__file__)))
import framework  # noqa: E402


def main():
    if len(sys.argv) < 3:
        print("usage: check <ID> <quick|thorough> | check <ID> --replay <path>")
        return 2
    prop = sys.argv[1]
    if sys.argv[2] == "--replay":
        import replay
        return replay.replay(prop, sys.argv[3])
    tier = sys.argv[2]
    tier = os.environ.get("VERIF_TIER", tier) if tier not in ("quick", "thorough") else tier
    seed = int(os.environ.get("VERIF_SEED", "1"))
    run = framework.Run(prop, tier, seed)
    try:
        run.proof()
        import checks
        import checks_a
        table = dict(checks.CHECKS)
        table.update(checks_a.CHECKS)
        import checks_cf
        table.update(checks_cf.CHECKS)
        import checks_sched
        table.update(checks_sched.CHECKS)
        import threading
        run.heartbeat = framework.time.time()
        framework.start_stall_watchdog(run, threading.get_ident())
        framework.consts_projection(run)
        table[prop](run)
        run.heartbeat = None                 # finishing (evidence, coqchk in the thorough tier) is not an implementation call
    except Exception:
        run.proof_failures.append("check machinery failed: " + traceback.format_exc()[-1500:])
    return run.finish(**getattr(run, "finish_args", {}))


if __name__ == "__main__":
    rc = main()
    # Leave without waiting for threads the implementation may have left behind (a call that never returns is reported by the
    # watchdogs as a violation; its worker threads must not keep the check itself from returning its verdict).
    sys.stdout.flush()
    sys.stderr.flush()
    # ... nor for processes: forked pool workers and Manager servers of the multiprocessing mode would keep the caller's pipe open
    try:
        import multiprocessing
        import signal
        for ch in multiprocessing.active_children():
            try:
                ch.kill()
            except Exception:  # noqa: BLE001
                pass
        me = os.getpid()
        for d in os.listdir("/proc"):
            if d.isdigit():
                try:
                    with open("/proc/%s/stat" % d) as fh:
                        st = fh.read()
                    ppid = int(st[st.rindex(")") + 2:].split()[1])
                    if ppid == me:
                        os.kill(int(d), signal.SIGKILL)
                except Exception:  # noqa: BLE001
                    pass
    except Exception:  # noqa: BLE001
        pass
    os._exit(rc if isinstance(rc, int) else 1)
