"""replay — ./check <ID> --replay <path>: re-run the recorded case(s) on the implementation (and the model where
one applies) and print both behaviours.  Exit 1 if the recorded problem reproduces, 0 otherwise."""
import json
import os
import sys

VERIF = os.path.dirname(os.path.dirname(os.path.abspath(__file__)))


def show(title, obj):
    print("  %s: %s" % (title, json.dumps(obj, default=str)[:1500]))


def replay_one(prop, rp):
    """-> True if something was re-run"""
    import model
    import seq
    import cf
    from universe import Universe, token_line, history_line
    if "schedule" in rp and "calls" in rp and "setup" in rp:
        import sched
        from checks_sched import parse_calls
        setup = cf.parse_history(rp["setup"]) if isinstance(rp["setup"], str) else [cf.parse_call(x) for x in rp["setup"]]
        calls = parse_calls(rp["calls"])
        schedule = [int(x) for x in rp["schedule"].split(",") if x != ""]
        uk = rp.get("universe")
        u = Universe(pids={int(k): v for k, v in uk["pids"].items()}, fmts={int(k): v for k, v in uk["fmts"].items()}) if uk else Universe()
        r = sched.run_schedule(u, setup, calls, schedule=schedule, mode=rp.get("mode", "th"))
        show("implementation under that schedule", {"outcomes": r["outcomes"], "files": r["state"], "locked": r["locks"], "status": r["status"]})
        print("  model: " + model.run_lines([sched.model_sched_line("replay", setup, calls, schedule)])[0][-600:])
        return True
    if "site" in rp and "call" in rp:
        setup = cf.parse_history(rp["setup"])
        call = cf.parse_call(rp["call"])
        r = cf.run_faulted(Universe(), setup, call, rp["site"], rp["persistent"])
        show("implementation with that fault", {"outcome": r["outcome"], "files": r["state"], "locked": r["locks"], "failing_operation": r["fired"]})
        print("  model: " + model.run_lines([cf.model_fault_line(setup, call, rp["site"], rp["persistent"])])[0])
        return True
    if "crash_before_op" in rp:
        setup = cf.parse_history(rp["setup"])
        call = cf.parse_call(rp["call"])
        left = cf.crash_fork(Universe(), setup, call, rp["crash_before_op"])
        show("files left by a process that dies there", sorted(left))
        print("  model: " + model.run_lines([cf.model_crash(setup, call, rp["crash_before_op"])])[0])
        return True
    if "history" in rp and isinstance(rp["history"], list) and rp["history"] and isinstance(rp["history"][0], dict):
        h = rp["history"]
        u = Universe()
        for _ in range(2):
            seq.prepare(u, h)
        res = seq.run_impl(u, [dict(c) for c in h])
        for c, r in zip(h, res):
            print("  impl  %-28s -> %s %s" % (token_line(c), r[0], r[1]))
        print("  model: " + model.run_lines([history_line("states", h)])[0][:1500])
        return True
    return False


def replay(prop, path):
    if not os.path.isabs(path):
        path = os.path.join(VERIF, path)
    d = json.load(open(path))
    print("replay of %s (%s)" % (path, d.get("kind")))
    n = 0
    for v in d.get("violations", []):
        print("- " + v.get("what", "")[:400])
        rp = v.get("replay") or {}
        show("recorded case", rp)
        try:
            if replay_one(prop, rp):
                n += 1
        except Exception as e:  # noqa: BLE001
            print("  (could not re-run: %r)" % e)
        if n >= 5:
            break
    for dis in d.get("disagreements", [])[:5]:
        print("- correspondence %s: %s" % (dis.get("projection"), json.dumps(dis.get("case"), default=str)[:400]))
        print("  model: %s" % str(dis.get("model"))[:400])
        print("  impl : %s" % str(dis.get("impl"))[:400])
    for f in d.get("proof_failures", [])[:5]:
        print("- proof: " + f[:600])
    if not d.get("violations"):
        print("(no concrete failing input was recorded: the named theorem / projection no longer checks; re-run ./check %s quick)" % prop)
    return 1 if (d.get("violations") or d.get("disagreements") or d.get("proof_failures")) else 0
