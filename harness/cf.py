"""cf — crash points (P-crash: C10, C09) and fault sites (P-fault: C13, C08) of single calls:
the implementation is driven through harness/fsmon.py (snapshots / os._exit / injected OSError at the
n-th operation), the model through the extracted commands `crash`, `faulto`, `faultp`, `trace`."""
import errno
import json
import os
import shutil
import threading

import fsmon
import model
import seq
import trace as tr
from universe import Universe, Impl, Abstractor, token_line, history_line, parse_world, exn_name, scratch_root

VERIF = os.path.dirname(os.path.dirname(os.path.abspath(__file__)))


def parse_call(text):
    """'so 1 p 7 1 n n' -> token-level call dict (inverse of universe.token_line)"""
    w = text.split()
    k = w[0]
    if k == "so":
        return {"op": "so", "p": None if w[1] == "-" else int(w[1]), "s": w[2], "b": int(w[3]), "n": int(w[4]), "sz": w[5], "ck": w[6]}
    if k == "tag":
        return {"op": "tag", "p": int(w[1]), "c": int(w[2])}
    if k == "del":
        return {"op": "del", "p": int(w[1])}
    if k == "dii":
        return {"op": "dii", "c": int(w[1]), "sz": w[2], "pre": w[3] == "1", "ok": w[4] == "1"}
    if k == "sm":
        return {"op": "sm", "p": int(w[1]), "f": int(w[2]), "s": w[3], "v": int(w[4]), "n": int(w[5])}
    if k == "rm":
        return {"op": "rm", "p": int(w[1]), "f": int(w[2])}
    if k == "dm":
        return {"op": "dm", "p": int(w[1]), "f": None if w[2] == "-" else int(w[2])}
    if k == "ro":
        return {"op": "ro", "p": int(w[1])}
    if k == "gh":
        return {"op": "gh", "p": int(w[1])}
    raise ValueError(text)


def parse_history(text):
    return [parse_call(x) for x in text.split(";") if x.strip()]


def load_menu(name):
    return json.load(open(os.path.join(VERIF, "coq", name)))


PIDS = [1, 2, 3]
FMTS = [0, 1, 2]


def fresh_impl(u, setup, pids=PIDS, fmts=FMTS):
    seq.prepare(u, setup)
    im = Impl(u, pids, fmts)
    for c in setup:
        r = im.call(c)
        assert not r.startswith("exn:") or True
    return im


def snapshot_tree(root):
    out = {}
    for dp, dn, fn in os.walk(root):
        for f in fn:
            p = os.path.join(dp, f)
            try:
                with fsmon.real_open(p, "rb") as fh:
                    out[os.path.relpath(p, root)] = fh.read()
            except OSError:
                pass
    return out


def materialise(snapshot, root):
    for rel, data in snapshot.items():
        p = os.path.join(root, rel)
        os.makedirs(os.path.dirname(p), exist_ok=True)
        with open(p, "wb") as fh:
            fh.write(data)
    for d in ("objects/tmp", "metadata/tmp", "refs/tmp", "refs/pids", "refs/cids"):
        os.makedirs(os.path.join(root, d), exist_ok=True)


# ------------------------------------------------------------------ crash points

def crash_states(u, setup, call, pids=PIDS, fmts=FMTS, also=()):
    """Run [call] after [setup] once, taking a snapshot of the store directory BEFORE every operation
    (in the model's vocabulary).  -> (list of (op string, snapshot) for op index 0..len-1, final snapshot, outcome, ops)"""
    seq.prepare(u, setup + [call])
    im = fresh_impl(u, setup, pids, fmts)
    try:
        fsmon.install()
        fsmon.instrument_store(im.hs)
        im.refresh()
        norm = tr.Normaliser(im)
        snaps = []
        pending = []

        def hook(ev):
            if threading.current_thread() is not threading.main_thread():
                return None
            s = norm.event(ev + (0,))
            if s is None:
                if ev[0] in also:
                    with fsmon._Suppress():
                        snaps.append(("(%s)" % ev[0], snapshot_tree(im.root)))
                return None
            with fsmon._Suppress():
                snaps.append((s, snapshot_tree(im.root)))
            return None

        sorter = tr.make_listdir_sorter(im)
        with fsmon.watching(im.root, hook=hook, listdir_sort=sorter) as mon:
            r = im.call(call)
        final = snapshot_tree(im.root)
        ops = tr.normalise_impl(im, mon.events)
        return snaps, final, r, ops
    finally:
        im.close()


def crash_fork(u, setup, call, n, pids=PIDS, fmts=FMTS):
    """The real thing for crash point n: a child process dies (os._exit) before its n-th operation;
    -> snapshot of the directory it left."""
    seq.prepare(u, setup + [call])
    im = fresh_impl(u, setup, pids, fmts)
    try:
        pid = os.fork()
        if pid == 0:
            try:
                fsmon.install()
                fsmon.instrument_store(im.hs)
                im.refresh()
                norm = tr.Normaliser(im)
                count = [0]

                def hook(ev):
                    s = norm.event(ev + (0,))
                    if s is None:
                        return None
                    if count[0] == n:
                        os._exit(0)
                    count[0] += 1
                    return None
                with fsmon.watching(im.root, hook=hook, listdir_sort=tr.make_listdir_sorter(im)):
                    im.call(call)
            finally:
                os._exit(0)
        os.waitpid(pid, 0)
        return snapshot_tree(im.root)
    finally:
        im.close()


def abstract_snapshot(u, snap, base, pids=PIDS, fmts=FMTS, name="re"):
    """-> (abstract state dict, root of a materialised copy)"""
    root = os.path.join(base, name)
    if os.path.exists(root):
        shutil.rmtree(root)
    os.makedirs(root)
    materialise(snap, root)
    st = Abstractor(u, root, pids, fmts).state()
    out = {}
    for k, v in st.items():
        if k.lstrip("X").startswith("M") and v.startswith("D") and not v.startswith("D?"):
            b, n, i = v[1:].split(".")
            if int(b) >= 1000:
                v = "D%d.%s.%s" % (int(b) - 1000, n, i)
        out[k] = v
    return out, root


def model_crash(setup, call, n):
    line = "crash %d | %s | %s" % (n, " ; ".join(token_line(c) for c in setup), token_line(call))
    return line


def canon_tmp(st):
    """temp-file names are private: compare them as a multiset of (area, content)"""
    perm = {k: v for k, v in st.items() if not k.startswith("T")}
    # content of a temp file under construction is not compared: the implementation's writes are buffered in the
    # process (invisible on disk until close), the model counts chunks; presence per staging area is compared
    tmps = sorted(k[1] for k in st if k.startswith("T"))
    return perm, tmps


# ------------------------------------------------------------------ fault sites

# "write": one chunk written into a temp file (store_object / store_metadata); "append": the line written into a cid list
# opened for append — a full disk.  A persistent failure sticks to the file written (the temp file / the cid list).
SITE_KINDS = {"read", "opensrc", "mktmp", "write", "openw", "rename", "remove", "mkdirs", "opena", "append", "openrw", "flock", "foreign"}


class FaultPlan:
    """Fail the k-th fault site with OSError(err); persistent: every later site with the same destination fails too."""

    def __init__(self, im, k, persistent, err=errno.EIO, only_kind=None):
        self.im, self.k, self.persistent, self.err = im, k, persistent, err
        self.only_kind = only_kind          # count only events of this kind as sites (search beyond the model's sites)
        self.count = 0
        self.stuck = None
        self.fired = None
        self.sites = []
        self.main = threading.get_ident()

    def dest(self, ev):
        kind, rel = ev[0], ev[1]
        if kind in ("opensrc", "readsrc"):
            return ("src",)
        if kind == "mktmp":
            return ("tmpdir", rel.split(os.sep)[0])
        if kind == "mkdirs":
            return ("dirof", rel)
        return ("path", rel)

    def hook(self, ev):
        kind = ev[0]
        if threading.get_ident() != self.main:
            return None
        if self.only_kind is not None:
            if self.stuck is not None and kind in SITE_KINDS and self.matches(self.dest(ev), self.stuck):
                return self.err
            if kind != self.only_kind:
                return None
        elif kind not in SITE_KINDS:
            return None
        in_move = getattr(fsmon._tls, "in_move", 0) > 0
        d = self.dest(ev)
        if self.stuck is not None:
            if self.matches(d, self.stuck):
                return self.err
            return None
        if in_move and kind != "rename":
            return None                      # the inside of shutil.move's copy fall-back is not a site of its own
        idx = self.count
        self.count += 1
        self.sites.append((kind, ev[1]))
        if self.fired is None and idx == self.k:
            self.fired = (kind, ev[1])
            if self.persistent:
                self.stuck = d
            return self.err
        return None

    @staticmethod
    def matches(d, stuck):
        if d == stuck:
            return True
        # a directory destination (mkdirs of the parent of a file) — the model keeps them apart too
        return False


def run_faulted(u, setup, call, k, persistent, err=errno.EIO, pids=PIDS, fmts=FMTS, keep=False, mode="th", only_kind=None):
    """-> dict(outcome, state, locks, sites, fired, im?)   mode "mp": the store is initialised with USE_MULTIPROCESSING=True"""
    seq.prepare(u, setup + [call])
    old_env = os.environ.get("USE_MULTIPROCESSING")
    if mode == "mp":
        os.environ["USE_MULTIPROCESSING"] = "True"
    try:
        im = fresh_impl(u, setup, pids, fmts)
    finally:
        if mode == "mp":
            if old_env is None:
                os.environ.pop("USE_MULTIPROCESSING", None)
            else:
                os.environ["USE_MULTIPROCESSING"] = old_env
    ok = False
    try:
        fsmon.install()
        fsmon.instrument_store(im.hs, mode)
        im.refresh()
        plan = FaultPlan(im, k, persistent, err, only_kind)
        box = []

        def body():
            plan.main = threading.get_ident()
            box.append(im.call(call))
        with fsmon.watching(im.root, hook=plan.hook, listdir_sort=tr.make_listdir_sorter(im)) as mon:
            t = threading.Thread(target=body, daemon=True)
            t.start()
            t.join(10.0)
        r = box[0] if box else "HANG"          # the call did not return within 10 s: the thread is abandoned
        res = {"outcome": r, "state": im.state(), "locks": {a: b for a, b in fsmon.locked_lists(im.hs, mode).items() if b},
               "sites": plan.count, "fired": plan.fired, "site_list": list(plan.sites)}
        if keep:
            res["im"] = im
            ok = True
        return res
    finally:
        if not ok:
            im.close()


def model_fault_line(setup, call, k, persistent):
    return "%s %d | %s | %s" % ("faultp" if persistent else "faulto", k, " ; ".join(token_line(c) for c in setup), token_line(call))


def parse_fault_result(s):
    """'exn:OSError {O7=..}[locks] sites=7' -> (outcome, state, locks, sites)"""
    o, rest = s.split(" ", 1)
    w, sites = rest.rsplit(" sites=", 1)
    st, locks = parse_world(w)
    return o, st, locks, int(sites)


def guarded_call(im, c, timeout=6.0):
    """im.call(c) under a watchdog: -> outcome string, or 'HANG' when the call does not return (the thread is abandoned)"""
    box = []
    t = threading.Thread(target=lambda: box.append(im.call(c)), daemon=True)
    t.start()
    t.join(timeout)
    return box[0] if box else "HANG"
