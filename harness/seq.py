"""seq — P-seq: sequential call histories run on the model (extracted) and on the implementation,
compared call by call (outcome class / value, abstract disk state, lock lists)."""
import itertools
import random

from universe import Universe, Impl, history_line, token_line, parse_world
import model

CONTENTS = {7: 1, 8: 1}          # content id -> chunk count
SPELLINGS_PRE = ["SHA-256", "sha256", "MD5", "md5", "SHA-1", "sha-384", "SHA_512", "Sha-256"]
SPELLINGS_OTHER = ["sha3_256", "SHA3-256", "sha224", "SHA-224", "blake2b", "BLAKE2S", "sha3_512", "Sha3_384"]


def decorate(rng, c):
    """choose the real-level details (algorithm spelling, checksum case) of a token-level call."""
    preset = (c.get("real") or {}).get("bad")
    if c["op"] == "so" and c.get("ck", "n") != "n":
        c["real"] = {"algo": rng.choice(SPELLINGS_PRE + SPELLINGS_OTHER), "case": rng.choice(["lower", "upper"])}
        if c["ck"] == "b":
            c["real"]["bad"] = preset or rng.choice(["flip", "flip", "nonascii", "short", "accent"])       # every wrong checksum is just "wrong"
    if c["op"] == "so" and c["p"] is not None and rng.random() < 0.2:
        c.setdefault("real", {})["add"] = rng.choice(SPELLINGS_OTHER + SPELLINGS_PRE)
    if c["op"] == "dii":
        c["real"] = {"algo": rng.choice(SPELLINGS_PRE if c["pre"] else SPELLINGS_OTHER),
                     "case": rng.choice(["lower", "upper"])}
        if not c["ok"]:
            c["real"]["bad"] = preset or rng.choice(["flip", "flip", "nonascii", "short", "accent"])
    if c["op"] == "gh":
        c["real"] = {"algo": rng.choice(SPELLINGS_PRE + SPELLINGS_OTHER)}
    return c


def alphabet(kind, pids=(1, 2, 3), contents=None, never=(100,), fmts=(0, 1), versions=(1, 2)):
    """All calls of a small alphabet; [kind] selects which API methods take part."""
    contents = contents or CONTENTS
    A = []
    obj = kind in ("all", "obj", "refs", "valid")
    meta = kind in ("all", "meta")
    if obj:
        for b, n in contents.items():
            A.append({"op": "so", "p": None, "b": b, "n": n})
            if kind in ("all", "valid"):
                # without a pid the validation arguments are not looked at: the object is stored, nothing else is left
                for sz, ck in (("b", "n"), ("n", "b")):
                    A.append({"op": "so", "p": None, "b": b, "n": n, "sz": sz, "ck": ck})
            for p in pids:
                A.append({"op": "so", "p": p, "b": b, "n": n})
                if kind in ("all", "valid"):
                    for sz, ck in (("b", "n"), ("n", "b"), ("o", "o")):
                        A.append({"op": "so", "p": p, "b": b, "n": n, "sz": sz, "ck": ck})
        for p in pids:
            for c in list(contents) + list(never):
                A.append({"op": "tag", "p": p, "c": c})
            A.append({"op": "del", "p": p})
            A.append({"op": "ro", "p": p})
        for c in contents:
            for sz, pre, ok in (("o", True, True), ("b", True, True), ("n", True, False), ("n", False, False), ("o", False, True)):
                A.append({"op": "dii", "c": c, "sz": sz, "pre": pre, "ok": ok})
        if kind == "all":
            for p in pids[:2]:
                A.append({"op": "gh", "p": p})
    if meta:
        for p in pids[:2]:
            for f in fmts:
                for v in versions:
                    A.append({"op": "sm", "p": p, "f": f, "v": v, "n": 1})
                A.append({"op": "rm", "p": p, "f": f})
                A.append({"op": "dm", "p": p, "f": f})
            A.append({"op": "dm", "p": p, "f": None})
        if not obj:
            for p in pids[:2]:
                A.append({"op": "so", "p": p, "b": 7, "n": 1})
                A.append({"op": "del", "p": p})
    return A


def prepare(u, h):
    for c in h:
        if c["op"] == "so":
            u.content(c["b"], c["n"])
        if c["op"] == "dii":
            u.content(c["c"], CONTENTS.get(c["c"], u._nchunks.get(c["c"], 1)))
        if c["op"] == "tag":
            u.note_cid(c["c"])


def ids_of(h):
    pids, fmts = set(), {0}
    for c in h:
        if c.get("p") is not None:
            pids.add(c["p"])
        if c.get("f") is not None:
            fmts.add(c["f"])
    return sorted(pids), sorted(fmts)


def run_impl(u, h, pids=None, fmts=None, after=None):
    """-> list of (outcome, state dict, locked lists) after every call"""
    from fsmon import locked_lists
    prepare(u, h)
    ps, fs = ids_of(h)
    im = Impl(u, pids or ps, fmts or fs)
    out = []
    try:
        for c in h:
            r = _guarded(im, c)
            if r == "exn:HANG":
                out.append((r, im.state(), {}))
                break                 # the call does not return (e.g. waits for an identifier a previous call left locked)
            st = im.state()
            ll = {k: v for k, v in locked_lists(im.hs).items() if v} if hasattr(im.hs, "object_locked_pids_th") else {}
            out.append((r, st, ll))
            if after is not None:
                after(im, c, r, st)
    finally:
        im.close()
    return out


def _guarded(im, c, timeout=15.0):
    """im.call(c) under a watchdog: a sequential history has no business blocking"""
    import threading
    box = []
    t = threading.Thread(target=lambda: box.append(im.call(c)), daemon=True)
    t.start()
    t.join(timeout)
    return box[0] if box else "exn:HANG"


def parse_states(line):
    """'ok:.. {..}[..] ; ok:.. {..}[..]' -> list of (outcome, state dict, locks)"""
    res = []
    if line.strip() == "":
        return res
    for seg in line.split(" ; "):
        seg = seg.strip()
        if seg == "STUCK":
            res.append(("STUCK", {}, []))
            continue
        o, w = seg.split(" ", 1)
        st, locks = parse_world(w)
        res.append((o, st, locks))
    return res


def run_model(histories):
    lines = [history_line("states", h) for h in histories]
    return [parse_states(r) for r in model.run_lines(lines)]


def diff_step(m, i):
    """m: (outcome, state, locks) from the model; i: from the implementation -> None or description"""
    if m[0] != i[0]:
        return "outcome model=%s impl=%s" % (m[0], i[0])
    if m[1] != i[1]:
        km = {k: v for k, v in m[1].items() if i[1].get(k) != v}
        ki = {k: v for k, v in i[1].items() if m[1].get(k) != v}
        return "state model-only=%s impl-only=%s" % (km, ki)
    if m[2] or i[2]:
        return "locks model=%s impl=%s" % (m[2], i[2])
    return None


def exhaustive(A, length):
    return itertools.product(A, repeat=length)


def random_history(rng, A, length):
    return [dict(rng.choice(A)) for _ in range(length)]


def shrink(h, fails):
    """drop calls while the failure persists"""
    h = list(h)
    changed = True
    while changed:
        changed = False
        for k in range(len(h)):
            cand = h[:k] + h[k + 1:]
            if cand and fails(cand):
                h = cand
                changed = True
                break
    return h


def first_diff(u, h):
    ms = run_model([h])[0]
    is_ = run_impl(u, h)
    for k, (m, i) in enumerate(zip(ms, is_)):
        d = diff_step(m, i)
        if d:
            return k, d
    if len(ms) != len(is_):
        return min(len(ms), len(is_)), "length"
    return None


def strip(h):
    return [{k: v for k, v in c.items() if not k.startswith("_")} for c in h]
