"""sched — controlled scheduling of concurrent API calls on the implementation (P-sched: C07, C12, C08, C16).

Several threads run one API call each on ONE store instance.  Every thread stops before each of its
operations (in the model's vocabulary: one interposed file-system event, or one `with condition:` block)
until the scheduler grants it one step; so a schedule is a list of thread indices, the same object the
Coq `exec` consumes.  The store's Condition objects are replaced by stand-ins whose wait()/notify() are
scheduler events, file locks are emulated (a thread asking for a held one is not enabled).  No source hook."""
import threading
import time

import fsmon
import seq
import trace as tr
from universe import Universe, Impl, token_line, exn_name

READY, BLOCKED, DONE, RUNNING, NEW = "ready", "blocked", "done", "running", "new"
_tls = threading.local()


class Diverged(Exception):
    pass


class CondStandIn:
    """threading.Condition / multiprocessing.Condition replacement owned by the scheduler"""

    def __init__(self, sch, name):
        self.sch, self.name = sch, name
        self.lock = threading.Lock()
        self.waiters = []

    def __enter__(self):
        i = self.sch.me()
        if i is not None:
            self.sch.point(i, "cond:" + self.name)
            _tls.in_cond = getattr(_tls, "in_cond", 0) + 1
        self.lock.acquire()
        return self

    def __exit__(self, *a):
        self.lock.release()
        i = self.sch.me()
        if i is not None:
            _tls.in_cond -= 1
        return False

    def acquire(self, *a, **k):
        return self.__enter__()

    def release(self):
        return self.__exit__()

    def wait(self, timeout=None):
        i = self.sch.me()
        if i is None:
            raise RuntimeError("wait outside a scheduled thread")
        self.waiters.append(i)
        self.lock.release()
        _tls.in_cond -= 1
        self.sch.block(i, "wait:" + self.name)       # returns when notified and granted
        _tls.in_cond += 1
        self.lock.acquire()
        return True

    def notify(self, n=1):
        woken = 0
        while self.waiters and woken < n:
            j = self.sch.choose_waiter(self.waiters)
            self.waiters.remove(j)
            self.sch.wake(j)
            woken += 1

    def notify_all(self):
        self.notify(len(self.waiters))


COND_ATTRS = {"op": "object_pid_condition", "ci": "object_cid_condition", "md": "metadata_condition", "rp": "reference_pid_condition"}


class Scheduler:
    def __init__(self, im, calls, mode="th", rng=None):
        self.im, self.calls, self.mode, self.rng = im, calls, mode, rng
        n = len(calls)
        self.n = n
        self.state = [NEW] * n
        self.info = [None] * n
        self.grant = [threading.Event() for _ in range(n)]
        self.woken = [False] * n
        self.cv = threading.Condition()
        self.results = [None] * n
        self.idents = {}
        self.norm = [tr.Normaliser(im) for _ in range(n)]
        self.events = [[] for _ in range(n)]
        self.flocks = {}           # path -> thread index holding the emulated file lock
        self.flock_wait = {}       # thread -> path
        self.steps = []            # (thread, point description)
        self.threads = []

    # ---- called from worker threads
    def me(self):
        return self.idents.get(threading.get_ident())

    def _arrive(self, i, st, info):
        with self.cv:
            self.state[i] = st
            self.info[i] = info
            self.cv.notify_all()

    def point(self, i, info):
        """stop before an operation until granted one step"""
        self._arrive(i, READY, info)
        self.grant[i].wait()
        self.grant[i].clear()
        with self.cv:
            self.state[i] = RUNNING

    def block(self, i, info):
        """not enabled until woken (condition wait / held file lock); then needs a grant"""
        with self.cv:
            self.woken[i] = False
            self.state[i] = BLOCKED
            self.info[i] = info
            self.cv.notify_all()
        self.grant[i].wait()
        self.grant[i].clear()
        with self.cv:
            self.state[i] = RUNNING

    def wake(self, j):
        with self.cv:
            if self.state[j] == BLOCKED:
                self.state[j] = READY
                self.cv.notify_all()

    def choose_waiter(self, waiters):
        return waiters[0] if self.rng is None else self.rng.choice(waiters)

    def hook(self, ev):
        i = self.me()
        if i is None:
            return None
        kind = ev[0]
        if kind in ("probe", "stat") and getattr(fsmon._tls, "in_move", 0) > 0:
            return None
        if getattr(fsmon._tls, "in_move", 0) > 0 and kind != "rename":
            return None                         # inside shutil.move: part of the one Rename step
        s = self.norm[i].event(ev + (i,))
        self.events[i].append(ev + (i, None))
        if s is None:
            return None
        if getattr(_tls, "in_cond", 0) > 0:
            return None                         # inside a `with condition:` block: part of that one step
        if kind == "flock":
            self.point(i, s)
            path = ev[1]
            while self.flocks.get(path) not in (None, i):
                self.flock_wait[i] = path
                self.block(i, "flock:" + path)
            self.flock_wait.pop(i, None)
            self.flocks[path] = i
            return None
        self.point(i, s)
        if kind == "fclose":
            path = ev[1]
            if self.flocks.get(path) == i:
                del self.flocks[path]
                for j, p in list(self.flock_wait.items()):
                    if p == path:
                        self.wake(j)
        return None

    def worker(self, i):
        self.idents[threading.get_ident()] = i
        _tls.in_cond = 0
        try:
            self.point(i, "start")
            self.results[i] = self.im.call(self.calls[i])
        except BaseException as e:  # noqa: BLE001
            self.results[i] = "exn:" + exn_name(e)
        finally:
            self._arrive(i, DONE, None)

    # ---- called from the driving thread
    def start(self):
        hs = self.im.hs
        for cls, attr in COND_ATTRS.items():
            setattr(hs, attr + "_" + self.mode, CondStandIn(self, cls))
        fsmon.instrument_store(hs, self.mode)
        for i in range(self.n):
            t = threading.Thread(target=self.worker, args=(i,), daemon=True)
            self.threads.append(t)
            t.start()
        self.settle()
        # the initial "start" point is not an operation: let every thread run to its first one
        for i in range(self.n):
            self.step(i, count=False)

    def settle(self, timeout=20.0):
        """wait until no thread is running"""
        end = time.time() + timeout
        with self.cv:
            while any(s in (RUNNING, NEW) for s in self.state):
                left = end - time.time()
                if left <= 0:
                    raise Diverged("threads still running after %.0fs: %s" % (timeout, self.state))
                self.cv.wait(left)

    def enabled(self):
        return [i for i in range(self.n) if self.state[i] == READY]

    def finished(self):
        return all(s == DONE for s in self.state)

    def step(self, i, count=True):
        if self.state[i] != READY:
            raise Diverged("thread %d is %s (%s), cannot take a step" % (i, self.state[i], self.info[i]))
        if count:
            self.steps.append((i, self.info[i]))
        with self.cv:
            self.state[i] = RUNNING
        self.grant[i].set()
        self.settle()

    def thread_ops(self, i):
        return tr.normalise_impl(self.im, [e for e in self.events[i]])


class Dfs:
    """Systematic (stateless, replay-based) exploration of interleavings.  One object drives many runs: run() until done().

    default mode — the orders of the synchronisation steps: a thread keeps running until its next operation is a
    `with condition:` block, a wait or a file lock (or it blocks / finishes); only there is the next thread a decision,
    and so is the waiter a notify() wakes.  Complete when the budget allows.

    conflicts=True — preemption-bounded search (at most max_preempt switches away from a thread that could go on):
    a thread may also be preempted just before an operation on a file, directory area or identifier
    that another thread touches too (learned from the runs made so far; the first run has no preemption)."""

    def __init__(self, seed=0, budget=1000, conflicts=False, max_preempt=2):
        import random as _r
        self.prefix, self.trace, self.runs, self.budget, self.complete = [], [], 0, budget, False
        self.perm = _r.Random(seed)
        self.orders = {}
        self.conflicts, self.max_preempt = conflicts, max_preempt
        self.seen = {}              # thread -> tokens it has touched in any run so far
        self.preempts = 0
        self.prev = {}

    def begin(self):
        self.trace = []
        self.runs += 1
        self.preempts = 0
        self.prev = {}

    @staticmethod
    def tokens(info):
        out = set()
        words = str(info).split()
        for w in words[1:] if len(words) > 1 else []:
            w = w.lstrip("X")
            if not w:
                continue
            if ":" in w and not w.startswith("foreign"):
                out.add(w)                                   # op:1, rp:2, ci:7, fl:R7, md:...
            elif w[0] in "OPRMT" and (len(w) == 1 or w[1].isdigit() or w[1] in "#?omr"):
                out.add(w[0] + "*" if len(w) == 1 else w.split("#")[0])
            elif w in ("objects", "refs", "metadata", "<root>"):
                out |= {"objects": {"O*"}, "refs": {"P*", "R*"}, "metadata": {"M*"}, "<root>": {"O*", "P*", "R*", "M*"}}[w]
        if words and words[0] == "listdir":
            out.add("M*")
        return out

    @staticmethod
    def _clash(t, u):
        return t == u or (t.endswith("*") and u[0] == t[0]) or (u.endswith("*") and t[0] == u[0])

    def interesting(self, i, info):
        ts = self.tokens(info)
        if not ts:
            return False
        for j, seen in self.seen.items():
            if j != i and any(self._clash(t, u) for t in ts for u in seen):
                return True
        return False

    def observe(self, sch):
        for i, info in sch.steps:
            t = self.tokens(info)
            have = self.seen.setdefault(i, set())
            if not t <= have:
                have |= t
                self.grew = True

    def _decide(self, options, first=None):
        k = len(self.trace)
        n = len(options)
        if n == 1:
            return options[0]
        # a fixed random order per (depth, option set): no bias towards low thread indices, still exhaustive
        key = (k, tuple(options), first)
        if key not in self.orders:
            o = list(options)
            self.perm.shuffle(o)
            if first is not None and first in o:
                o.remove(first)
                o.insert(0, first)
            self.orders[key] = o
        order = self.orders[key]
        c = self.prefix[k] if k < len(self.prefix) else 0
        if c >= n:
            c = 0
        self.trace.append((n, c))
        return order[c]

    def pick_thread(self, sch, en, last):
        if last is not None and last in en:
            info = str(sch.info[last])
            sync = info.startswith(("cond:", "wait:", "flock"))
            if not self.conflicts:
                return self._decide(sorted(en)) if sync else last
            # just before a conflicting operation is enough: stopping after one equals stopping before the thread's next
            # conflicting operation, what lies between commutes with the other threads
            point = sync or self.interesting(last, info)
            self.prev[last] = info
            if not point or self.preempts >= self.max_preempt:
                return last
            i = self._decide(sorted(en), first=last)
            if i != last:
                self.preempts += 1
            else:
                self.prev[last] = info
            return i
        i = self._decide(sorted(en))
        self.prev[i] = str(sch.info[i])
        return i

    def choice(self, waiters):          # stands in for rng.choice in CondStandIn.notify
        return self._decide(list(waiters))

    def random(self):
        return 1.0

    def done(self):
        """prepare the next run; True when the tree is exhausted or the budget is spent"""
        if self.conflicts and getattr(self, "grew", False):
            # the set of preemption points has changed: positions of the recorded trace no longer mean the same; start the walk again
            self.grew = False
            self.prefix = []
            return self.runs >= self.budget
        t = self.trace
        while t and t[-1][1] + 1 >= t[-1][0]:
            t = t[:-1]
        if not t:
            self.complete = True
            return True
        self.prefix = [c for _, c in t[:-1]] + [t[-1][1] + 1]
        return self.runs >= self.budget


def run_schedule(u, setup, calls, schedule=None, rng=None, mode="th", pids=None, fmts=None, max_steps=5000, env=None, sticky=0.0, on_step=None, dfs=None):
    """Drive [calls] concurrently after [setup].  schedule: list of thread indices (one per operation), or None for a
    random schedule drawn from rng.  -> dict(outcomes, state, locks, steps, ops per thread, schedule_used, status)"""
    import os
    seq.prepare(u, setup + calls)
    ps, fs = seq.ids_of(setup + calls)
    old_env = os.environ.get("USE_MULTIPROCESSING")
    if mode == "mp":
        os.environ["USE_MULTIPROCESSING"] = "True"
    try:
        im = Impl(u, pids or sorted(set(ps) | {1, 2, 3}), fmts or sorted(set(fs) | {0, 1, 2}))
    finally:
        if mode == "mp":
            if old_env is None:
                os.environ.pop("USE_MULTIPROCESSING", None)
            else:
                os.environ["USE_MULTIPROCESSING"] = old_env
    status = "ok"
    used = []
    try:
        for c in setup:
            im.call(c)
        fsmon.install()
        im.refresh()
        sch = Scheduler(im, [dict(c) for c in calls], mode, dfs if dfs is not None else rng)
        if dfs is not None:
            dfs.begin()
        with fsmon.watching(im.root, hook=sch.hook, listdir_sort=tr.make_listdir_sorter(im)) as mon:
            mon.emulate_flock = True
            sch.start()
            try:
                if schedule is not None:
                    for i in schedule:
                        sch.step(i)
                        used.append(i)
                        if on_step is not None:
                            on_step(im, sch, i)
                    if not sch.finished():
                        status = "schedule-exhausted:" + ",".join("%d=%s(%s)" % (j, sch.state[j], sch.info[j]) for j in range(sch.n))
                else:
                    k = 0
                    while not sch.finished():
                        en = sch.enabled()
                        if not en:
                            status = "deadlock:" + ",".join("%d=%s(%s)" % (j, sch.state[j], sch.info[j]) for j in range(sch.n))
                            break
                        if dfs is not None:
                            i = dfs.pick_thread(sch, en, used[-1] if used else None)
                        elif rng is None:
                            i = en[0]
                        elif sticky and used and used[-1] in en and rng.random() < sticky:
                            i = used[-1]            # long runs of one thread: preemptions are few and land anywhere
                        else:
                            i = rng.choice(en)
                        sch.step(i)
                        used.append(i)
                        if on_step is not None:
                            on_step(im, sch, i)
                        k += 1
                        if k > max_steps:
                            status = "step-limit"
                            break
            except Diverged as e:
                status = "diverged:" + str(e)
            # let unfinished threads go so that nothing is left hanging
            if not sch.finished():
                _drain(sch)
        if dfs is not None:
            dfs.observe(sch)
        res = {"outcomes": list(sch.results), "state": im.state(), "locks": {a: b for a, b in fsmon.locked_lists(im.hs, mode).items() if b},
               "steps": sch.steps, "ops": [sch.thread_ops(i) for i in range(sch.n)], "schedule": used, "status": status}
        return res
    finally:
        im.close()


def _drain(sch):
    for _ in range(10000):
        if sch.finished():
            return
        en = sch.enabled()
        if not en:
            return
        try:
            sch.step(en[0], count=False)
        except Diverged:
            return


# ------------------------------------------------------------------ model side

def model_sched_line(cmd, setup, calls, schedule=None):
    body = "%s | %s" % (" ; ".join(token_line(c) for c in setup), " || ".join(token_line(c) for c in calls))
    if cmd == "replay":
        return "replay %s | %s" % (",".join(map(str, schedule)) if schedule else "-", body)
    return "%s | %s" % (cmd, body)


def parse_finals(line):
    """output of `sched`: list of dicts(outcomes, state, locks, lin, retr, schedule)"""
    from universe import parse_world
    out = []
    if line in ("STUCK", "PARSE", "BADCMD", ""):
        return out
    for seg in line.split(" ; "):
        seg = seg.strip()
        if not seg:
            continue
        head, sched = seg.rsplit(" @", 1)
        head, retr = head.rsplit(" retr=", 1)
        head, lin = head.rsplit(" lin=", 1)
        k = head.index("{")
        outs = [x.strip() for x in head[:k].split(" , ")]
        st, locks = parse_world(head[k:])
        out.append({"outcomes": outs, "state": st, "locks": locks, "lin": lin == "1", "retr": retr == "1",
                    "schedule": [int(x) for x in sched.split(",")] if sched else []})
    return out


def parse_replay(line):
    """output of `replay`: (per-thread op lists in the normalised vocabulary, outcomes, state, flags) or None if diverged"""
    from universe import parse_world
    parts = line.split(" | ")
    if len(parts) < 3:
        return None
    steps, outs, rest = parts[0], parts[1], parts[2]
    per = {}
    for s in steps.split(" ; "):
        s = s.strip()
        if not s:
            continue
        i, body = s.split(":", 1)
        per.setdefault(int(i), []).append(body)
    k = rest.index("}[")
    w = rest[: rest.index("]", k) + 1]
    flags = dict(x.split("=") for x in rest[len(w):].split())
    st, locks = parse_world(w)
    ops = {i: tr.normalise_model(" ; ".join(v)) for i, v in per.items()}
    return ops, [x.strip() for x in outs.split(" , ")], st, locks, flags
