"""checks_sched — C07 / C12 (linearizability under every interleaving), the schedule half of C08, and the
schedule half of C16 (the same scenarios driven through the multiprocessing code paths).

Theorems: props/C07.v, props/C12.v (every pair of the menus from every start state, all schedules, by the proved
explorer), props/C08.v (general).  Here: P-sched — the model's witness schedules (one per distinct outcome of every
scenario run) replayed on the implementation under the controlled scheduler, comparing per-thread operation
sequences, outcomes and files — and an implementation-side search: random schedules with an oracle built from
the implementation's OWN sequential runs of every order of the same calls."""
import itertools
import os
import random

import cf
import model
import sched
import seq
import trace as tr
from universe import Universe, Impl, token_line, history_line

READ_NOTFOUND = {"exn:ValueError", "exn:FileNotFoundError"}


def parse_calls(text):
    return [cf.parse_call(x) for x in text.split("||") if x.strip()]


UFACTORY = [Universe]      # the identifier tables in force (a wake family may ask for related pids / formats)


def sequential_outcomes(setup, calls, adjust_inprogress=()):
    """the implementation's own sequential behaviour: for every order of the calls -> (outcomes by thread, state).
    adjust_inprogress: indices of calls to be treated as rejected-without-effect (C07's one extra outcome)."""
    res = []
    for perm in itertools.permutations(range(len(calls))):
        u = UFACTORY[0]()
        seq.prepare(u, setup + calls)
        ps, fs = seq.ids_of(setup + calls)
        im = Impl(u, sorted(set(ps) | {1, 2, 3}), sorted(set(fs) | {0, 1, 2}))
        try:
            for c in setup:
                im.call(dict(c))
            outs = [None] * len(calls)
            for i in perm:
                if i in adjust_inprogress:
                    outs[i] = "exn:StoreObjectForPidAlreadyInProgress"
                else:
                    outs[i] = im.call(dict(calls[i]))
            res.append((perm, outs, im.state()))
        finally:
            im.close()
    return res


def stores_pid(c):
    return c["p"] if c["op"] == "so" and c.get("p") is not None else None


def lin_verdict(setup, calls, outs, state, cache, reader_relaxed=False):
    """-> None if (outs, state) equals some sequential order of the calls, else a description"""
    adj = tuple(i for i, c in enumerate(calls)
                if outs[i] == "exn:StoreObjectForPidAlreadyInProgress" and stores_pid(c) is not None
                and any(j != i and stores_pid(calls[j]) == stores_pid(c) for j in range(len(calls))))
    if adj not in cache:
        cache[adj] = sequential_outcomes(setup, calls, adj)
    for perm, souts, sst in cache[adj]:
        ok = sst == state
        for i, c in enumerate(calls):
            if souts[i] == outs[i]:
                continue
            if reader_relaxed and c["op"] == "rm" and outs[i] in READ_NOTFOUND and souts[i] in READ_NOTFOUND:
                continue      # "a reader gets one complete version or a not-found error"
            ok = False
        if ok:
            return None
    return "outcomes %s with files %s equal no sequential order of the calls (sequential orders give %s)" % (
        outs, state, sorted({(tuple(o), tuple(sorted(s.items()))) for _, o, s in cache[adj]})[:3])


def classify(calls, outs, state, status):
    """symptom of a non-linearizable / stuck execution, for known-finding signatures"""
    if status.startswith("deadlock") or status.startswith("diverged") or status == "step-limit":
        return "does-not-terminate"
    for i, c in enumerate(calls):
        if c["op"] == "so" and c.get("p") is not None and outs[i] and outs[i].startswith("ok:"):
            cid = "O%d" % c["b"]
            if state.get("P%d" % c["p"]) == "C%d" % c["b"] and cid not in state:
                return "stored-but-object-missing"
    for i, c in enumerate(calls):
        if outs[i] == "exn:StoreObjectForPidAlreadyInProgress" and not any(
                j != i and stores_pid(calls[j]) == stores_pid(c) for j in range(len(calls))):
            return "in-progress-without-concurrent-store"
    ops = sorted(c["op"] for c in calls)
    if "tag" in ops and "del" in ops:
        for i, c in enumerate(calls):
            if c["op"] == "tag" and any(d["op"] == "del" and d["p"] == c["p"] for d in calls):
                return "tag-races-delete-of-same-pid"
    if any(c["op"] in ("dm", "del") for c in calls) and any(o in ("exn:FileNotFoundError",) for o in outs if o):
        return "deleter-fails-on-concurrent-delete"
    if any(k.startswith("X") for k in state):
        return "deletion-marker-left"
    return "not-linearizable"


def sched_scenarios(run, menu_name, group, theorems, mode="th", reader_relaxed=False, n_quick=24, rand_quick=3, rand_thorough=25, prop=None,
                    oracle="lin", witnesses=True):
    rng = random.Random(run.seed)
    quick = run.tier == "quick"
    menu = cf.load_menu(menu_name)
    scen = menu[group]["scenarios"]
    failing = [s for s in scen if s["verdict"] != "OK"]
    # corpus first: one scenario per recorded family, then a sample
    first = {}
    for s in failing:
        first.setdefault(s.get("subfamily") or s.get("family"), s)
    chosen = list(first.values())
    rest = [s for s in scen if s not in chosen]
    chosen += rest if not quick else rng.sample(rest, min(len(rest), n_quick))
    replays = 0
    concentrated = [0]
    for s in chosen:
        setup = cf.parse_history(s["setup"])
        calls = parse_calls(s["calls"])
        sid = "%s:%s:%d" % (menu_name.replace(".json", ""), group, s["index"])
        # ---- model: every distinct final configuration with one witness schedule
        finals = []
        if witnesses:
            line = sched.model_sched_line("sched", setup, calls)
            finals = sched.parse_finals(model.run_lines([line], timeout=1200)[0])
        cache = {}
        run.count("threads", str(len(calls)))
        seen_impl = set()
        todo = [("witness", f["schedule"], f) for f in finals] if witnesses else []
        for _ in range(rand_quick if quick else rand_thorough):
            todo.append(("random", None, None))
        # thorough tier: a short conflict-directed walk on every pair, whether or not anything diverged
        walker = sched.Dfs(seed=run.seed, budget=40, conflicts=True, max_preempt=2) if (not quick and group == "pairs") else None
        diverged_here = False
        while todo or walker is not None:
            if todo:
                kind, schedule, f = todo.pop(0)
                u = Universe()
                r = sched.run_schedule(u, [dict(c) for c in setup], [dict(c) for c in calls], schedule=schedule,
                                       rng=random.Random(rng.random()) if schedule is None else None, mode=mode,
                                       sticky=rng.choice([0.0, 0.6, 0.85, 0.95]) if kind == "extra" else 0.0)
            else:
                # preemption-bounded walk over the operations on which the calls of this scenario conflict (sched.Dfs)
                kind, schedule, f = "walk", None, None
                r = sched.run_schedule(Universe(), [dict(c) for c in setup], [dict(c) for c in calls], dfs=walker, mode=mode)
                if walker.done() or len(run.violations) >= 45:
                    run.extra.setdefault("conflict_walks", {})[sid] = {"runs": walker.runs, "complete": walker.complete}
                    walker = None
            replays += 1
            outs, st = r["outcomes"], r["state"]
            key = (sid, kind, tuple(r["schedule"]))
            run.case("P-sched" if kind == "witness" else ("search-concentrated" if kind in ("extra", "walk") else "search-schedules"), key, nontrivial=len(set(r["schedule"])) > 1,
                     sample={"projection": "P-sched", "setup": s["setup"], "calls": s["calls"], "schedule": ",".join(map(str, r["schedule"])),
                             "kind": kind, "outcomes": outs, "files": st})
            if kind == "witness":
                # correspondence: same schedule, same per-thread operation sequences, outcomes, files, no identifier left
                run.traces_validated += 1
                rp = sched.parse_replay(model.run_lines([sched.model_sched_line("replay", setup, calls, schedule)])[0])
                d = None
                if r["status"] != "ok":
                    d = "implementation could not follow the schedule: " + r["status"]
                elif rp is None:
                    d = "model diverged on its own witness"
                else:
                    mops, mouts, mst, mlocks, flags = rp
                    if mouts != outs:
                        d = "outcomes model=%s impl=%s" % (mouts, outs)
                    elif mst != st:
                        d = "files model=%s impl=%s" % (mst, st)
                    else:
                        for i in range(len(calls)):
                            dd = tr.diff_traces(mops.get(i, []), r["ops"][i])
                            if dd:
                                d = "thread %d %s" % (i, dd)
                                break
                if d:
                    run.disagree("P-sched", {"scenario": sid, "setup": s["setup"], "calls": s["calls"], "schedule": ",".join(map(str, schedule))},
                                 "%s %s" % (f["outcomes"], f["state"]), d, list(theorems))
            # ---- oracle on the implementation, independent of the model
            replay = {"scenario": sid, "setup": s["setup"], "calls": s["calls"], "schedule": ",".join(map(str, r["schedule"])), "mode": mode}
            problem = None
            if r["status"] != "ok" and not (kind == "witness"):
                problem = "execution did not complete: " + r["status"]
            elif r["status"] == "ok":
                if r["locks"]:
                    problem = "identifiers left locked: %s" % r["locks"]
                elif oracle == "locks":
                    problem = None
                else:
                    problem = lin_verdict(setup, calls, outs, st, cache, reader_relaxed)
                    if problem is None:
                        # a store_object that returned successfully leaves its pid retrievable with the right bytes
                        for i, c in enumerate(calls):
                            deleted_too = any(d["op"] == "del" and d["p"] == c.get("p") for d in calls)
                            if c["op"] == "so" and c.get("p") is not None and outs[i].startswith("ok:") and not deleted_too:
                                if st.get("P%d" % c["p"]) != "C%d" % c["b"] or ("O%d" % c["b"]) not in st:
                                    problem = "store_object(pid %d) returned success but the pid is not retrievable" % c["p"]
            if problem:
                # a recorded finding covers exactly the failing final configurations the MODEL has for this scenario (proved to fail in
                # props/C07.v): the same outcomes and the same files; anything else in the same scenario is a fresh violation
                same_as_model = any((not f_["lin"] or not f_["retr"]) and f_["outcomes"] == outs and f_["state"] == st for f_ in finals)
                sig = {"kind": "sched", "symptom": classify(calls, outs, st, r["status"]), "scenario": sid, "mode": mode,
                       "calls": sorted(c["op"] for c in calls), "model_has_this_failure": "yes" if same_as_model else "no"}
                run.violation(sig, "[%s] after [%s] under schedule %s: %s" % (s["calls"], s["setup"], ",".join(map(str, r["schedule"])), problem), replay)
            if kind == "witness" and d and not diverged_here and concentrated[0] < (30 if quick else 120):
                # the model's schedule no longer fits this scenario: concentrate the search here — random schedules with few
                # preemptions, then a systematic walk with at most two preemptions, placed where the calls conflict
                diverged_here = True
                concentrated[0] += 1
                todo.extend(("extra", None, None) for _ in range(20))
                walker = sched.Dfs(seed=run.seed, budget=250 if quick else 1500, conflicts=True, max_preempt=2)
    # extraction vs kernel on a couple of the replay command lines used above
    if witnesses and chosen:
        import checks_cf
        s0 = chosen[0]
        setup0, calls0 = cf.parse_history(s0["setup"]), parse_calls(s0["calls"])
        fin0 = sched.parse_finals(model.run_lines([sched.model_sched_line("sched", setup0, calls0)], timeout=1200)[0])
        lines = [sched.model_sched_line("replay", setup0, calls0, f["schedule"]) for f in fin0[:2]]
        if lines:
            checks_cf.kernel_check(run, rng, lines, model.run_lines(lines), len(lines))
    run.extra["scenario_runs"] = replays
    run.extra["menu_scenarios"] = len(scen)
    run.extra["scenarios_run"] = len(chosen)


WAKE07 = [  # two threads contend on ONE identifier while a third takes and releases ANOTHER identifier of the same lock class
    ("so - p 7 1 n n ; so - p 8 1 n n", "tag 1 7 || tag 1 8 || tag 2 8"),          # reference-locked pids
    ("so - p 7 1 n n ; so - p 8 1 n n", "tag 1 7 || tag 2 7 || tag 3 8"),          # cids
    ("so 1 p 7 1 n n ; so 2 p 8 1 n n", "del 1 || del 1 || del 2"),                # object-locked pids
    ("so 1 p 7 1 n n ; so 2 p 7 1 n n ; so 3 p 8 1 n n", "del 1 || del 2 || del 3"),
    ("so - p 7 1 n n", "tag 1 7 || tag 2 7 || tag 3 7"),
    # three contenders for ONE identifier (two of them wait at the same time; who is told when the second holder leaves?)
    ("so 1 p 7 1 n n", "del 1 || del 1 || del 1"),                                  # object-locked pid
    ("so - p 7 1 n n ; so - p 8 1 n n", "tag 1 7 || tag 1 8 || tag 1 7"),          # reference-locked pid
]
WAKE12 = [
    ("", "sm 1 1 p 1 1 || sm 1 1 p 2 1 || sm 1 2 p 1 1"),                           # metadata documents
    ("sm 1 1 p 1 1 ; sm 2 1 p 1 1", "dm 1 1 || sm 1 1 p 2 1 || dm 2 1"),
    ("sm 1 1 p 1 1 ; sm 1 2 p 1 1", "dm 1 - || sm 1 1 p 2 1 || sm 1 2 p 2 1"),
    ("sm 1 1 p 1 1 ; sm 1 2 p 1 1", "dm 1 1 || dm 1 1 || sm 1 2 p 2 1"),          # two deleters of one document, a third call releases another
    ("sm 1 1 p 1 1", "sm 1 1 p 2 1 || dm 1 1 || sm 1 2 p 1 1"),
    ("", "sm 1 1 p 1 1 || sm 1 1 p 2 1 || dm 1 1"),                                 # three contenders for one document
    # two DIFFERENT documents whose lock names coincide: (pid "ab", format "c") and (pid "a", format "bc")
    ("sm 1 1 p 1 1", "sm 2 2 p 2 1 || dm 1 -", {"pids": {1: "ab", 2: "a"}, "fmts": {1: "c", 2: "bc"}}),
    ("sm 1 1 p 1 1 ; sm 2 2 p 1 1", "sm 2 2 p 2 1 || dm 1 1", {"pids": {1: "ab", 2: "a"}, "fmts": {1: "c", 2: "bc"}}),
]


def wake_families(run, families, n, reader_relaxed=False, mode="th", oracle="lin", proj="search-wakeups", dfs=None):
    """implementation-side search on 3-thread pools built to exercise wait()/notify(): random schedules with long runs of one
    thread, judged against the implementation's own sequential runs of every order"""
    rng = random.Random(run.seed + 7)
    for fam in families:
        setup_t, calls_t = fam[0], fam[1]
        UFACTORY[0] = (lambda kw=fam[2]: Universe(pids=dict(kw["pids"]), fmts=dict(kw["fmts"]))) if len(fam) > 2 else Universe
        setup, calls = cf.parse_history(setup_t), parse_calls(calls_t)
        cache = {}
        # first a systematic walk over the orders of the synchronisation steps (sched.Dfs: complete when the budget allows,
        # which it does for two-call pools and the metadata pools), then random schedules at single-operation granularity
        budget = dfs if dfs is not None else (700 if (len(calls) == 2 or all(c["op"] in ("sm", "dm", "rm") for c in calls)) else (100 if run.tier == "quick" else 800))
        # ... and a preemption-bounded walk (a thread stopped INSIDE its critical section, where the calls conflict)
        walkers = ([sched.Dfs(seed=run.seed, budget=budget)] if budget else []) + \
                  [sched.Dfs(seed=run.seed, budget=150 if run.tier == "quick" else 800, conflicts=True, max_preempt=2)]
        walker = walkers.pop(0)
        k = 0
        while True:
            if walker is not None:
                r = sched.run_schedule(UFACTORY[0](), [dict(c) for c in setup], [dict(c) for c in calls], dfs=walker, mode=mode)
                run.count("systematic_runs", calls_t)
                if walker.done():
                    run.extra.setdefault("systematic", {}).setdefault(calls_t, []).append({"runs": walker.runs, "complete": walker.complete, "preemption_bounded": walker.conflicts})
                    walker = walkers.pop(0) if walkers else None
            else:
                if k >= n:
                    break
                k += 1
                r = sched.run_schedule(UFACTORY[0](), [dict(c) for c in setup], [dict(c) for c in calls], rng=random.Random(rng.random()), mode=mode,
                                       sticky=rng.choice([0.0, 0.7, 0.9]))
            run.case(proj, (calls_t, tuple(r["schedule"])), nontrivial=True,
                     sample={"search": "3 threads, two contending on one identifier while a third releases another of the same class", "setup": setup_t, "calls": calls_t,
                             "schedule": ",".join(map(str, r["schedule"])), "outcomes": r["outcomes"]})
            problem = None
            if r["status"] != "ok":
                problem = "execution did not complete: " + r["status"]
            elif r["locks"]:
                problem = "identifiers left locked: %s" % r["locks"]
            elif oracle == "lin":
                problem = lin_verdict(setup, calls, r["outcomes"], r["state"], cache, reader_relaxed)
            if problem:
                run.violation({"kind": "sched", "symptom": classify(calls, r["outcomes"], r["state"], r["status"]), "scenario": "wake:" + calls_t, "mode": mode,
                               "calls": sorted(c["op"] for c in calls)},
                              "[%s] after [%s] under schedule %s: %s" % (calls_t, setup_t, ",".join(map(str, r["schedule"])), problem),
                              dict({"setup": setup_t, "calls": calls_t, "schedule": ",".join(map(str, r["schedule"])), "mode": mode},
                                   **({"universe": fam[2]} if len(fam) > 2 else {})))
                break
    UFACTORY[0] = Universe


def c07(run):
    sched_scenarios(run, "menus07.json", "pairs", ["C07_lin_pairs", "C07_known_all_fail"], n_quick=400, rand_quick=2)
    wake_families(run, WAKE07, 25 if run.tier == "quick" else 200)
    if run.tier != "quick":
        sched_scenarios(run, "menus07.json", "triples", ["C07_lin_triples"], n_quick=10, rand_thorough=10)


def c12(run):
    sched_scenarios(run, "menus12.json", "pairs", ["C12_lin_pairs"], reader_relaxed=True, n_quick=400, rand_quick=2)
    wake_families(run, WAKE12, 25 if run.tier == "quick" else 200, reader_relaxed=True)
    if run.tier != "quick":
        sched_scenarios(run, "menus12.json", "triples", ["C12_lin_triples"], reader_relaxed=True, n_quick=10, rand_thorough=10)


# ====================================================================== C08

MIX = ["so 1 p 7 1 n n", "so 2 p 7 1 n n", "so 1 p 8 1 n n", "so - p 7 1 n n", "tag 1 7", "tag 3 7", "del 1", "del 2", "dii 7 n 1 0", "dii 7 o 1 1",
       "sm 1 1 p 1 1", "sm 1 1 p 2 1", "sm 2 0 p 1 1", "rm 1 1", "dm 1 1", "dm 1 -", "ro 1", "gh 1", "so 1 p 7 1 b n", "so 3 p 8 1 n b"]
MIX_STATES = ["", "so 1 p 7 1 n n", "so 1 p 7 1 n n ; so 2 p 7 1 n n ; sm 1 1 p 1 1", "so - p 7 1 n n ; sm 1 1 p 1 1 ; sm 1 0 p 2 1"]


def c08(run):
    import checks_cf
    rng = random.Random(run.seed)
    quick = run.tier == "quick"
    # (a) every fault site of every call of the C13 menu: no identifier left locked, a follow-up call returns
    checks_cf.fault_scenarios(run, "menus13.json", ["no_deadlock_no_leak", "C13_no_lock_left"], only_locks=True)
    checks_cf.source_read_faults(run)
    # (b) schedules of the C07 / C12 scenarios: every call returns, nothing stays locked
    sched_scenarios(run, "menus07.json", "pairs", ["no_deadlock_fault_free"], n_quick=10, rand_quick=2, rand_thorough=6, oracle="locks", witnesses=not quick)
    sched_scenarios(run, "menus12.json", "pairs", ["no_deadlock_fault_free"], n_quick=8, rand_quick=2, rand_thorough=6, oracle="locks", witnesses=False)
    # (b') pools in which two calls take the same identifiers of DIFFERENT lock classes (lock-order sensitive), chunky random schedules
    LOCKORDER = [("so 1 p 7 1 n n", "tag 1 7 || del 1"), ("so 1 p 7 1 n n", "so 1 p 7 1 n n || del 1"), ("so - p 7 1 n n", "tag 1 7 || del 1"),
                 ("so 1 p 7 1 n n ; so 2 p 7 1 n n", "del 1 || del 2 || tag 3 7"), ("so 1 p 7 1 n n ; sm 1 1 p 1 1", "del 1 || sm 1 1 p 2 1 || dm 1 -"),
                 ("so 1 p 7 1 n n", "tag 1 7 || del 1 || so 1 p 7 1 n n"),
                 ("", "so 1 p 7 1 n n || del 1 || del 1")]        # a store and two deleters of one pid (here only the locks are judged: the store may be refused, K07-D9)
    wake_families(run, LOCKORDER, 20 if quick else 200, oracle="locks", proj="search-lockorder")
    wake_families(run, WAKE07 + WAKE12, 8 if quick else 80, oracle="locks", proj="search-wakeups")
    # (c) 3 and 4 threads drawn from a mixed menu (object and metadata calls together), random schedules, then a
    #     follow-up call on every identifier involved, under a watchdog
    n = 40 if quick else 600
    for k in range(n):
        setup = cf.parse_history(rng.choice(MIX_STATES))
        calls = [cf.parse_call(rng.choice(MIX)) for _ in range(rng.choice([3, 3, 4]))]
        u = Universe()
        r = sched.run_schedule(u, [dict(c) for c in setup], [dict(c) for c in calls], rng=random.Random(rng.random()))
        desc = " || ".join(token_line(c) for c in calls)
        run.case("search-mixed", (tuple(token_line(c) for c in setup), desc, tuple(r["schedule"])), nontrivial=True,
                 sample={"search": "mixed 3-4 thread pools", "setup": [token_line(c) for c in setup], "calls": desc,
                         "schedule_length": len(r["schedule"]), "outcomes": r["outcomes"]})
        run.count("threads", str(len(calls)))
        problem = None
        if r["status"] != "ok":
            problem = "execution did not complete: " + r["status"]
        elif r["locks"]:
            problem = "identifiers left locked: %s" % r["locks"]
        if problem:
            run.violation({"kind": "sched", "symptom": "does-not-terminate" if r["status"] != "ok" else "identifier-left-locked", "calls": sorted(c["op"] for c in calls)},
                          "[%s] after [%s] under schedule %s: %s" % (desc, "; ".join(token_line(c) for c in setup), ",".join(map(str, r["schedule"])), problem),
                          {"setup": [token_line(c) for c in setup], "calls": desc, "schedule": ",".join(map(str, r["schedule"]))})


CHECKS = {"C07": c07, "C12": c12, "C08": c08}


# ====================================================================== C16

def _mp_env(value):
    import os
    class _E:
        def __enter__(self_):
            self_.old = os.environ.get("USE_MULTIPROCESSING")
            if value is None:
                os.environ.pop("USE_MULTIPROCESSING", None)
            else:
                os.environ["USE_MULTIPROCESSING"] = value
        def __exit__(self_, *a):
            if self_.old is None:
                os.environ.pop("USE_MULTIPROCESSING", None)
            else:
                os.environ["USE_MULTIPROCESSING"] = self_.old
    return _E()


_FORK_HS = None


def _fork_worker(args):
    """runs in a forked process: a batch of calls on the inherited store instance"""
    import hashlib
    wid, script = args
    hs = _FORK_HS
    out = []
    for op, pid, path, extra in script:
        try:
            if op == "so":
                hs.store_object(pid, path)
            elif op == "del":
                hs.delete_object(pid)
            elif op == "tag":
                hs.tag_object(pid, extra)
            elif op == "sm":
                hs.store_metadata(pid, path, extra)
            elif op == "dm":
                hs.delete_metadata(pid, extra)
            elif op == "rm":
                hs.retrieve_metadata(pid, extra).close()
            elif op == "ro":
                s = hs.retrieve_object(pid)
                data = s.read()
                s.close()
                if hashlib.sha256(data).hexdigest() not in extra:
                    out.append((op, pid, "WRONG-BYTES"))
                    continue
            out.append((op, pid, "ok"))
        except Exception as e:  # noqa: BLE001
            out.append((op, pid, type(e).__name__))
    return out


def c16(run):
    import framework as _fw
    _fw.environment_projection(run)
    import hashlib
    import multiprocessing
    import os
    import shutil
    import checks
    import oracles
    from checks_a import layerA, hx, new_store, fhs
    from universe import scratch_root, Abstractor
    rng = random.Random(run.seed)
    quick = run.tier == "quick"
    global _FORK_HS
    # ---- (1) mode selection and creation of the cross-process primitives
    base = scratch_root()
    try:
        envs = [None, "True", "False", "true", "TRUE", "1", "", "yes", "True "]
        res = layerA(["mpmode 1 %s" % ("N" if e is None else "S" + hx(e)) for e in envs])
        for e, gm in zip(envs, res):
            with _mp_env(e):
                hs, root = new_store(base, name="m%d" % envs.index(e))
            gi = ("mp" if hs.use_multiprocessing else "th") + " " + ("mp-primitives" if hasattr(hs, "object_pid_condition_mp") else "th-primitives")
            run.case("P-config/mode", e, nontrivial=e is not None, sample={"projection": "P-config/mode", "USE_MULTIPROCESSING": e, "impl": gi})
            if gm != gi:
                run.disagree("P-config/mode", {"env": e}, gm, gi, ["C16 mode_of_env / init_primitives (Config.v)"])
            want = "mp mp-primitives" if e == "True" else "th th-primitives"
            if gi != want:
                run.violation({"kind": "mode", "env": str(e)}, "with USE_MULTIPROCESSING=%r the store is initialised as [%s], expected [%s]" % (e, gi, want), {"env": e})
    finally:
        shutil.rmtree(base, ignore_errors=True)
    # ---- (1b) static: the multiprocessing copy of every synchronised section is the threading copy up to the _th/_mp names
    c16_copies(run)
    # ---- (2) the call sequences of C05 / C11 in multiprocessing mode: same results and states as the model (= as threading mode)
    hs_all = checks.gen_histories(rng, "all", 0, 25 if quick else 300, 10 if quick else 25)
    hs_all += checks.gen_histories(rng, "refs", 30 if quick else 300, 0, 8)
    A = seq.alphabet("meta", pids=(1, 2), fmts=(0, 1), versions=(1, 2))
    hs_all += [seq.random_history(rng, A, rng.randint(3, 10)) for _ in range(20 if quick else 200)]
    with _mp_env("True"):
        checks.seq_project(run, "P-seq[mp]", hs_all, step_oracles=(lambda c, r, b, a: oracles.inv_refs(a),),
                           theorems=["C05_sem_inv (one model for both synchronisation modes)"], kernel_sample=0)
    # the same histories in threading mode must give the same outcomes and states (three-way: TH, MP, model)
    sample = hs_all[: (25 if quick else 150)]
    for h in sample:
        u = Universe()
        a = seq.run_impl(u, [dict(c) for c in h])
        with _mp_env("True"):
            b = seq.run_impl(Universe(), [dict(c) for c in h])
        run.case("P-seq[th=mp]", checks.hist_key(h), sample=None)
        for k, (x, y) in enumerate(zip(a, b)):
            if x[0] != y[0] or x[1] != y[1]:
                run.violation({"kind": "mode-differs", "call": h[k]["op"]}, "history [%s]: call %d gives %s / %s in threading mode and %s / %s in multiprocessing mode" % (
                    checks.hist_key(h), k, x[0], x[1], y[0], y[1]), {"history": seq.strip(h)})
                break
    # ---- (3) the C07 / C12 scenarios driven through the multiprocessing code paths (stand-ins under the *_mp names)
    try:
        with _mp_env("True"):
            sched_scenarios(run, "menus07.json", "pairs", ["C07_lin_pairs (transferred: one model for both modes)"], mode="mp", n_quick=8, rand_quick=2, rand_thorough=5)
            sched_scenarios(run, "menus12.json", "pairs", ["C12_lin_pairs (transferred)"], mode="mp", reader_relaxed=True, n_quick=6, rand_quick=2, rand_thorough=5)
    except Exception as e:  # noqa: BLE001 - the store no longer has the attributes the stand-ins are installed under
        run.disagree("P-sched[mp]", {"step": "installing the recording lists / condition stand-ins under the *_mp names"},
                     "four lists and four conditions as plain attributes of the instance", "%s: %s" % (type(e).__name__, str(e)[:200]),
                     ["C16: the multiprocessing copies use per-instance lists created at initialisation"])
    # ---- (3b) I/O failures through the multiprocessing code paths: same outcome, files and (empty) lists as in threading mode
    try:
        menu13 = cf.load_menu("menus13.json")["scenarios"]
        pick13 = [s_ for s_ in menu13 if s_["call"].split()[0] in ("tag", "so", "del", "sm")]
        rng.shuffle(pick13)
        for s_ in pick13[: (6 if quick else 40)]:
            setup_, call_ = cf.parse_history(s_["setup"]), cf.parse_call(s_["call"])
            for k_ in range(s_["sites"]):
                ra = cf.run_faulted(Universe(), setup_, call_, k_, False, mode="th")
                rb = cf.run_faulted(Universe(), setup_, call_, k_, False, mode="mp")
                run.case("P-fault[th=mp]", (s_["id"], k_), sample={"projection": "P-fault[th=mp]", "setup": s_["setup"], "call": s_["call"], "site": k_, "outcome": ra["outcome"]})
                if (ra["outcome"], cf.canon_tmp(ra["state"]), ra["locks"]) != (rb["outcome"], cf.canon_tmp(rb["state"]), rb["locks"]):
                    run.violation({"kind": "mode-differs-under-fault", "call": call_["op"]},
                                  "[%s] after [%s] with a one-off failure at site %d %s: threading mode gives %s %s %s, multiprocessing mode gives %s %s %s" % (
                                      s_["call"], s_["setup"], k_, ra["fired"], ra["outcome"], ra["state"], ra["locks"], rb["outcome"], rb["state"], rb["locks"]),
                                  {"scenario": s_["id"], "setup": s_["setup"], "call": s_["call"], "site": k_, "persistent": False})
    except Exception as e:  # noqa: BLE001
        run.disagree("P-fault[th=mp]", {"step": "fault runs in multiprocessing mode"}, "runs", "%s: %s" % (type(e).__name__, str(e)[:200]), ["C16"])
    # ---- (4) real forked worker processes contending on shared pids and cids
    rounds = 2 if quick else 10
    for rnd in range(rounds):
        base = scratch_root()
        try:
            with _mp_env("True"):
                hs, root = new_store(base)
            datas = [os.urandom(100 + i) for i in range(2)]
            paths = []
            for i, d in enumerate(datas):
                pth = os.path.join(base, "data%d" % i)
                with open(pth, "wb") as fh:
                    fh.write(d)
                paths.append(pth)
            cids = [hashlib.sha256(d).hexdigest() for d in datas]
            _FORK_HS = hs
            ctx = multiprocessing.get_context("fork")
            nw = 4 if quick else 8
            # phase A: every worker stores the SAME pid: exactly one succeeds
            with ctx.Pool(nw) as pool:
                resA = pool.map(_fork_worker, [(w, [("so", "shared-pid", paths[0], None)]) for w in range(nw)])
            okA = sum(1 for r in resA for x in r if x[2] == "ok")
            badA = [x[2] for r in resA for x in r if x[2] not in ("ok", "StoreObjectForPidAlreadyInProgress", "HashStoreRefsAlreadyExists")]
            # phase B: workers tag / store distinct pids onto one cid, then everybody deletes: no lost or duplicated reference
            scripts = [(w, [("so", "pid-%d-%d" % (w, j), paths[0], None) for j in range(5)]) for w in range(nw)]
            with ctx.Pool(nw) as pool:
                resB = pool.map(_fork_worker, scripts)
            u = Universe(pids={i: "pid-%d-%d" % (i // 5, i % 5) for i in range(nw * 5)})
            try:
                listing = open(os.path.join(root, "refs", "cids", cids[0][:2], cids[0][2:4], cids[0][4:6], cids[0][6:])).read().split("\n")[:-1]
            except OSError:
                listing = []
            wantB = {"pid-%d-%d" % (w, j) for w in range(nw) for j in range(5)} | {"shared-pid"}
            # phase C: random contention on 3 pids x 2 contents + metadata
            def rand_script():
                sc = []
                for _ in range(25 if quick else 50):
                    op = rng.choice(["so", "so", "del", "tag", "sm", "dm", "rm", "ro"])
                    pid = rng.choice(["p1", "p2", "p3"])
                    i = rng.randrange(2)
                    extra = {"tag": cids[i], "sm": rng.choice([None, "f1"]), "dm": rng.choice([None, "f1"]), "rm": rng.choice([None, "f1"]), "ro": cids}.get(op)
                    sc.append((op, pid, paths[i], extra))
                return sc
            with ctx.Pool(nw) as pool:
                resC = pool.map_async(_fork_worker, [(w, rand_script()) for w in range(nw)]).get(timeout=120)
            lists = {k_: list(getattr(hs, a_ + "_mp")) for k_, a_ in (("op", "object_locked_pids"), ("ci", "object_locked_cids"),
                                                                     ("md", "metadata_locked_docs"), ("rp", "reference_locked_pids"))}
            run.case("search-forked", (rnd,), sample={"search": "forked workers", "workers": nw, "same_pid_successes": okA,
                                                      "outcome_classes": sorted({x[2] for r in resC for x in r})})
            replay = {"round": rnd, "workers": nw}
            if okA != 1 or badA:
                run.violation({"kind": "fork-same-pid"}, "%d workers storing one pid: %d succeeded, unexpected outcomes %s" % (nw, okA, badA), replay)
            if sorted(listing) != sorted(wantB):
                run.violation({"kind": "fork-lost-reference"}, "workers storing %d pids onto one cid: the cid list has %d entries (%d distinct)" % (len(wantB), len(listing), len(set(listing))), replay)
            if any(x[2] == "WRONG-BYTES" for r in resC for x in r):
                run.violation({"kind": "fork-wrong-bytes"}, "a forked worker retrieved bytes that are none of the stored contents", replay)
            if any(v for v in lists.values()):
                run.violation({"kind": "fork-locked"}, "identifiers left locked after forked workers finished: %s" % lists, replay)
            unexpected = sorted({x[2] for r in resC for x in r} - {"ok", "StoreObjectForPidAlreadyInProgress", "HashStoreRefsAlreadyExists", "PidRefsAlreadyExistsError",
                                                                   "PidRefsDoesNotExist", "ValueError", "RefsFileExistsButCidObjMissing", "OrphanPidRefsFileFound",
                                                                   "PidNotFoundInCidRefsFile", "FileNotFoundError"})
            if unexpected:
                run.violation({"kind": "fork-exception", "classes": unexpected}, "forked workers raised undocumented classes %s" % unexpected, replay)
        finally:
            _FORK_HS = None
            shutil.rmtree(base, ignore_errors=True)
    forked_sequential(run)


def _fork_loop(conn, im):
    """a persistent forked worker: executes the calls it is sent, one at a time, on the inherited store instance"""
    while True:
        c = conn.recv()
        if c is None:
            break
        try:
            conn.send(im.call(c))
        except BaseException as e:  # noqa: BLE001
            conn.send("exn:" + type(e).__name__)
    os._exit(0)


def forked_sequential(run):
    """P-seq[fork]: one call history, its calls handed ONE AT A TIME to persistent forked worker processes chosen at random (mode
    multiprocessing), against the same history in a single process in threading mode: same result of every call, same files.  Nothing
    runs concurrently here - what differs is only WHICH PROCESS makes each call, so anything a process keeps to itself shows."""
    import multiprocessing
    import checks
    rng = random.Random(run.seed + 16)
    quick = run.tier == "quick"
    hs_ = [[{"op": "so", "p": 1, "b": 7, "n": 1}, {"op": "so", "p": 2, "b": 7, "n": 1}, {"op": "ro", "p": 1}, {"op": "gh", "p": 1}, {"op": "del", "p": 1},
            {"op": "so", "p": 1, "b": 8, "n": 1}, {"op": "ro", "p": 1}, {"op": "gh", "p": 1}, {"op": "del", "p": 1}, {"op": "ro", "p": 2}],
           [{"op": "sm", "p": 1, "f": 0, "v": 1, "n": 1}, {"op": "rm", "p": 1, "f": 0}, {"op": "sm", "p": 1, "f": 0, "v": 2, "n": 1}, {"op": "rm", "p": 1, "f": 0},
            {"op": "dm", "p": 1, "f": None}, {"op": "rm", "p": 1, "f": 0}]]
    # which worker makes which call of the two fixed histories: one worker looks a pid up, the OTHER deletes and re-stores it, the first looks again
    assign = [[0, 0, 0, 0, 1, 1, 0, 0, 0, 1], [0, 0, 1, 0, 1, 0]]
    hs_ += checks.gen_histories(rng, "all", 0, 10 if quick else 80, 10)
    for k, h in enumerate(hs_):
        for c in h:
            seq.decorate(rng, c) if "real" not in c and c["op"] in ("dii", "gh") else None
        u = Universe()
        for _ in range(2):
            seq.prepare(u, h)
        ps, fs = seq.ids_of(h)
        ps, fs = sorted(set(ps) | {1, 2, 3}), sorted(set(fs) | {0, 1, 2})
        want = seq.run_impl(u, [dict(c) for c in h], pids=ps, fmts=fs)
        with _mp_env("True"):
            im = Impl(u, ps, fs)
        ctx = multiprocessing.get_context("fork")
        workers = []
        got = []
        try:
            for _ in range(2):
                a, b = ctx.Pipe()
                pr = ctx.Process(target=_fork_loop, args=(b, im), daemon=True)
                pr.start()
                workers.append((pr, a))
            for i, c in enumerate(h):
                w = assign[k][i] if k < 2 else rng.randrange(2)
                pr, a = workers[w]
                a.send(dict(c))
                if a.poll(20):
                    out = a.recv()
                else:
                    out = "exn:HANG"
                got.append((out, im.state()))
                if out == "exn:HANG":
                    break
        finally:
            for pr, a in workers:
                try:
                    a.send(None)
                except Exception:  # noqa: BLE001
                    pass
                pr.join(2)
                if pr.is_alive():
                    pr.kill()
            im.close()
        key = tuple(token_line(c) for c in h)
        run.case("P-seq[fork]", key, nontrivial=True, sample={"projection": "P-seq[fork]", "history": list(key)[:8], "outcomes": [g[0] for g in got][:8]})
        for i, (g, w_) in enumerate(zip(got, want)):
            if g[0] != w_[0] or g[1] != w_[1]:
                what = "call %d [%s] of [%s], made by a forked worker in multiprocessing mode, gives %s %s; in one process (threading mode) it gives %s %s" % (
                    i, token_line(h[i]), " ; ".join(key[:i]), g[0], g[1], w_[0], w_[1])
                run.violation({"kind": "fork-seq", "call": h[i]["op"]}, what, {"history": seq.strip(h), "line": history_line("states", h), "step": i, "mode": "forked workers"})
                break


CHECKS["C16"] = c16


# ---------------------------------------------------------------- C16: the two textual copies of every synchronised section

def mode_copies(source):
    """every `if self.use_multiprocessing: A else: B` statement and `A if self.use_multiprocessing else B` expression of the source,
    as (function name, line, normalised dump of A, normalised dump of B): B is the threading copy, A the multiprocessing copy;
    normalisation = drop logging statements, rename the `_mp` suffix of attribute names to `_th`."""
    import ast

    def is_mode_test(t):
        return isinstance(t, ast.Attribute) and t.attr == "use_multiprocessing"

    def is_logging(stmt):
        if isinstance(stmt, ast.Expr) and isinstance(stmt.value, ast.Call) and isinstance(stmt.value.func, ast.Attribute):
            return stmt.value.func.attr in ("debug", "info", "warning", "error", "critical")
        return False

    class Norm(ast.NodeTransformer):
        def visit_Attribute(self, node):
            self.generic_visit(node)
            if node.attr.endswith("_mp"):
                node.attr = node.attr[:-3] + "_th"
            return node

        def generic_visit(self, node):
            for field in ("body", "orelse", "finalbody"):
                v = getattr(node, field, None)
                if isinstance(v, list):
                    setattr(node, field, [s_ for s_ in v if not is_logging(s_)])
            return super().generic_visit(node)

    def dump(nodes):
        import copy
        out = []
        for n in (nodes if isinstance(nodes, list) else [nodes]):
            if isinstance(n, ast.stmt) and is_logging(n):
                continue
            if isinstance(n, ast.Assign) and isinstance(n.value, (ast.JoinedStr, ast.Constant, ast.BinOp)) and all(
                    isinstance(t, ast.Name) and ("msg" in t.id or "string" in t.id) for t in n.targets):
                continue            # message strings
            out.append(ast.dump(Norm().visit(copy.deepcopy(n)), annotate_fields=False))
        return out

    tree = ast.parse(source)
    found = []
    for fn in ast.walk(tree):
        if not isinstance(fn, (ast.FunctionDef,)):
            continue
        for node in ast.walk(fn):
            if isinstance(node, ast.If) and is_mode_test(node.test):
                found.append((fn.name, node.lineno, dump(node.body), dump(node.orelse)))
            if isinstance(node, ast.IfExp) and is_mode_test(node.test):
                found.append((fn.name, node.lineno, dump(node.body), dump(node.orelse)))
    return found


def c16_copies(run):
    import os
    from universe import REPO
    src = open(os.path.join(REPO, "src", "hashstore", "filehashstore.py")).read()
    copies = mode_copies(src)
    run.extra["mode_copies_compared"] = len(copies)
    for fn, line, a, b in copies:
        run.case("P-copies", (fn, line), nontrivial=True, sample={"projection": "P-copies", "function": fn, "line": line, "statements": len(b)})
        if fn == "__init__":
            continue        # creation of the primitives: different constructors by design (checked by P-config/mode and by use)
        if a != b:
            k = next((i for i, (x, y) in enumerate(zip(a, b)) if x != y), min(len(a), len(b)))
            run.disagree("P-copies", {"function": fn, "line": line},
                         "threading copy: " + (b[k][:300] if k < len(b) else "(ends)"), "multiprocessing copy: " + (a[k][:300] if k < len(a) else "(ends)"),
                         ["C16: one model program per call stands for both copies only if the copies are the same text up to the _th/_mp names"])
    if len(copies) < 12:
        run.disagree("P-copies", {"found": len(copies)}, ">= 12 mode-dependent sections expected", "%d found" % len(copies), ["C16 (the source no longer has the two-copy structure this check validates)"])
