"""checks — one function per property: correspondence projections + implementation-side search.
Called by /verif/check after the proof step."""
import json
import random

import model
import oracles
import seq
from universe import Universe, token_line, history_line


def hist_key(h):
    return " ; ".join(token_line(c) for c in h)


def seq_project(run, proj, histories, u=None, step_oracles=(), theorems=(), kernel_sample=0,
                state_filter=None, stop_after=8):
    """Run histories on model and implementation; report disagreements and oracle violations."""
    u = u or Universe()
    histories = list(histories)
    if not histories:
        return
    for h in histories:
        seq.prepare(u, h)
    ms = seq.run_model(histories)
    nviol = 0
    for h, mres in zip(histories, ms):
        key = hist_key(h)
        trackers = [o() if isinstance(o, type) else o for o in step_oracles]
        viol = []
        prev = [dict()]

        def after(im, c, r, st, prev=prev, viol=viol, trackers=trackers):
            for t in trackers:
                f = t.step if hasattr(t, "step") else t
                for b in f(c, r, prev[0], st):
                    viol.append((len(viol), token_line(c), b))
            prev[0] = st

        ires = seq.run_impl(u, h, after=after)
        nontrivial = any(r[0].startswith("ok:") for r in ires)
        run.case(proj, key, nontrivial, sample={"projection": proj, "history": key,
                                               "impl_outcomes": [r[0] for r in ires]})
        for r in ires:
            run.count("outcome", r[0].split(":")[1] if r[0].startswith("exn:") else "ok")
        for c in h:
            run.count("call", c["op"])
        # correspondence
        for k, (m, i) in enumerate(zip(mres, ires)):
            if state_filter:
                m = (m[0], state_filter(m[1]), m[2])
                i = (i[0], state_filter(i[1]), i[2])
            d = seq.diff_step(m, i)
            if d:
                run.disagree(proj, {"history": seq.strip(h), "step": k, "line": history_line("states", h)},
                             m[0] + " " + json.dumps(m[1], sort_keys=True), i[0] + " " + json.dumps(i[1], sort_keys=True),
                             list(theorems))
                break
        # property oracle on the implementation
        if viol:
            nviol += 1
            _, call, what = viol[0]
            sig = {"kind": "seq", "last_call": call.split()[0], "what": what.split(" ")[0:3]}
            run.violation({"kind": "seq", "history": key, "call": call, "what": what},
                          "%s after history [%s] at call [%s]" % (what, key, call),
                          {"history": seq.strip(h), "line": history_line("states", h), "problems": [v[2] for v in viol]})
        if nviol >= stop_after:
            break
    # kernel sample: the same lines evaluated by vm_compute must agree with the extracted runner
    if kernel_sample:
        rng = random.Random(run.seed)
        sample = rng.sample(histories, min(kernel_sample, len(histories)))
        lines = [history_line("seq", h) for h in sample]
        a = model.run_lines(lines)
        b = model.run_lines_kernel(lines)
        run.extra["kernel_sample"] = run.extra.get("kernel_sample", 0) + len(lines)
        for ln, x, y in zip(lines, a, b):
            if x != y:
                run.disagree("extraction-vs-kernel", {"line": ln}, y, x, ["(extraction)"])


def gen_histories(rng, kind, n_exh2, n_rand, maxlen, **kw):
    A = seq.alphabet(kind, **kw)
    hs = []
    if n_exh2:
        pairs = [[dict(a), dict(b)] for a in A for b in A]
        rng.shuffle(pairs)
        hs += pairs[:n_exh2]
    for _ in range(n_rand):
        hs.append(seq.random_history(rng, A, rng.randint(3, maxlen)))
    for h in hs:
        for c in h:
            seq.decorate(rng, c)
    return hs


# ------------------------------------------------------------------ C05

def c05(run):
    rng = random.Random(run.seed)
    quick = run.tier == "quick"
    hs = []
    # corpus first: the minimised D3 history and relatives
    hs.append([{"op": "tag", "p": 1, "c": 100}, {"op": "del", "p": 1}])
    hs.append([{"op": "tag", "p": 1, "c": 100}, {"op": "tag", "p": 2, "c": 100}, {"op": "del", "p": 1}, {"op": "del", "p": 2}])
    hs.append([{"op": "so", "p": 1, "b": 7, "n": 1}, {"op": "dii", "c": 7, "sz": "n", "pre": True, "ok": False},
               {"op": "del", "p": 1}])
    hs += gen_histories(rng, "refs", 150 if quick else 1500, 120 if quick else 1500, 10 if quick else 30)
    hs += gen_histories(rng, "all", 0, 60 if quick else 600, 12 if quick else 30)
    seq_project(run, "P-seq[C05]", hs,
                step_oracles=(lambda c, r, b, a: oracles.inv_refs(a), oracles.OrphanTracker, oracles.delete_total),
                theorems=["inv_step", "delete_total"], kernel_sample=8 if quick else 40)


CHECKS = {"C05": c05}
