"""checks — one function per property: correspondence projections + implementation-side search.
Called by /verif/check after the proof step."""
import json
import random

import model
import oracles
import seq
from universe import Universe, token_line, history_line


def hist_key(h):
    return " ; ".join(token_line(c) for c in h)


def seq_project(run, proj, histories, u=None, step_oracles=(), theorems=(), kernel_sample=0,
                state_filter=None, stop_after=8, retrieve_bound=False):
    """Run histories on model and implementation; report disagreements and oracle violations."""
    u = u or Universe()
    histories = list(histories)
    if not histories:
        return
    for h in histories:
        seq.prepare(u, h)
    ms = seq.run_model(histories)
    nviol = 0
    for h, mres in zip(histories, ms):
        key = hist_key(h)
        trackers = [o() if isinstance(o, type) else o for o in step_oracles]
        viol = []
        prev = [dict()]

        def after(im, c, r, st, prev=prev, viol=viol, trackers=trackers):
            if retrieve_bound:
                # C04 search: every bound pid whose object exists is retrievable with the bound bytes
                bind, lists, objs, _, _ = oracles.refs_of(st)
                for p, cid in bind.items():
                    if cid in objs and p.isdigit():
                        got = im.call({"op": "ro", "p": int(p)})
                        if got != "ok:bytes:" + st["O" + cid]:
                            viol.append((len(viol), token_line(c), "retrieve_object(%s) gives %s while bound to object %s" % (p, got, cid)))
            for t in trackers:
                f = t.step if hasattr(t, "step") else t
                for b in f(c, r, prev[0], st):
                    viol.append((len(viol), token_line(c), b))
            prev[0] = st

        ires = seq.run_impl(u, h, after=after)
        nontrivial = any(r[0].startswith("ok:") for r in ires)
        run.case(proj, key, nontrivial, sample={"projection": proj, "history": key,
                                               "impl_outcomes": [r[0] for r in ires]})
        for r in ires:
            run.count("outcome", r[0].split(":")[1] if r[0].startswith("exn:") else "ok")
        for c in h:
            run.count("call", c["op"])
        # correspondence
        for k, (m, i) in enumerate(zip(mres, ires)):
            if state_filter:
                m = (m[0], state_filter(m[1]), m[2])
                i = (i[0], state_filter(i[1]), i[2])
            d = seq.diff_step(m, i)
            if d:
                run.disagree(proj, {"history": seq.strip(h), "step": k, "line": history_line("states", h)},
                             m[0] + " " + json.dumps(m[1], sort_keys=True), i[0] + " " + json.dumps(i[1], sort_keys=True),
                             list(theorems))
                break
        # property oracle on the implementation
        if viol:
            nviol += 1
            _, call, what = viol[0]
            sig = {"kind": "seq", "last_call": call.split()[0], "what": what.split(" ")[0:3]}
            run.violation({"kind": "seq", "history": key, "call": call, "what": what},
                          "%s after history [%s] at call [%s]" % (what, key, call),
                          {"history": seq.strip(h), "line": history_line("states", h), "problems": [v[2] for v in viol]})
        if nviol >= stop_after:
            break
    # kernel sample: the same lines evaluated by vm_compute must agree with the extracted runner
    if kernel_sample:
        rng = random.Random(run.seed)
        sample = rng.sample(histories, min(kernel_sample, len(histories)))
        lines = [history_line("seq", h) for h in sample]
        a = model.run_lines(lines)
        b = model.run_lines_kernel(lines)
        run.extra["kernel_sample"] = run.extra.get("kernel_sample", 0) + len(lines)
        for ln, x, y in zip(lines, a, b):
            if x != y:
                run.disagree("extraction-vs-kernel", {"line": ln}, y, x, ["(extraction)"])


def adversarial_universe():
    """pids that are prefixes / suffixes / case variants of one another (C05, C18 quantifier)"""
    from universe import Universe
    return Universe(pids={1: "doi:10.5063/F1.obj.7", 2: "obj.7", 3: "doi:10.5063/F1", 4: "OBJ.7"})


def gen_histories(rng, kind, n_exh2, n_rand, maxlen, **kw):
    A = seq.alphabet(kind, **kw)
    hs = []
    if n_exh2:
        pairs = [[dict(a), dict(b)] for a in A for b in A]
        rng.shuffle(pairs)
        hs += pairs[:n_exh2]
    for _ in range(n_rand):
        hs.append(seq.random_history(rng, A, rng.randint(3, maxlen)))
    for h in hs:
        for c in h:
            seq.decorate(rng, c)
    return hs


def small_scope_triples(rng, n=None, meta=False):
    """Every 3-call history over a 13-call alphabet (2 pids, 2 contents, with and without pid, tag to a stored and to a
    never-stored cid, delete, delete_if_invalid with a matching and a mismatching expectation): no sampling when n is None."""
    A = [{"op": "so", "p": 1, "b": 7, "n": 1}, {"op": "so", "p": 1, "b": 8, "n": 1}, {"op": "so", "p": 2, "b": 7, "n": 1},
         {"op": "so", "p": None, "b": 7, "n": 1}, {"op": "so", "p": None, "b": 8, "n": 1},
         {"op": "tag", "p": 1, "c": 7}, {"op": "tag", "p": 2, "c": 7}, {"op": "tag", "p": 1, "c": 8}, {"op": "tag", "p": 2, "c": 100},
         {"op": "del", "p": 1}, {"op": "del", "p": 2},
         {"op": "dii", "c": 7, "sz": "n", "pre": True, "ok": False}, {"op": "dii", "c": 7, "sz": "o", "pre": True, "ok": True}]
    if meta:
        A += [{"op": "sm", "p": 1, "f": 0, "v": 1, "n": 1}, {"op": "dm", "p": 1, "f": None}]
    hs = [[dict(a), dict(b), dict(c)] for a in A for b in A for c in A]
    if n is not None and n < len(hs):
        hs = rng.sample(hs, n)
    return hs


# ------------------------------------------------------------------ C05

def c05(run):
    rng = random.Random(run.seed)
    quick = run.tier == "quick"
    hs = []
    # corpus first: the minimised D3 history and relatives
    hs.append([{"op": "tag", "p": 1, "c": 100}, {"op": "del", "p": 1}])
    hs.append([{"op": "tag", "p": 1, "c": 100}, {"op": "tag", "p": 2, "c": 100}, {"op": "del", "p": 1}, {"op": "del", "p": 2}])
    hs.append([{"op": "so", "p": 1, "b": 7, "n": 1}, {"op": "dii", "c": 7, "sz": "n", "pre": True, "ok": False},
               {"op": "del", "p": 1}])
    hs += gen_histories(rng, "refs", 150 if quick else 1500, 120 if quick else 1500, 10 if quick else 30)
    hs += gen_histories(rng, "all", 0, 60 if quick else 600, 12 if quick else 30)
    ors = (lambda c, r, b, a: oracles.inv_refs(a), oracles.OrphanTracker, oracles.delete_total)
    half = len(hs) // 2
    seq_project(run, "P-seq[C05]", hs[:half], step_oracles=ors,
                theorems=["C05_sem_inv", "C05_delete_total"], kernel_sample=8 if quick else 40)
    seq_project(run, "P-seq[C05]/related-pids", hs[half:], u=adversarial_universe(), step_oracles=ors,
                theorems=["C05_sem_inv", "C05_delete_total"])
    seq_project(run, "P-seq[C05]/small-scope", small_scope_triples(rng), step_oracles=ors,
                theorems=["C05_sem_inv", "C05_delete_total"])


# ------------------------------------------------------------------ C03 / C04 / C06 / C11

def c03(run):
    rng = random.Random(run.seed)
    quick = run.tier == "quick"
    hs = [[{"op": "so", "p": 1, "b": 7, "n": 1}, {"op": "so", "p": 2, "b": 8, "n": 1}, {"op": "so", "p": 1, "b": 8, "n": 1}],
          [{"op": "so", "p": 1, "b": 7, "n": 1}, {"op": "so", "p": 2, "b": 8, "n": 1}, {"op": "tag", "p": 1, "c": 8}],
          [{"op": "tag", "p": 1, "c": 100}, {"op": "so", "p": 2, "b": 7, "n": 1}, {"op": "tag", "p": 1, "c": 7}]]
    hs += gen_histories(rng, "refs", 200 if quick else 2000, 150 if quick else 2000, 10 if quick else 30)
    half = len(hs) // 2
    seq_project(run, "P-seq[C03]", hs[:half], step_oracles=(oracles.rebind_rejected,),
                theorems=["C03_rebind_rejected", "C03_binding_changes_only_by_delete"], kernel_sample=5 if quick else 30)
    seq_project(run, "P-seq[C03]/related-pids", hs[half:], u=adversarial_universe(), step_oracles=(oracles.rebind_rejected,),
                theorems=["C03_rebind_rejected", "C03_binding_changes_only_by_delete"])
    seq_project(run, "P-seq[C03]/small-scope", small_scope_triples(rng, 400 if quick else None), step_oracles=(oracles.rebind_rejected,),
                theorems=["C03_rebind_rejected", "C03_binding_changes_only_by_delete"])


def retrieve_all_oracle():
    """C04 search: after every step retrieve_object of every bound pid yields the bound bytes."""
    return None


def c04(run):
    rng = random.Random(run.seed)
    quick = run.tier == "quick"
    hs = [[{"op": "so", "p": 1, "b": 7, "n": 1}, {"op": "so", "p": 2, "b": 7, "n": 1},
           {"op": "dii", "c": 7, "sz": "n", "pre": True, "ok": False}, {"op": "del", "p": 1}, {"op": "ro", "p": 2}]]
    hs += gen_histories(rng, "all", 150 if quick else 1500, 150 if quick else 2000, 12 if quick else 30,
                        contents={7: 1, 8: 1}, pids=(1, 2, 3))
    half = len(hs) // 2
    # corpus for the related-pids universe (1 has suffix 2 and prefix 3, 4 is a case variant of 2): a pid that shares an
    # object with a related pid survives the other's deletion
    rel = [[{"op": "so", "p": a, "b": 7, "n": 1}, {"op": "so", "p": b, "b": 7, "n": 1}, {"op": "del", "p": a}, {"op": "ro", "p": b}]
           for a in (1, 2, 3, 4) for b in (1, 2, 3, 4) if a != b]
    hs = hs[:half] + rel + hs[half:]
    th = ["C04_referenced_object_stable_present", "C04_last_delete_removes", "C04_del_invalid_guard"]
    seq_project(run, "P-seq[C04]", hs[:half], step_oracles=(oracles.referenced_stable, oracles.last_delete_and_guard),
                theorems=th, kernel_sample=5 if quick else 30, retrieve_bound=True)
    seq_project(run, "P-seq[C04]/related-pids", hs[half:], u=adversarial_universe(),
                step_oracles=(oracles.referenced_stable, oracles.last_delete_and_guard), theorems=th, retrieve_bound=True)
    seq_project(run, "P-seq[C04]/small-scope", small_scope_triples(rng, 400 if quick else None, meta=True),
                step_oracles=(oracles.referenced_stable, oracles.last_delete_and_guard), theorems=th, retrieve_bound=True)
    c04_cid_spellings(run)


def c04_cid_spellings(run):
    """search: a cid is the string the caller gives.  Other spellings of the cid of a REFERENCED object (upper case, mixed case) name
    other cids: tagging a pid to such a spelling and deleting it again, or delete_if_invalid_object with such a spelling and
    mismatching expectations, must leave the referenced object and its pids alone."""
    import hashlib
    import os
    import shutil
    from universe import scratch_root, exn_name, DEFAULT_NS
    import hashstore.filehashstore as fhs
    base = scratch_root()
    try:
        for d_, w_ in ((3, 2), (1, 4)):
            hs = fhs.FileHashStore({"store_path": os.path.join(base, "s%d%d" % (d_, w_)), "store_depth": d_, "store_width": w_, "store_algorithm": "SHA-256",
                                    "store_metadata_namespace": DEFAULT_NS})
            data = b"shared content " * 40 + bytes([d_])
            src = os.path.join(base, "x%d" % d_)
            with open(src, "wb") as fh:
                fh.write(data)
            hs.store_object("pid.a", src)
            m = hs.store_object("pid.b", src)
            cid = m.cid
            for sp in (cid.upper(), cid[:10].upper() + cid[10:], cid.capitalize()):
                if sp == cid:
                    continue
                steps = []
                for what, f in (("tag_object(c, spelling)", lambda: hs.tag_object("pid.c", sp)), ("delete_object(c)", lambda: hs.delete_object("pid.c")),
                                ("delete_if_invalid_object(spelling, wrong checksum)", lambda: hs.delete_if_invalid_object(
                                    fhs.ObjectMetadata(None, sp, len(data), dict(m.hex_digests)), "0" * 64, "SHA-256", len(data))),
                                ("delete_if_invalid_object(spelling, wrong size)", lambda: hs.delete_if_invalid_object(
                                    fhs.ObjectMetadata(None, sp, len(data), dict(m.hex_digests)), m.hex_digests["sha256"], "SHA-256", len(data) + 1))):
                    try:
                        f()
                        steps.append(what + " ok")
                    except Exception as e:  # noqa: BLE001
                        steps.append(what + " " + exn_name(e))
                    got = {}
                    for p_ in ("pid.a", "pid.b"):
                        try:
                            s_ = hs.retrieve_object(p_)
                            got[p_] = s_.read() == data
                            s_.close()
                        except Exception as e:  # noqa: BLE001
                            got[p_] = exn_name(e)
                    run.case("search-cid-spelling", (d_, w_, sp[:12], what), sample={"search": "other spellings of a referenced object's cid", "spelling": sp[:16], "step": what, "served": got})
                    if got != {"pid.a": True, "pid.b": True}:
                        run.violation({"kind": "seq", "what": "cid-spelling"}, "after %s with the spelling %s... of the cid %s... of an object that pid.a and pid.b reference: retrieve_object gives %s" % (
                            "; ".join(steps), sp[:12], cid[:12], got), {"depth": d_, "width": w_, "spelling": sp, "cid": cid, "steps": steps})
                        break
    finally:
        shutil.rmtree(base, ignore_errors=True)


def c06(run):
    rng = random.Random(run.seed)
    quick = run.tier == "quick"
    hs = []
    # the grid: content absent / present unreferenced / present referenced  x  validation data
    for state in ([], [{"op": "so", "p": None, "b": 7, "n": 1}], [{"op": "so", "p": 3, "b": 7, "n": 1}]):
        for sz, ck in (("n", "o"), ("n", "b"), ("o", "n"), ("b", "n"), ("o", "o"), ("b", "o"), ("o", "b")):
            for _ in range(2 if quick else 12):
                hs.append([dict(c) for c in state] + [{"op": "so", "p": 1, "b": 7, "n": 1, "sz": sz, "ck": ck}, {"op": "ro", "p": 1}])
        if state:
            for sz in ("n", "o", "b"):
                for pre in (True, False):
                    for ok in (True, False):
                        for _ in range(1 if quick else 6):
                            hs.append([dict(c) for c in state] + [{"op": "dii", "c": 7, "sz": sz, "pre": pre, "ok": ok}])
        # every spelling of a wrong checksum (one flipped digit, a truncated digest, non-ASCII characters) is just "wrong"
        for bad in ("nonascii", "short", "accent"):
            hs.append([dict(c) for c in state] + [{"op": "so", "p": 1, "b": 7, "n": 1, "sz": "n", "ck": "b", "real": {"bad": bad}}, {"op": "ro", "p": 1}])
            if state:
                for pre in (True, False):
                    hs.append([dict(c) for c in state] + [{"op": "dii", "c": 7, "sz": "n", "pre": pre, "ok": False, "real": {"bad": bad}}])
    for h in hs:
        for c in h:
            seq.decorate(rng, c)
    hs += gen_histories(rng, "valid", 60 if quick else 600, 80 if quick else 1000, 8 if quick else 20)
    seq_project(run, "P-seq[C06]", hs, step_oracles=(oracles.verdict_exact,),
                theorems=["verdict_iff", "invalid_store_pure", "del_invalid_guard"], kernel_sample=5 if quick else 30)
    c06_repeated(run)
    c06_sizes(run)


def c06_repeated(run):
    """search: the SAME ObjectMetadata object validated repeatedly (a caller retrying), every algorithm, both letter cases:
    the verdict depends on the content and the arguments of THAT call only"""
    import hashlib
    import os
    import shutil
    from universe import scratch_root, exn_name, DEFAULT_NS
    import hashstore.filehashstore as fhs
    rng = random.Random(run.seed + 3)
    base = scratch_root()
    algos = ["md5", "sha1", "sha256", "sha384", "sha512", "sha224", "sha3_224", "sha3_256", "sha3_384", "sha3_512", "blake2b", "blake2s"]
    try:
        hs = fhs.FileHashStore({"store_path": os.path.join(base, "s"), "store_depth": 3, "store_width": 2, "store_algorithm": "SHA-256",
                                "store_metadata_namespace": DEFAULT_NS})
        for k, alg in enumerate(algos if run.tier != "quick" else rng.sample(algos, 6)):
            data = os.urandom(200 + k)
            src = os.path.join(base, "d%d" % k)
            with open(src, "wb") as fh:
                fh.write(data)
            om = hs.store_object(None, src)
            good = hashlib.new(alg, data).hexdigest()
            seq_ = []
            for rep, (chk, size, valid) in enumerate([(good.upper(), len(data), True), (good, len(data), True), (good.upper(), None, True),
                                                      (good, len(data) + 1, False)]):
                try:
                    hs.delete_if_invalid_object(om, chk, rng.choice([alg, alg.upper()]), size)
                    out = "valid"
                except Exception as e:  # noqa: BLE001
                    out = exn_name(e)
                seq_.append((("upper" if chk != good else "lower"), size is not None and size != len(data), out))
                present = os.path.isfile(os.path.join(base, "s", "objects", om.cid[:2], om.cid[2:4], om.cid[4:6], om.cid[6:]))
                run.case("search-repeated-validation", (alg, rep), sample={"search": "same ObjectMetadata validated repeatedly", "algorithm": alg, "calls": seq_})
                if valid and (out != "valid" or not present):
                    run.violation({"kind": "repeated-validation", "algorithm": alg},
                                  "delete_if_invalid_object call %d on one ObjectMetadata with a CORRECT %s-case %s checksum -> %s%s (calls so far: %s)" % (
                                      rep + 1, "upper" if chk != good else "lower", alg, out, "" if present else ", object deleted", seq_),
                                  {"algorithm": alg, "calls": seq_})
                    break
                if not valid and out != "NonMatchingObjSize":
                    run.violation({"kind": "repeated-validation", "algorithm": alg}, "wrong size judged %s" % out, {"algorithm": alg, "calls": seq_})
    finally:
        shutil.rmtree(base, ignore_errors=True)


def c06_sizes(run):
    """search: expected sizes on and around multiples of the read buffer, for contents longer / shorter than that: the size verdict is
    'equals the true byte count', whatever the read loop does at buffer boundaries"""
    import io
    import os
    import shutil
    from universe import scratch_root, exn_name, DEFAULT_NS
    import hashstore.filehashstore as fhs
    base = scratch_root()
    try:
        hs = fhs.FileHashStore({"store_path": os.path.join(base, "s"), "store_depth": 3, "store_width": 2, "store_algorithm": "SHA-256",
                                "store_metadata_namespace": DEFAULT_NS})
        probe = os.path.join(base, "probe")
        open(probe, "wb").close()
        bsf = os.stat(probe).st_blksize
        k = 0
        for kind, bs in (("path", bsf), ("bytesio", 8192)):
            for true_len in (bs + 1, 2 * bs + 7, 3 * bs, bs - 1):
                for claimed in sorted({bs, 2 * bs, 3 * bs, true_len - 1, true_len + 1, true_len}):
                    if claimed < 1:
                        continue
                    k += 1
                    data = os.urandom(true_len)
                    src = os.path.join(base, "d%d" % k)
                    with open(src, "wb") as fh:
                        fh.write(data)
                    arg = src if kind == "path" else io.BytesIO(data)
                    pid = "size-pid-%d" % k
                    try:
                        m = hs.store_object(pid, arg, None, None, None, claimed)
                        out = "ok"
                    except Exception as e:  # noqa: BLE001
                        out = exn_name(e)
                    run.case("search-size-boundaries", (kind, true_len, claimed), sample={"search": "expected size vs buffer multiples", "kind": kind, "true_size": true_len,
                                                                                         "expected_object_size": claimed, "outcome": out})
                    want = "ok" if claimed == true_len else "NonMatchingObjSize"
                    if out != want:
                        run.violation({"kind": "size-boundary", "data": kind}, "store_object(<%s of %d bytes>, expected_object_size=%d) -> %s, expected %s (read buffer %d)" % (
                            kind, true_len, claimed, out, want, bs), {"kind": kind, "true_size": true_len, "expected_object_size": claimed})
                    elif out == "ok" and (m.obj_size != true_len):
                        run.violation({"kind": "size-boundary", "data": kind}, "stored size %d for %d bytes" % (m.obj_size, true_len), {"kind": kind, "true_size": true_len})
                    os.remove(src)
        # the verdict is about the bytes the stream DELIVERS, not about the file its .name points to: a gzip stream (name = the
        # compressed file), and an open handle whose path has since been replaced by a file of another size
        import gzip
        import hashlib
        for kind in ("gzip-stream", "handle-path-replaced"):
            for true_len in (5000, bsf + 10):
                for verdict in ("right", "wrong-size", "wrong-checksum"):
                    k += 1
                    data = os.urandom(true_len // 2) + b"a" * (true_len - true_len // 2)
                    src = os.path.join(base, "n%d" % k)
                    if kind == "gzip-stream":
                        with gzip.open(src, "wb") as fh:
                            fh.write(data)
                        stream = gzip.GzipFile(src, "rb")
                    else:
                        with open(src, "wb") as fh:
                            fh.write(data)
                        stream = open(src, "rb")
                        other = src + ".other"
                        with open(other, "wb") as fh:
                            fh.write(b"z" * (true_len // 3))
                        os.replace(other, src)
                    claimed = true_len + (1 if verdict == "wrong-size" else 0)
                    digest = hashlib.sha256(data if verdict != "wrong-checksum" else data + b"!").hexdigest()
                    try:
                        m = hs.store_object("name-pid-%d" % k, stream, None, digest, "SHA-256", claimed)
                        out = "ok"
                    except Exception as e:  # noqa: BLE001
                        out = exn_name(e)
                    finally:
                        stream.close()
                    run.case("search-size-boundaries", (kind, true_len, verdict), sample={"search": "stream whose .name is a file of another size", "kind": kind,
                                                                                         "true_size": true_len, "validation": verdict, "outcome": out})
                    want = {"right": "ok", "wrong-size": "NonMatchingObjSize", "wrong-checksum": "NonMatchingChecksum"}[verdict]
                    if out != want:
                        run.violation({"kind": "size-boundary", "data": kind}, "store_object(<%s delivering %d bytes>, checksum %s, expected_object_size=%d) -> %s, expected %s" % (
                            kind, true_len, "correct" if verdict != "wrong-checksum" else "wrong", claimed, out, want), {"kind": kind, "true_size": true_len, "validation": verdict})
    finally:
        shutil.rmtree(base, ignore_errors=True)


def c11(run):
    rng = random.Random(run.seed)
    quick = run.tier == "quick"
    from universe import Universe, DEFAULT_NS
    # formats: default, explicit-equal-to-default (token 0 both), two others; pids whose
    # concatenations with formats coincide: ('ab','c') and ('a','bc')
    u = Universe(pids={1: "ab", 2: "a", 3: "pid-3"}, fmts={0: DEFAULT_NS, 1: "c", 2: "bc", 3: ""})
    A = seq.alphabet("meta", pids=(1, 2), fmts=(0, 1, 2, 3), versions=(1, 2))
    A += [{"op": "sm", "p": 1, "f": 1, "v": 3, "n": 3}, {"op": "sm", "p": 2, "f": 2, "v": 0, "n": 0},
          {"op": "sm", "p": 1, "f": 0, "v": 1, "n": 1, "fnone": True}, {"op": "rm", "p": 1, "f": 0, "fnone": True},
          {"op": "so", "p": 1, "b": 7, "n": 1}, {"op": "so", "p": 2, "b": 7, "n": 1}]
    hs = [[{"op": "sm", "p": 1, "f": 1, "v": 1, "n": 1}, {"op": "sm", "p": 2, "f": 2, "v": 2, "n": 1},
           {"op": "rm", "p": 1, "f": 1}, {"op": "dm", "p": 1, "f": 1}, {"op": "rm", "p": 2, "f": 2}],
          [{"op": "so", "p": 1, "b": 7, "n": 1}, {"op": "so", "p": 2, "b": 7, "n": 1}, {"op": "sm", "p": 1, "f": 0, "v": 1, "n": 1},
           {"op": "sm", "p": 1, "f": 1, "v": 2, "n": 1}, {"op": "del", "p": 1}, {"op": "rm", "p": 1, "f": 0}],
          [{"op": "sm", "p": 1, "f": 0, "v": 1, "n": 1}, {"op": "sm", "p": 1, "f": 1, "v": 2, "n": 1},
           {"op": "dm", "p": 1, "f": 0}, {"op": "rm", "p": 1, "f": 1}]]
    pairs = [[dict(a), dict(b)] for a in A for b in A]
    rng.shuffle(pairs)
    hs += pairs[:100 if quick else 1200]
    for _ in range(200 if quick else 2500):
        hs.append(seq.random_history(rng, A, rng.randint(3, 12 if quick else 30)))
    seq_project(run, "P-seq[C11]", hs, u=u, step_oracles=(oracles.MetaTracker,),
                theorems=["C11_meta_roundtrip", "C11_meta_frame", "C11_delete_all_own_only"], kernel_sample=5 if quick else 30)
    # pids whose digests share the first shard directories (their metadata directories are neighbours): deleting for one
    # must leave the other's documents alone
    import hashlib
    def shares(n_tokens):
        seen = {}
        k = 0
        while True:
            name = "neighbour-%d" % k
            key = hashlib.sha256(name.encode()).hexdigest()[: 2 * n_tokens]
            if key in seen:
                return seen[key], name
            seen[key] = name
            k += 1
    a1, b1 = shares(1)
    a2, b2 = shares(2)
    for (pa, pb) in ((a1, b1), (a2, b2)):
        u2 = Universe(pids={1: pa, 2: pb, 3: "pid-3"}, fmts={0: DEFAULT_NS, 1: "c", 2: "bc", 3: ""})
        hs2 = [[{"op": "sm", "p": 1, "f": 0, "v": 1, "n": 1}, {"op": "sm", "p": 2, "f": 0, "v": 2, "n": 2}, {"op": "sm", "p": 2, "f": 1, "v": 1, "n": 1},
                {"op": "dm", "p": 1, "f": None}, {"op": "rm", "p": 2, "f": 0}, {"op": "rm", "p": 2, "f": 1}],
               [{"op": "sm", "p": 1, "f": 1, "v": 1, "n": 1}, {"op": "sm", "p": 2, "f": 1, "v": 2, "n": 1}, {"op": "dm", "p": 1, "f": 1}, {"op": "rm", "p": 2, "f": 1}],
               [{"op": "so", "p": 1, "b": 7, "n": 1}, {"op": "sm", "p": 1, "f": 0, "v": 1, "n": 1}, {"op": "sm", "p": 2, "f": 0, "v": 2, "n": 1},
                {"op": "del", "p": 1}, {"op": "rm", "p": 2, "f": 0}]]
        for _ in range(10 if quick else 100):
            hs2.append(seq.random_history(rng, A, rng.randint(3, 10)))
        seq_project(run, "P-seq[C11]/neighbour-pids", hs2, u=u2, step_oracles=(oracles.MetaTracker,),
                    theorems=["C11_meta_frame", "C11_delete_all_own_only"])


CHECKS = {"C05": c05, "C03": c03, "C04": c04, "C06": c06, "C11": c11}
