"""model — run the extracted model (extract/modelrun) and, for a sample, the kernel (coqc vm_compute)."""
import os
import subprocess
import tempfile

VERIF = os.path.dirname(os.path.dirname(os.path.abspath(__file__)))
MODELRUN = os.path.join(VERIF, "extract", "modelrun")
THEORIES = os.path.join(VERIF, "coq", "theories")


def run_lines(lines, timeout=600):
    """Evaluate each line with the extracted run_line; returns the list of result strings."""
    if not lines:
        return []
    p = subprocess.run([MODELRUN], input="\n".join(lines) + "\n", capture_output=True, text=True,
                       timeout=timeout)
    if p.returncode != 0:
        raise RuntimeError("modelrun failed: " + p.stderr[:500])
    out = p.stdout.split("\n")
    if out and out[-1] == "":
        out.pop()
    if len(out) != len(lines):
        raise RuntimeError("modelrun: %d results for %d lines" % (len(out), len(lines)))
    return out


def run_lines_kernel(lines, timeout=900):
    """Evaluate the same lines inside Coq with vm_compute (ties extraction to the kernel)."""
    if not lines:
        return []
    d = tempfile.mkdtemp(prefix="hsverif-coq-")
    try:
        src = os.path.join(d, "cases.v")
        with open(src, "w") as f:
            f.write("From Coq Require Import String List.\nFrom HS Require Import Codec CodecA.\n"
                    "Import ListNotations.\nOpen Scope string_scope.\n")
            for i, line in enumerate(lines):
                assert '"' not in line
                f.write('Definition r%d := Eval vm_compute in run_line_all "%s".\n' % (i, line))
            f.write("Definition nl := String (Ascii.ascii_of_nat 10) EmptyString.\n")
            for i in range(len(lines)):
                f.write("Eval vm_compute in r%d.\n" % i)
        p = subprocess.run(["coqc", "-Q", THEORIES, "HS", src], capture_output=True, text=True,
                           timeout=timeout, cwd=d)
        if p.returncode != 0:
            raise RuntimeError("coqc failed: " + (p.stdout + p.stderr)[:800])
        # output: '     = "...."\n     : string' per Eval; strings may wrap over lines
        res = []
        cur = None
        for ln in p.stdout.split("\n"):
            if ln.startswith("     = "):
                cur = ln[len("     = "):]
            elif ln.startswith("     : string"):
                if cur is not None:
                    s = cur.strip()
                    assert s.startswith('"') and s.endswith('"'), s
                    res.append(s[1:-1])
                cur = None
            elif cur is not None:
                # continuation of a wrapped string literal: Coq breaks at spaces
                cur += " " + ln.strip() if not cur.endswith(" ") else ln.strip()
        return res
    finally:
        import shutil
        shutil.rmtree(d, ignore_errors=True)
