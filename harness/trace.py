"""trace — P-trace: the per-call sequence of file-system and lock operations of the implementation,
normalised to the model's vocabulary, against the model's own trace."""
import re

import fsmon
import model
from universe import Universe, Impl, history_line, token_line

LOCKCLS = {"op": "op", "ci": "ci", "md": "md", "rp": "rp"}


class Normaliser:
    def __init__(self, im):
        self.im = im
        self.abs = im.abs
        self.tmp = {}          # real temp path -> canonical name
        self.tmpn = {}
        self.last_frame = {}   # thread -> (frame id, caller) of the previous probe

    def tmpname(self, rel):
        if rel not in self.tmp:
            ar = {"objects": "o", "metadata": "m", "refs": "r"}[rel.split("/")[0]]
            k = self.tmpn.get(ar, 0)
            self.tmpn[ar] = k + 1
            self.tmp[rel] = "T%s#%d" % (ar, k)
        return self.tmp[rel]

    def addr(self, rel):
        kind = self.abs.classify(rel)
        if kind == "tmp":
            return self.tmpname(rel)
        if kind == "file":
            return self.abs.addr(rel)
        return None

    def ident(self, cls, x):
        u = self.im.u
        if cls in ("op", "rp"):
            for p in self.im.pids:
                if u.pid(p) == x:
                    return "%s:%d" % (cls, p)
            return "%s:?%s" % (cls, x[:8])
        if cls == "ci":
            c = u.by_cid.get(x)
            return "ci:%s" % (c if c is not None else "?" + x[:8])
        if cls == "md":
            name, k = x, 0
            while name.endswith("_delete"):
                name, k = name[:-7], k + 1
            pf = self.abs.doctok.get(name)
            return "md:" + "X" * k + ("M%d.%d" % pf if pf else "M?" + name[:6])
        return cls + ":?"

    def event(self, ev):
        """one fsmon event -> model-op string (with answer where cheap), or None when it has no
        model counterpart (private probes, directory probes, stat, ...)"""
        kind, rel, extra = ev[0], ev[1], ev[2]
        tid = ev[3] if len(ev) > 3 else 0
        if kind == "probe":
            a = self.addr(rel) if rel != "<outside>" else None
            fr = extra[2] if isinstance(extra, tuple) and len(extra) > 2 else None
            caller = extra[1] if isinstance(extra, tuple) and len(extra) > 1 else None
            line = extra[3] if isinstance(extra, tuple) and len(extra) > 3 else 0
            prev = self.last_frame.get(tid)
            self.last_frame[tid] = (fr, caller, line, rel)
            if a is None or a.startswith("T"):
                return None
            if caller == "_get_hashstore_metadata_path" and prev is not None and prev[:2] == (fr, caller) \
                    and prev[3] == rel and line > prev[2]:
                return None     # second probe of the same absolute path inside one lookup
            return "probe " + a
        self.last_frame[tid] = None
        if kind in ("stat", "tmpname", "lappend", "tclose", "readsrc") or kind.startswith("mv:"):
            return None
        if kind == "size":
            a = self.addr(rel)
            return None if a is None or a.startswith("T") else "size " + a
        if kind == "read":
            a = self.addr(rel)
            return "read " + a if a else None
        if kind == "opensrc":
            return "opensrc"
        if kind == "mktmp":
            return "mktmp " + {"objects": "o", "metadata": "m", "refs": "r"}.get(rel.split("/")[0], "?")
        if kind == "write":
            return "write " + self.tmpname(rel)
        if kind == "openw":
            a = self.addr(rel)
            return "openw " + a if a else "openw ?" + rel
        if kind == "rename":
            src = self.addr(extra) if extra else "?"
            dst = self.addr(rel)
            return "rename %s %s" % (src, dst)
        if kind == "remove":
            a = self.addr(rel)
            return "remove " + (a or "?" + rel)
        if kind == "mkdirs":
            return "mkdirs " + self.abs.dir_area(rel)
        if kind == "listdir":
            return "listdir"
        if kind == "opena":
            return "opena " + self.addr(rel)
        if kind == "append":
            return "append " + self.addr(rel)
        if kind == "openrw":
            return "openrw " + self.addr(rel)
        if kind == "flock":
            return "acq fl:" + self.addr(rel)
        if kind == "fclose":
            return "rel fl:" + self.addr(rel)
        if kind == "rewrite":
            return "rewrite " + self.addr(rel)
        if kind == "truncate":
            return "truncate " + self.addr(rel)
        if kind == "lcontains":
            cls, x, r = extra
            return "test %s %s" % (self.ident(cls, x), "t" if r else "f")
        if kind == "lremove":
            cls, x = extra
            return "rel " + self.ident(cls, x)
        if kind == "foreign":
            return "foreign:%s %s" % (extra, rel.split("/")[0] if rel else "<root>")      # a primitive the model has no operation for
        return "?" + kind


def normalise_impl(im, events):
    n = Normaliser(im)
    out = []
    evs = list(events)
    for k, ev in enumerate(evs):
        s = n.event(ev)
        if s is None:
            continue
        # Acquire = membership test (False) immediately followed by the append of the same identifier
        if s.startswith("test ") and s.endswith(" f") and k + 1 < len(evs) and evs[k + 1][0] == "lappend" \
                and evs[k + 1][2][:2] == ev[2][:2]:
            s = "acq " + s.split()[1]
        out.append(s)
    return out


_TMP = re.compile(r"T([omr])\d+\.(\d+)")


def normalise_model(tr):
    """'probe P1 -> f ; acq op:1 -> u ; ...' -> list in the same vocabulary"""
    out = []
    names = {}
    cnt = {}

    def canon(m):
        key = m.group(0)
        if key not in names:
            ar = m.group(1)
            k = cnt.get(ar, 0)
            cnt[ar] = k + 1
            names[key] = "T%s#%d" % (ar, k)
        return names[key]

    for step in tr.split(" ; "):
        step = step.strip()
        if not step:
            continue
        op, ans = step.split(" -> ")
        op = _TMP.sub(canon, op)
        w = op.split()
        if w[0] == "mktmp":
            _TMP.sub(canon, ans)
            out.append("mktmp " + w[1])
        elif w[0] == "mkdirs":
            out.append("mkdirs " + w[1].lstrip("X")[0])
        elif w[0] == "listdir":
            out.append("listdir")
        elif w[0] in ("peek", "held"):
            out.append("test %s %s" % (w[1], ans))
        elif w[0] == "openw":
            out.append("openw " + w[1])
        elif w[0] == "append":
            out.append("append " + w[1])
        elif w[0] == "rewrite":
            out.append("rewrite " + w[1])
        elif w[0] == "probe":
            out.append(op)
        else:
            out.append(op)
    return out


def impl_trace(u, setup, call, pids, fmts):
    """-> (outcome, normalised op list, state after) of [call] issued after [setup]"""
    import seq
    seq.prepare(u, setup + [call])
    im = Impl(u, pids, fmts)
    try:
        for c in setup:
            im.call(c)
        fsmon.install()
        fsmon.instrument_store(im.hs)
        im.refresh()
        sorter = make_listdir_sorter(im)
        with fsmon.watching(im.root, listdir_sort=sorter) as mon:
            r = im.call(call)
        ops = normalise_impl(im, mon.events)
        return r, ops, im.state()
    finally:
        im.close()


def make_listdir_sorter(im):
    def sort(rel, names):
        def key(n):
            name, k = n, 0
            while name.endswith("_delete"):
                name, k = name[:-7], k + 1
            pf = im.abs.doctok.get(name)
            return (k, pf if pf else (10 ** 6, 0), n)
        return sorted(names, key=key)
    return sort


def model_trace(setup, call):
    line = history_line("trace", setup + [call])
    r = model.run_lines([line])[0]
    if r in ("STUCK", "PARSE", "EMPTY"):
        return r, [], r
    o, tr, w = r.split(" | ")
    return o, normalise_model(tr), w


def diff_traces(m, i):
    for k, (a, b) in enumerate(zip(m, i)):
        if a != b:
            return "op %d: model [%s] impl [%s]" % (k, a, b)
    if len(m) != len(i):
        return "length model=%d impl=%d; next: model %s impl %s" % (len(m), len(i), m[len(i):len(i) + 2], i[len(m):len(m) + 2])
    return None
