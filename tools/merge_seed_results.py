#!/usr/bin/env python3
"""merge detected_by of background matrix runs (older commits; cross-property columns) into seeded/*/meta.json; results already
recorded locally (newer check code) win."""
import json, os, sys, glob
VERIF = os.path.dirname(os.path.dirname(os.path.abspath(__file__)))
for run_dir in sys.argv[1:]:
    for mp in glob.glob(run_dir + "/seeded/*/meta.json"):
        sid = os.path.basename(os.path.dirname(mp))
        lp = VERIF + "/seeded/%s/meta.json" % sid
        if not os.path.exists(lp):
            continue
        r = json.load(open(mp)); l = json.load(open(lp))
        rd = r.get("detected_by") if isinstance(r.get("detected_by"), dict) else {}
        ld = l.get("detected_by") if isinstance(l.get("detected_by"), dict) else {}
        own = l["breaks_property"]
        for p, v in rd.items():
            if p not in ld:
                ld[p] = dict(v, note="background run at an earlier commit")
            elif ld[p].get("result") == "missed" and v.get("result") != "missed" and p != own:
                ld[p] = dict(v, note="background run at an earlier commit")
        l["detected_by"] = ld
        json.dump(l, open(lp, "w"), indent=1)
print("merged")
