#!/bin/sh
# build_menus.sh [quick|thorough] -- compile the C07 / C12 menu development (no make).
#   quick    : MenuLib, Menu07/12, the 2-thread shards M07_* M12_*
#   thorough : additionally the 3-thread shards M07T_* M12T_*, M07All/M12All, M<PP>R (when generated), props/C07 props/C12
# Parallelism: JOBS (default 12).  Every coqc runs under a shell timeout.
set -e
TIER=${1:-thorough}
JOBS=${JOBS:-12}
T=/verif/coq/theories
cd $T
cc() { timeout 1800 coqc -Q $T HS "$1"; }
par() { xargs -P $JOBS -I{} sh -c "timeout 1800 coqc -Q $T HS {} || { echo FAILED {}; exit 255; }"; }
T0=$(date +%s); stage() { echo "[build_menus] $1 done at +$(( $(date +%s) - T0 ))s" >&2; }
cc MenuLib.v
cc LinNF.v
cc MenuCV.v      # needs Bracket.vo and SchedCV.vo (not built here)
ls Menu07.v Menu12.v Menu07T.v Menu12T.v | par
ls M07_[0-9][0-9].v M12_[0-9][0-9].v | par
stage "2-thread shards"
[ "$TIER" = quick ] && exit 0
# M<PP>R.v (when generated) depends on the menu files only: run it alongside the 3-thread shards
ls M12T_[0-9][0-9].v M07T_[0-9][0-9].v M[0-9][0-9]R.v 2>/dev/null | par
stage "3-thread shards"
ls M07All.v M12All.v | par
cd props
ls C07.v C12.v | par
stage "props"
