#!/bin/sh
# confirm and file new seeds (out-PROP/patchN.diff -> seeded/PROP-<next free number>)
for p in "$@"; do
  for n in 1 2; do
    if [ -f /tmp/seed/out-$p/patch$n.diff ] && [ -f /tmp/seed/out-$p/demo$n.py ] && [ -f /tmp/seed/out-$p/notes$n.md ]; then
      k=1; while [ -d /verif/seeded/$p-$k ]; do k=$((k+1)); done
      dup=0; for d in /verif/seeded/$p-*; do cmp -s $d/patch.diff /tmp/seed/out-$p/patch$n.diff && dup=1; done
      [ $dup = 1 ] && { echo "$p $n already filed"; continue; }
      python3 /verif/tools/confirm_seed.py $p $n $p-$k | head -1
    fi
  done
done
