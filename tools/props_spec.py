SEQ = ["Base", "PyVal", "FS", "Ops", "Spec", "SeqLemmas", "SeqProps"]
ALL = []
ALL.append(("C05", "reference bookkeeping is exact after every completed call", SEQ + ["Codec"], [
 ("InvF_empty", "the empty store satisfies the invariant"),
 ("sem_inv", "EVERY call with ANY arguments, successful or rejected, preserves the invariant (the invariant IS the property: Spec.InvF)"),
 ("reach_inv", "hence every state reachable by any history of calls satisfies it"),
 ("bound_iff_listed", "a pid is bound to c exactly when it is listed under c"),
 ("listed_once", "no list is empty or repeats a pid"),
 ("delete_total", "delete_object(pid) succeeds and clears the pid from every reference file and all its metadata"),
], "From Coq Require Import String.", '''(* D3 on the un-repaired handler (kept as a witness): tag to a cid whose object does not exist, then delete. *)
Theorem C05_unfixed_refuted :
  run_line "seq | tag 1 100 ; delu 1"%string = "ok:unit ; exn:FileNotFoundError | {R100=L1 XP1=C100}[]"%string.
Proof. vm_compute. reflexivity. Qed.
Print Assumptions C05_unfixed_refuted.
'''))
ALL.append(("C03", "a pid names at most one object; the binding is immutable until deleted", SEQ, [
 ("binding_changes_only_by_delete", "the only call that changes an existing binding is delete_object of that pid"),
 ("rebind_rejected", "store_object / tag_object for a bound pid is rejected and changes nothing but (possibly) one new object"),
 ("rebind_rejected_class", "with a readable source and no failing validation the class is one of the two documented already-exists errors"),
 ("rebind_rejected_which", "which of the two"),
 ("rebound_only_after_delete", "over any history: a different binding implies a delete_object(pid) in between"),
 ("rebind_rejected_counterexample", "why the last clause of rebind_rejected carries its side condition"),
]))
ALL.append(("C04", "no call ever removes an object that some pid still references", SEQ, [
 ("referenced_object_stable_present", "an object that exists and is referenced before and after a call keeps its bytes"),
 ("referenced_object_stable", "general form (a referenced but never-stored object may be CREATED by a store)"),
 ("object_removed_only_when_unreferenced", "an object disappears only when nothing references it any more"),
 ("objects_never_altered", "object bytes are immutable"),
 ("last_delete_removes", "deleting the last referencing pid removes object and list"),
 ("delete_shared_keeps", "deleting one of several sharing pids keeps the object and the other bindings"),
 ("del_invalid_guard", "delete_if_invalid_object never touches a referenced object, whatever the verdict"),
]))
ALL.append(("C11", "metadata documents: faithful round trip, isolation and lifetime", SEQ, [
 ("meta_roundtrip", "retrieve returns what was stored"),
 ("meta_frame", "a call addressed to another (pid, format) pair changes no document"),
 ("meta_stable", "over any history that does not touch the pair the document stays retrievable"),
 ("delete_one", "delete_metadata(pid, format) removes just that document"),
 ("delete_all_own_only", "delete_metadata(pid) removes all of that pid's documents and no other's"),
 ("delete_object_clears_meta", "delete_object(pid) removes all of that pid's documents and no other's"),
 ("delete_absent_noop", "deleting what does not exist is a silent no-op"),
 ("retrieve_absent_notfound", "retrieving it is a not-found error"),
 ("meta_calls_leave_objects", "metadata calls never touch objects or references"),
]))
ALL.append(("C19", "the two documented ways of storing an object converge", SEQ, [
 ("converge_valid", "correct validation data: same outcome, same files"),
 ("converge_unvalidated", "no validation data: same outcome, same files"),
 ("converge_invalid", "incorrect validation data: same mismatch class, pid unbound, referenced objects untouched"),
 ("converge_invalid_counterexample", "why converge_invalid speaks of objects that exist"),
]))
ALL.append(("C06", "validation verdict is exactly 'size and checksum match the content'", ["Base", "PyVal", "FS", "Ops", "Spec", "SeqLemmas", "SeqProps", "Algo", "Verdict"], [
 ("verdict_iff", "the verdict is Valid exactly when size and (case-insensitive) checksum match, on both checksum paths"),
 ("verdict_path_independent", "pre-computed and on-demand paths agree"),
 ("verdict_pid_independent", "independent of whether a pid was given"),
 ("verdict_case_insensitive", "independent of the case of the supplied checksum"),
 ("true_digest_any_case_valid", "the true digest in any case is accepted"),
 ("size_checked_first", "a size mismatch is reported whatever the checksum"),
 ("invalid_effect", "an invalid verdict with a pid deletes the temp file"),
 ("valid_no_delete", "a valid verdict deletes nothing"),
 ("verify_today_refuted", "the un-repaired comparison rejects a correct upper-case checksum (D2, witness)"),
 ("verify_today_differs_iff", "and that is exactly where it differs"),
 ("invalid_store_pure", "store_object with a wrong size: nothing bound, nothing added, no temp file (the store is unchanged)"),
 ("invalid_store_pure_ck", "store_object with a wrong checksum: likewise"),
 ("invalid_store_fst", "both, as one statement"),
 ("del_invalid_guard", "delete_if_invalid_object never touches a referenced object"),
]))
ALL.append(("C02", "reported checksums are true and depend only on the call that asked", ["Algo", "StreamModel"], [
 ("squashed_names_distinct", "the 12 algorithm names stay distinct when case and separators are removed"),
 ("clean_sound", "no spelling is ever mapped to a different algorithm (all ASCII strings)"),
 ("clean_unique", "the algorithm a spelling denotes is unique"),
 ("clean_recase", "any per-character case change is accepted alike"),
 ("clean_idempotent", "canonical names are fixed points"),
 ("clean_complete", "every documented spelling is accepted and maps to the right algorithm"),
 ("clean_complete_anycase", "in any case variant"),
 ("refine_copy_keys", "the per-call algorithm list is exactly defaults + requested"),
 ("refine_copy_nodup", "without duplicates"),
 ("refine_copy_history", "the instance's default list is the same after any history of calls"),
 ("refine_aliasing_keys_refuted", "the un-repaired aliasing reports an extra key in a later call (D1, witness)"),
 ("consume_many", "every hash object fed chunk by chunk ends as the one-shot hash of the whole content"),
 ("consume_many_stream", "for the chunks the stream wrapper produces, any buffer size"),
]))
ALL.append(("C15", "on-disk layout follows the published HashStore layout for every configuration", ["Shard", "RefsCodec"], [
 ("shard_eq_spec", "the sharding comprehension equals the README layout (depth tokens of width characters, then the remainder)"),
 ("shard_compact_spec_all", "for every depth, width and string: the README layout with empty tokens dropped"),
 ("shard_concat", "the tokens concatenate to the digest"),
 ("shard_lengths", "token count and lengths"),
 ("shard_nonempty_tokens", "no empty path component is ever produced"),
 ("shard_outside_length", "outside the documented range fewer components result"),
 ("shard_injective", "different digests never share a path"),
 ("add_exact", "appending a pid to a cid list is exactly one more newline-terminated line"),
 ("split_unparse", "a cid list is one pid per newline-terminated line"),
]))
ALL.append(("C18", "identifiers are opaque: arbitrary pid / format strings never alias or escape", ["RefsCodec", "Shard"], [
 ("check_string_spec", "accepted identifiers are exactly the non-empty strings without whitespace (any character type, any isspace)"),
 ("lines_codec", "parse(unparse l) = l"),
 ("member_exact", "membership compares whole lines: a prefix, suffix or case variant is not found"),
 ("member_strict_prefix_not_found", "prefix"),
 ("member_strict_suffix_not_found", "suffix"),
 ("remove_exact", "removal deletes exactly the lines equal to the pid, all others byte-identical and in order"),
 ("remove_preserves_others", "membership of every other pid is unchanged by a removal"),
 ("remove_absent_noop", "removing an absent pid changes nothing"),
 ("remove_empty_iff", "the file is empty exactly when no other pid remains"),
 ("unparse_injective", "the byte format determines the list"),
 ("shard_tokens_from_input", "every character of every path component comes from the hex digest"),
 ("shard_nonempty_tokens", "and no component is empty"),
]))
ALL.append(("C17", "rejected and read-only calls change nothing", ["Base", "PyVal", "FS", "Ops", "Spec", "SeqLemmas", "SeqProps", "Algo", "Args"], [
 ("check_string_ok_iff", "identifier check"),
 ("check_string_rejects", "None, empty, whitespace-containing -> ValueError"),
 ("check_integer_ok_iff", "size check"),
 ("check_integer_classes", "non-integer -> TypeError, non-positive -> ValueError"),
 ("check_arg_data_ok_iff", "data type check"),
 ("pairing_checksum_without_algo_strong", "checksum without algorithm"),
 ("pairing_algo_without_checksum_strong", "algorithm without checksum"),
 ("store_object_args_ok_iff", "store_object is accepted exactly when all four checks pass"),
 ("store_object_first_failure", "and reports the first failing check"),
 ("unsupported_algorithm_rejected", "unsupported algorithm names"),
 ("unsupported_additional_rejected", ""),
 ("unsupported_checksum_algorithm_rejected", ""),
 ("rejected_pure", "a rejected call leaves the file map identical"),
 ("readonly_pure", "so do retrieve_object, retrieve_metadata, get_hex_digest"),
 ("unknown_pid_pure", "and retrieve / delete / get_hex_digest of an unknown pid"),
 ("missing_source_pure", "and a store_object whose source path does not exist"),
]))
ALL.append(("C14", "store configuration is pinned at creation", ["PyVal", "Config"], [
 ("open_iff", "an existing store opens ONLY with equal depth, width, algorithm, namespace (ints may be int-like strings)"),
 ("accept_existing_returns_pinned", "and then nothing but missing data directories is created"),
 ("yaml_never_rewritten", "the configuration file is never rewritten"),
 ("effects_only_on_accept", "a refusal has no effect at all"),
 ("reopen_mismatch_refused", "any mismatch -> ValueError"),
 ("unsupported_algorithm_refused", "unsupported store algorithm -> ValueError before anything is created"),
 ("no_yaml_with_data_refused", "data directories without configuration file -> RuntimeError"),
 ("missing_key_refused", "missing key -> KeyError"),
 ("none_value_refused", "None value -> ValueError"),
 ("extra_keys_ignored", "extra keys are ignored"),
 ("create_then_reopen", "a store reopens with the properties it was created with, for all depths, widths, encodings"),
]))
ALL.append(("C20", "the command-line client is a faithful front end to the API", ["PyVal", "Config", "Client"], [
 ("client_types_fixed", "every argument reaches the API with the type its checks require"),
 ("client_types_today_refuted", "the un-repaired client passes -obj_size as a str (D7, witness)"),
 ("client_values_storeobject", "store_object receives exactly the option values (size converted)"),
 ("client_values_getchecksum", ""), ("client_values_storemetadata", ""), ("client_values_retrieveobject", ""),
 ("client_values_retrievemetadata", ""), ("client_values_deleteobject", ""), ("client_values_deletemetadata", ""),
 ("client_format_default", "an omitted -formatid means the store's default namespace"),
 ("client_requires_pid", "-pid is required"),
 ("client_open_accepts", "a store is opened by the client with the properties it pins"),
 ("api_create_then_client_open", "API-created store opens in the client"),
 ("client_create_then_api_open", "client-created store opens through the API with the same properties"),
]))
ALL.append(("C01", "stored bytes come back unchanged, addressed by their own hash", ["Base", "PyVal", "FS", "Ops", "Spec", "SeqLemmas", "SeqProps", "StreamModel"], [
 ("chunks_concat", "the stream wrapper's chunks reassemble the content, for every buffer size > 0 and every size (0, exact multiples, multi-buffer)"),
 ("chunks_bounds", "chunks are non-empty and at most one buffer"),
 ("chunks_count", "number of reads"),
 ("chunks_bs0", "why buffer size 0 is excluded"),
 ("iterate_ignores_offset", "iteration starts at offset 0 whatever the caller's position"),
 ("stream_restores", "a caller's stream is left open at its original offset"),
 ("stream_closes_own", "a file we opened is closed"),
 ("consume_correct", "temp file = the bytes; incremental hash = one-shot hash"),
 ("store_cid_size", "for all four kinds of data argument"),
 ("stream_init_accepts_fixed", "all four kinds are accepted"),
 ("stream_init_today_refuted", "the un-repaired wrapper rejects in-memory streams (D6, witness)"),
 ("store_then_retrieve", "a successful store makes the pid retrievable with those bytes"),
 ("retrieve_stable", "and it stays so over ANY history of other calls until delete_object(pid)"),
]))
