SEQ = ["Base", "PyVal", "FS", "Ops", "Spec", "SeqLemmas", "SeqProps"]
ALL = []
ALL.append(("C05", "reference bookkeeping is exact after every completed call", SEQ + ["Codec"], [
 ("InvF_empty", "the empty store satisfies the invariant"),
 ("sem_inv", "EVERY call with ANY arguments, successful or rejected, preserves the invariant (the invariant IS the property: Spec.InvF)"),
 ("reach_inv", "hence every state reachable by any history of calls satisfies it"),
 ("bound_iff_listed", "a pid is bound to c exactly when it is listed under c"),
 ("listed_once", "no list is empty or repeats a pid"),
 ("delete_total", "delete_object(pid) succeeds and clears the pid from every reference file and all its metadata"),
], "From Coq Require Import String.", '''(* D3 on the un-repaired handler (kept as a witness): tag to a cid whose object does not exist, then delete. *)
Theorem C05_unfixed_refuted :
  run_line "seq | tag 1 100 ; delu 1"%string = "ok:unit ; exn:FileNotFoundError | {R100=L1 XP1=C100}[]"%string.
Proof. vm_compute. reflexivity. Qed.
Print Assumptions C05_unfixed_refuted.
'''))
ALL.append(("C03", "a pid names at most one object; the binding is immutable until deleted", SEQ, [
 ("binding_changes_only_by_delete", "the only call that changes an existing binding is delete_object of that pid"),
 ("rebind_rejected", "store_object / tag_object for a bound pid is rejected and changes nothing but (possibly) one new object"),
 ("rebind_rejected_class", "with a readable source and no failing validation the class is one of the two documented already-exists errors"),
 ("rebind_rejected_which", "which of the two"),
 ("rebound_only_after_delete", "over any history: a different binding implies a delete_object(pid) in between"),
 ("rebind_rejected_counterexample", "why the last clause of rebind_rejected carries its side condition"),
]))
ALL.append(("C04", "no call ever removes an object that some pid still references", SEQ, [
 ("referenced_object_stable_present", "an object that exists and is referenced before and after a call keeps its bytes"),
 ("referenced_object_stable", "general form (a referenced but never-stored object may be CREATED by a store)"),
 ("object_removed_only_when_unreferenced", "an object disappears only when nothing references it any more"),
 ("objects_never_altered", "object bytes are immutable"),
 ("last_delete_removes", "deleting the last referencing pid removes object and list"),
 ("delete_shared_keeps", "deleting one of several sharing pids keeps the object and the other bindings"),
 ("del_invalid_guard", "delete_if_invalid_object never touches a referenced object, whatever the verdict"),
]))
ALL.append(("C11", "metadata documents: faithful round trip, isolation and lifetime", SEQ, [
 ("meta_roundtrip", "retrieve returns what was stored"),
 ("meta_frame", "a call addressed to another (pid, format) pair changes no document"),
 ("meta_stable", "over any history that does not touch the pair the document stays retrievable"),
 ("delete_one", "delete_metadata(pid, format) removes just that document"),
 ("delete_all_own_only", "delete_metadata(pid) removes all of that pid's documents and no other's"),
 ("delete_object_clears_meta", "delete_object(pid) removes all of that pid's documents and no other's"),
 ("delete_absent_noop", "deleting what does not exist is a silent no-op"),
 ("retrieve_absent_notfound", "retrieving it is a not-found error"),
 ("meta_calls_leave_objects", "metadata calls never touch objects or references"),
]))
ALL.append(("C19", "the two documented ways of storing an object converge", SEQ, [
 ("converge_valid", "correct validation data: same outcome, same files"),
 ("converge_unvalidated", "no validation data: same outcome, same files"),
 ("converge_invalid", "incorrect validation data: same mismatch class, pid unbound, referenced objects untouched"),
 ("converge_invalid_counterexample", "why converge_invalid speaks of objects that exist"),
]))
