#!/usr/bin/env python3
"""put the output of seed_table.py between the SEED-TABLE markers of DESIGN.md"""
import subprocess, re
t = subprocess.run(["python3", "/verif/tools/seed_table.py"], capture_output=True, text=True).stdout
p = "/verif/DESIGN.md"
s = open(p).read()
s = re.sub(r"<!-- SEED-TABLE-BEGIN -->.*<!-- SEED-TABLE-END -->", "<!-- SEED-TABLE-BEGIN -->\n" + t.replace("\\", "\\\\") + "<!-- SEED-TABLE-END -->", s, flags=re.S)
open(p, "w").write(s)
