#!/usr/bin/env python3
"""apply a seeded change to /repo, run checks, undo it.  usage: run_seed.py <seed-dir-name> <PROP>[,<PROP>..] [tier]"""
import json, os, subprocess, sys
def main():
    sid, props = sys.argv[1], sys.argv[2].split(",")
    tier = sys.argv[3] if len(sys.argv) > 3 else "quick"
    d = "/verif/seeded/" + sid
    st = subprocess.run("git -C /repo status --porcelain", shell=True, capture_output=True, text=True).stdout.strip()
    assert st == "", "repo not clean: " + st
    rev = "-R" if os.path.exists(d + "/REVERSE") else ""
    r = subprocess.run("git -C /repo apply %s %s/patch.diff" % (rev, d), shell=True, capture_output=True, text=True)
    assert r.returncode == 0, r.stderr
    res = {}
    try:
        for p in props:
            q = subprocess.run(["/verif/check", p, tier], capture_output=True, text=True, cwd="/verif", env=dict(os.environ, VERIF_EVIDENCE_DIR="/tmp/hsverif-seeded-evidence"))
            line = [l for l in q.stdout.split("\n") if l.startswith("VIOLATION")]
            res[p] = {"exit": q.returncode, "violation": line[0] if line else None,
                      "what": [l.strip() for l in q.stdout.split("\n") if l.strip().startswith(("what:", "corr[", "proof:"))][:2]}
            print(sid, p, "exit=%d" % q.returncode, line[0] if line else "no violation")
            for w in res[p]["what"]: print("    ", w[:260])
    finally:
        subprocess.run("git -C /repo checkout -- .", shell=True)
    return res
if __name__ == "__main__":
    main()
