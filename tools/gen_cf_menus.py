#!/usr/bin/env python3
"""Generate the crash (C10) and fault (C13) menus:

  coq/theories/Crash10_menu.v  Crash10_s<i>.v  Crash10_all.v      coq/menus10.json
  coq/theories/Fault13_menu.v  Fault13_s<i>.v  Fault13_all.v      coq/menus13.json

The menus are written here as text (the syntax of Codec.v / extract/modelrun); the Coq terms are
produced by a small translator and the menu files PROVE that Codec.read_history / read_call parse
the text to exactly those terms, so the json (which the harness replays on the real code) and the
theorems talk about the same scenarios.  The numbers in the json (operations, fault sites, failing
points) are computed by the kernel (vm_compute on a scratch file) and re-proved in the menu files.

Run once by the developer (needs CrashFault.vo); the generated files are committed.
Usage: tools/gen_cf_menus.py [--no-compile]
"""
import json, os, re, subprocess, sys, tempfile

VERIF = os.path.dirname(os.path.dirname(os.path.abspath(__file__)))      # the tree this script lives in
TH = os.path.join(VERIF, "coq", "theories")
COQ = os.path.join(VERIF, "coq")
MODELRUN = os.path.join(VERIF, "extract", "modelrun")

STATES = [
    ("empty", ""),
    ("p1->7", "so 1 p 7 1 n n"),
    ("p1,p2->7", "so 1 p 7 1 n n ; so 2 p 7 1 n n"),
    ("7 unreferenced", "so - p 7 1 n n"),
    ("p1->7, p2->8", "so 1 p 7 1 n n ; so 2 p 8 1 n n"),
    ("p1->7 with two documents", "so 1 p 7 1 n n ; sm 1 0 p 1 1 ; sm 1 1 p 2 1"),
    ("p1,p2->7 each with a document", "so 1 p 7 1 n n ; so 2 p 7 1 n n ; sm 1 0 p 1 1 ; sm 2 0 p 2 1"),
]
FMTS = [0, 1]

# (call, interrupted pid, watched other pids)
CRASH_CALLS = [
    ("so 1 p 7 1 n n", 1, [2, 3]),
    ("so 1 p 9 2 n n", 1, [2, 3]),     # two chunks: content 9 (7 is a one-chunk content in every state)
    ("so 1 p 8 1 n n", 1, [2, 3]),
    ("so 3 p 7 1 n n", 3, [1, 2]),
    ("tag 1 7", 1, [2, 3]),
    ("tag 3 7", 3, [1, 2]),
    ("del 1", 1, [2, 3]),
    ("del 2", 2, [1, 3]),
    ("sm 1 0 p 3 1", 1, [2, 3]),
    ("sm 1 1 p 3 2", 1, [2, 3]),
    ("dm 1 1", 1, [2, 3]),
    ("dm 1 -", 1, [2, 3]),
]
FAULT_CALLS = [
    ("so 1 p 7 1 n n", 1, [2, 3]),
    ("so 1 p 8 1 n n", 1, [2, 3]),
    ("so 3 p 7 1 n n", 3, [1, 2]),
    ("tag 1 7", 1, [2, 3]),
    ("tag 3 7", 3, [1, 2]),
    ("del 1", 1, [2, 3]),
    ("del 2", 2, [1, 3]),
    ("sm 1 0 p 3 1", 1, [2, 3]),
    ("sm 1 1 p 3 1", 1, [2, 3]),
    ("dm 1 1", 1, [2, 3]),
    ("dm 1 -", 1, [2, 3]),
]

SRC = {"p": "SrcPath", "m": "SrcMissing", "s": "SrcStream"}
SZ = {"n": "VSzNone", "o": "VSzOk", "b": "VSzBad"}
CK = {"n": "VCkNone", "o": "VCkOk", "b": "VCkBad"}


def call_term(t):
    w = t.split()
    if w[0] == "so":
        p = "None" if w[1] == "-" else "(Some %s)" % w[1]
        return "CStore %s %s %s %s %s %s" % (p, SRC[w[2]], w[3], w[4], SZ[w[5]], CK[w[6]])
    if w[0] == "tag":
        return "CTag %s %s" % (w[1], w[2])
    if w[0] == "del":
        return "CDelete %s" % w[1]
    if w[0] == "sm":
        return "CStoreMeta %s %s %s %s %s" % (w[1], w[2], SRC[w[3]], w[4], w[5])
    if w[0] == "dm":
        return "CDelMeta %s %s" % (w[1], "None" if w[2] == "-" else "(Some %s)" % w[2])
    raise ValueError(t)


def hist_term(t):
    return "[" + "; ".join(call_term(x.strip()) for x in t.split(";") if x.strip()) + "]"


def nlist(l):
    return "[" + "; ".join(str(x) for x in l) + "]"


# added after the first menus were recorded (ids continue after the product above, so that recorded scenario ids stay valid):
# calls that write several buffers - a failing write can be the first, a middle or the last one
FAULT_EXTRA = [
    (0, "so 1 p 9 3 n n", 1, [2, 3]),
    (2, "so 3 p 9 3 n n", 3, [1, 2]),
    (4, "so 3 p 9 2 n n", 3, [1, 2]),
    (0, "sm 1 0 p 3 3", 1, [2, 3]),
    (5, "sm 1 0 p 3 3", 1, [2, 3]),
    (6, "sm 1 1 p 3 2", 1, [2, 3]),
]


def scenarios(calls, extra=()):
    out = []
    for si, (sname, setup) in enumerate(STATES):
        for (c, p, others) in calls:
            out.append(dict(id=len(out), state=si, state_name=sname, setup=setup, call=c, pid=p,
                            others=others, fmts=FMTS))
    for (si, c, p, others) in extra:
        out.append(dict(id=len(out), state=si, shard=len(STATES), state_name=STATES[si][0], setup=STATES[si][1], call=c, pid=p,
                        others=others, fmts=FMTS))
    return out


def shard_of(s):
    return s.get("shard", s["state"])


def nshards(scs):
    return max(shard_of(s) for s in scs) + 1


def scen_term(s):
    return "mkScen %d %s (%s) %d %s %s" % (s["id"], hist_term(s["setup"]), call_term(s["call"]),
                                           s["pid"], nlist(s["others"]), nlist(s["fmts"]))


def coqc(path, cwd=TH):
    p = subprocess.run(["timeout", "1800", "coqc", "-Q", TH, "HS", path], cwd=cwd, capture_output=True, text=True)
    if p.returncode != 0:
        sys.exit("coqc failed on %s:\n%s" % (path, (p.stdout + p.stderr)[-3000:]))
    return p.stdout


def modelrun(lines):
    p = subprocess.run([MODELRUN], input="\n".join(lines) + "\n", capture_output=True, text=True)
    return p.stdout.splitlines()


# ---------------------------------------------------------------------------------------------
# kernel evaluation of the checkers on every scenario (classification)
# ---------------------------------------------------------------------------------------------

def evaluate(cr, fa):
    src = ["From Coq Require Import String.", "From HS Require Import Base PyVal FS Ops Spec Sched Codec CrashFault.",
           "Set Printing Width 100000.", "Set Printing Depth 100000."]
    for s in cr:
        src.append("Definition c%d := %s." % (s["id"], scen_term(s)))
        src.append("Eval vm_compute in (10, %d, cscen_ok c%d, run_length crash_fuel (sc_world c%d) (api (sc_call c%d)), "
                   "crash_fails (sc_world c%d) (sc_call c%d) (sc_pid c%d) (sc_others c%d) (sc_fmts c%d))."
                   % ((s["id"],) * 9))
    for s in fa:
        src.append("Definition f%d := %s." % (s["id"], scen_term(s)))
        i = s["id"]
        src.append("Eval vm_compute in (13, %d, fault_nolock_ok (sc_world f%d) (sc_call f%d), count_sites (sc_world f%d) (api (sc_call f%d)), "
                   "map (fun kp => (kp, d10_class (sc_world f%d) (sc_call f%d) (sc_pid f%d) (fst kp) (snd kp), "
                   "match site_op (fst kp) (sc_world f%d) (api (sc_call f%d)) with Some o => show_op o | None => EmptyString end)) "
                   "(fault_fails (sc_world f%d) (sc_call f%d) (sc_pid f%d) (sc_others f%d) (sc_fmts f%d)))."
                   % ((i,) * 15))
    d = tempfile.mkdtemp(prefix="cfmenu")
    path = os.path.join(d, "CFEval.v")
    open(path, "w").write("\n".join(src) + "\n")
    out = coqc(path, cwd=d)
    out = re.sub(r"\s+", " ", out)
    res10, res13 = {}, {}
    for m in re.finditer(r"= \(10, (\d+), (true|false), (\d+), (\[[^\]]*\]|nil)\) :", out):
        i, ok, ln, fails = m.groups()
        fl = [] if fails in ("[]", "nil") else [int(x) for x in fails.strip("[]").split(";")]
        res10[int(i)] = dict(ok=(ok == "true"), length=int(ln), failing=fl)
    for m in re.finditer(r"= \(13, (\d+), (true|false), (\d+), (nil|\[.*?\])\) : ", out):
        i, nolock, sites, fails = m.groups()
        fl = []
        for e in re.finditer(r'\((\d+), (true|false), (Some D10Bound|Some D10HalfBound|None), "([^"]*)"\)', fails):
            k, pers, cls, op = e.groups()
            fl.append(dict(k=int(k), pers=(pers == "true"), cls=cls.replace("Some ", ""), op=op))
        res13[int(i)] = dict(nolock=(nolock == "true"), sites=int(sites), failing=fl)
    if len(res10) != len(cr) or len(res13) != len(fa):
        sys.exit("could not parse the kernel's answers (%d/%d, %d/%d)" % (len(res10), len(cr), len(res13), len(fa)))
    return res10, res13


# ---------------------------------------------------------------------------------------------
# emitting
# ---------------------------------------------------------------------------------------------

HEAD = "(* %s\n   GENERATED by tools/gen_cf_menus.py — do not edit. *)\n"


def menu_file(prefix, what, scs, extra):
    """<prefix>_menu.v: the scenarios, shard by shard, their text form and the agreement of the two."""
    kind = "crash" if prefix == "Crash10" else "fault"
    o = [HEAD % ("%s_menu.v — the %s menu: %d scenarios = %d start states x %d calls."
                 % (prefix, what, len(scs), len(STATES), len(scs) // len(STATES))),
         "From Coq Require Import String.",
         "From HS Require Import Base PyVal FS Ops Spec Sched Codec CrashFault.", ""]
    for si in range(nshards(scs)):
        if si < len(STATES):
            o.append("(* start state %d: %s   [%s] *)" % (si, STATES[si][0], STATES[si][1]))
        else:
            o.append("(* added scenarios (several buffers written), from various start states *)")
        o.append("Definition %s_s%d : list scen := [" % (kind, si))
        part = [s for s in scs if shard_of(s) == si]
        o.append(";\n".join("  %s   (* %d: %s *)" % (scen_term(s), s["id"], s["call"]) for s in part))
        o.append("  ]%list.")
        o.append("")
    o.append("Definition %s_menu : list scen :=\n  (%s)%%list." % (kind, " ++ ".join("%s_s%d" % (kind, i) for i in range(nshards(scs)))))
    o.append("")
    o.append("(* the same menu as text (setup line, call line), as written to %s *)"
             % ("menus10.json" if kind == "crash" else "menus13.json"))
    o.append("Definition %s_menu_text : list (string * string) := [" % kind)
    o.append(";\n".join('  ("%s", "%s")' % (s["setup"], s["call"]) for s in scs) + "\n  ]%string.")
    o.append("")
    o.append("Lemma %s_menu_text_agrees :\n  map (fun t => (read_history (words (fst t)), read_call (words (snd t)))) %s_menu_text =\n"
             "  map (fun s => (Some (sc_setup s), Some (sc_call s))) %s_menu.\nProof. vm_compute. reflexivity. Qed." % (kind, kind, kind))
    o.append("")
    o.append("Lemma %s_menu_ids : map sc_id %s_menu = seq 0 %d.\nProof. vm_compute. reflexivity. Qed." % (kind, kind, len(scs)))
    o.append("")
    o.append("Lemma %s_menu_ids_NoDup : NoDup (map sc_id %s_menu).\nProof. rewrite %s_menu_ids. apply seq_NoDup. Qed." % (kind, kind, kind))
    o.append("")
    o.append("Lemma %s_menu_start_worlds : forallb (fun s => is_some (setup_world (sc_setup s))) %s_menu = true.\nProof. vm_compute. reflexivity. Qed." % (kind, kind))
    o.append("")
    o.append(extra)
    open(os.path.join(TH, prefix + "_menu.v"), "w").write("\n".join(o) + "\n")


def gen_crash(cr, res10):
    bad = [(s, res10[s["id"]]) for s in cr if res10[s["id"]]["failing"] or not res10[s["id"]]["ok"]]
    if bad:
        for s, r in bad:
            print("C10 FAILS in the model: state [%s] call [%s] crash points %s" % (s["setup"], s["call"], r["failing"]))
        sys.exit("crash failures present: decide (known10) before generating — see above")
    lens = [res10[s["id"]]["length"] for s in cr]
    extra = ("(* operations of the complete call, per scenario (the crash points are 0 .. length+1) *)\n"
             "Definition crash_lengths : list nat :=\n  %s.\n\n"
             "Lemma crash_lengths_ok :\n  map (fun s => run_length crash_fuel (sc_world s) (api (sc_call s))) crash_menu = crash_lengths.\n"
             "Proof. vm_compute. reflexivity. Qed.\n\n"
             "(* no crash point of the menu fails: there is no exception list for C10 *)\n"
             "Definition known10 : list (nat * nat) := [].\n" % nlist(lens))
    menu_file("Crash10", "crash (C10)", cr, extra)
    for si in range(len(STATES)):
        open(os.path.join(TH, "Crash10_s%d.v" % si), "w").write(
            HEAD % ("Crash10_s%d.v — crash shard: every crash point of every call from start state %d." % (si, si)) +
            "From HS Require Import Base PyVal FS Ops Spec Sched CrashFault Crash10_menu.\n\n"
            "Lemma crash_s%d_ok : forallb cscen_ok crash_s%d = true.\nProof. vm_compute. reflexivity. Qed.\n" % (si, si))
    n = len(STATES)
    o = [HEAD % "Crash10_all.v — the shards put together: every scenario of the crash menu, every crash point.",
         "From HS Require Import Base PyVal FS Ops Spec Sched CrashFault Crash10_menu",
         "  " + " ".join("Crash10_s%d" % i for i in range(n)) + ".", "",
         "Theorem crash_menu_ok : forall s, In s crash_menu -> cscen_ok s = true.",
         "Proof.", "  intros s H. unfold crash_menu in H.",
         "  repeat (apply in_app_or in H; destruct H as [H|H]);"]
    o.append("  [ " + "\n  | ".join("exact (forallb_app_In _ _ _ crash_s%d_ok s H)" % i for i in range(n)) + " ].")
    o += ["Qed.", "",
          "Theorem crash_recovery_all : forall s, In s crash_menu ->",
          "  forall n, crash_point_ok (sc_world s) (sc_call s) (sc_pid s) (sc_others s) (sc_fmts s) n = true.",
          "Proof. intros s H. apply cscen_ok_sound. apply crash_menu_ok. exact H. Qed.", "",
          "Theorem crash_menu_defined : forall s, In s crash_menu ->",
          "  setup_world (sc_setup s) = Some (sc_world s) /\\ call_pid (sc_call s) = Some (sc_pid s).",
          "Proof. intros s H. apply cscen_ok_defined. apply crash_menu_ok. exact H. Qed."]
    open(os.path.join(TH, "Crash10_all.v"), "w").write("\n".join(o) + "\n")
    js = dict(property="C10", generator="tools/gen_cf_menus.py",
              checker="CrashFault.crash_point_ok", theorem="props/C10.v: C10_crash_recovery",
              recovery_contents=[7, 8], known10=[],
              states=[dict(index=i, name=n_, setup=s_) for i, (n_, s_) in enumerate(STATES)],
              scenarios=[dict(id=s["id"], state=s["state"], setup=s["setup"], call=s["call"], pid=s["pid"],
                              others=s["others"], fmts=s["fmts"], length=res10[s["id"]]["length"],
                              crash_points=res10[s["id"]]["length"] + 2, failing=[]) for s in cr])
    json.dump(js, open(os.path.join(COQ, "menus10.json"), "w"), indent=1)
    return sum(l + 2 for l in lens)


def gen_fault(fa, res13):
    for s in fa:
        if not res13[s["id"]]["nolock"]:
            sys.exit("a fault leaves a lock / blocks the follow-up: [%s] [%s]" % (s["setup"], s["call"]))
    fam = {"D10Bound": [], "D10HalfBound": [], "None": []}
    lines, idx = [], []
    for s in fa:
        for f in res13[s["id"]]["failing"]:
            lines.append("fault%s %d | %s | %s" % ("p" if f["pers"] else "o", f["k"], s["setup"], s["call"]))
            idx.append((s, f))
    outs = modelrun(lines) if lines else []
    for (s, f), o in zip(idx, outs):
        f["model"] = o
        f["family"] = {"D10Bound": "D10-bound", "D10HalfBound": "D10-half-bound", "None": "unclassified"}[f["cls"]]
        fam[f["cls"]].append((s, f))

    def klist(name, items, comment):
        body = ";\n".join("  (%d, %d, %s)   (* [%s] %s: %s site %d = %s -> %s *)"
                          % (s["id"], f["k"], "true" if f["pers"] else "false", s["setup"], s["call"],
                             "persistent" if f["pers"] else "one-off", f["k"], f["op"], f["model"].split(" sites=")[0])
                          for s, f in items)
        return "(* %s *)\nDefinition %s : list known_t := [\n%s\n  ].\n" % (comment, name, body) if items else \
               "(* %s *)\nDefinition %s : list known_t := [].\n" % (comment, name)

    sites = [res13[s["id"]]["sites"] for s in fa]
    extra = (
        "(* fault sites of the fault-free call, per scenario *)\n"
        "Definition fault_sites : list nat :=\n  %s.\n\n"
        "Lemma fault_sites_ok :\n  map (fun s => count_sites (sc_world s) (api (sc_call s))) fault_menu = fault_sites.\n"
        "Proof. vm_compute. reflexivity. Qed.\n\n"
        "(* ---------- the recorded failures (scenario id, site, persistent?), by family ---------- *)\n\n" % nlist(sites)
        + klist("known13_D10_bound", fam["D10Bound"],
                "D10, pid left BOUND: persistent failure reading the pid reference or the cid list in the\n"
                "   verification step; the roll-back (_untag_object -> _find_object) reads the same file and fails\n"
                "   too; the call raises although the pid is bound, and a retry is rejected")
        + "\n"
        + klist("known13_D10_half_bound", fam["D10HalfBound"],
                "D10, pid left HALF-BOUND (pid reference without list line): additional pid for an existing cid,\n"
                "   persistent failure on the cid list (read / open for append / lock / the append of the line\n"
                "   itself, e.g. a full disk) so that the line is not appended; the roll-back fails on the same\n"
                "   file; a retry is rejected")
        + "\n"
        + klist("known13_unclassified", fam["None"], "failures that do not have the D10 shape")
        + "\nDefinition known13 : list known_t :=\n  (known13_D10_bound ++ known13_D10_half_bound ++ known13_unclassified)%list.\n")
    menu_file("Fault13", "fault (C13)", fa, extra)
    n = nshards(fa)
    for si in range(n):
        open(os.path.join(TH, "Fault13_s%d.v" % si), "w").write(
            HEAD % ("Fault13_s%d.v — fault shard: every fault site of every call from start state %d, one-off and persistent." % (si, si)) +
            "From HS Require Import Base PyVal FS Ops Spec Sched CrashFault Fault13_menu.\n\n"
            "Lemma fault_s%d_ok : forallb (fscen_ok known13) fault_s%d = true.\nProof. vm_compute. reflexivity. Qed.\n" % (si, si))
    o = [HEAD % "Fault13_all.v — the shards put together, and the recorded failures checked one by one.",
         "From HS Require Import Base PyVal FS Ops Spec Sched CrashFault Fault13_menu",
         "  " + " ".join("Fault13_s%d" % i for i in range(n)) + ".", "",
         "Theorem fault_menu_ok : forall s, In s fault_menu -> fscen_ok known13 s = true.",
         "Proof.", "  intros s H. unfold fault_menu in H.",
         "  repeat (apply in_app_or in H; destruct H as [H|H]);",
         "  [ " + "\n  | ".join("exact (forallb_app_In _ _ _ fault_s%d_ok s H)" % i for i in range(n)) + " ].",
         "Qed.", "",
         "Theorem fault_safe_all : forall s, In s fault_menu ->",
         "  forall k pers, ~ In (sc_id s, k, pers) known13 ->",
         "  fault_point_ok (sc_world s) (sc_call s) (sc_pid s) (sc_others s) (sc_fmts s) k pers = true.",
         "Proof. intros s H. apply fscen_ok_sound. apply fault_menu_ok. exact H. Qed.", "",
         "Theorem fault_nolock_all : forall s, In s fault_menu ->",
         "  forall k pers, fault_nolock_point (sc_world s) (sc_call s) k pers = true.",
         "Proof. intros s H. apply (fscen_ok_nolock known13). apply fault_menu_ok. exact H. Qed.", "",
         "Theorem fault_menu_defined : forall s, In s fault_menu ->",
         "  setup_world (sc_setup s) = Some (sc_world s) /\\ call_pid (sc_call s) = Some (sc_pid s).",
         "Proof. intros s H. apply (fscen_ok_defined known13). apply fault_menu_ok. exact H. Qed.", "",
         "(* every recorded failure really fails *)",
         "Lemma known13_fail_b : forallb (known_fails fault_menu) known13 = true.",
         "Proof. vm_compute. reflexivity. Qed.", "",
         "Theorem known13_all_fail : forall i k pers, In (i, k, pers) known13 ->",
         "  exists s, In s fault_menu /\\ sc_id s = i /\\",
         "    fault_point_ok (sc_world s) (sc_call s) (sc_pid s) (sc_others s) (sc_fmts s) k pers = false.",
         "Proof.",
         "  intros i k pers H. apply known_fails_spec.",
         "  exact (forallb_app_In _ _ _ known13_fail_b (i, k, pers) H).",
         "Qed.", "",
         "(* every recorded failure is a persistent one, and has the D10 shape of its family *)",
         "Lemma known13_persistent_b : forallb (fun x : known_t => snd x) known13 = true.",
         "Proof. vm_compute. reflexivity. Qed.", "",
         "Lemma known13_bound_b :",
         "  forallb (fun x => match known_class fault_menu x with Some D10Bound => true | _ => false end) known13_D10_bound = true.",
         "Proof. vm_compute. reflexivity. Qed.", "",
         "Lemma known13_half_bound_b :",
         "  forallb (fun x => match known_class fault_menu x with Some D10HalfBound => true | _ => false end) known13_D10_half_bound = true.",
         "Proof. vm_compute. reflexivity. Qed.", "",
         "Lemma known13_unclassified_b :",
         "  forallb (fun x => match known_class fault_menu x with None => true | _ => false end) known13_unclassified = true.",
         "Proof. vm_compute. reflexivity. Qed.", "",
         "Theorem one_off_all_pass : forall s, In s fault_menu ->",
         "  forall k, fault_point_ok (sc_world s) (sc_call s) (sc_pid s) (sc_others s) (sc_fmts s) k false = true.",
         "Proof.",
         "  intros s H k. apply fault_safe_all; [exact H|]. intros Hin.",
         "  pose proof (forallb_app_In _ _ _ known13_persistent_b _ Hin) as Hp. discriminate Hp.",
         "Qed.", "",
         "Lemma known_class_shape : forall x kind, known_class fault_menu x = Some kind ->",
         "  exists s, In s fault_menu /\\ sc_id s = fst (fst x) /\\",
         "            D10_shape (sc_world s) (sc_call s) (sc_pid s) (snd (fst x)) (snd x) kind.",
         "Proof.",
         "  intros x kind H. unfold known_class in H.",
         "  destruct (find (fun s => Nat.eqb (sc_id s) (fst (fst x))) fault_menu) as [s|] eqn:E; [|discriminate].",
         "  apply find_some in E. destruct E as [Hin Hid]. apply Nat.eqb_eq in Hid.",
         "  exists s. split; [exact Hin|]. split; [exact Hid|]. apply d10_class_spec. exact H.",
         "Qed.", "",
         "Theorem known13_D10_bound_shape : forall i k pers, In (i, k, pers) known13_D10_bound ->",
         "  exists s, In s fault_menu /\\ sc_id s = i /\\ D10_shape (sc_world s) (sc_call s) (sc_pid s) k pers D10Bound.",
         "Proof.",
         "  intros i k pers H. pose proof (forallb_app_In _ _ _ known13_bound_b _ H) as Hc. cbv beta in Hc.",
         "  destruct (known_class fault_menu (i, k, pers)) as [[|]|] eqn:E; try discriminate.",
         "  exact (known_class_shape (i, k, pers) D10Bound E).",
         "Qed.", "",
         "Theorem known13_D10_half_bound_shape : forall i k pers, In (i, k, pers) known13_D10_half_bound ->",
         "  exists s, In s fault_menu /\\ sc_id s = i /\\ D10_shape (sc_world s) (sc_call s) (sc_pid s) k pers D10HalfBound.",
         "Proof.",
         "  intros i k pers H. pose proof (forallb_app_In _ _ _ known13_half_bound_b _ H) as Hc. cbv beta in Hc.",
         "  destruct (known_class fault_menu (i, k, pers)) as [[|]|] eqn:E; try discriminate.",
         "  exact (known_class_shape (i, k, pers) D10HalfBound E).",
         "Qed."]
    open(os.path.join(TH, "Fault13_all.v"), "w").write("\n".join(o) + "\n")
    js = dict(property="C13", generator="tools/gen_cf_menus.py",
              checker="CrashFault.fault_point_ok", theorem="props/C13.v: C13_fault_safe",
              modes=["once", "persistent"],
              families={"D10-bound": len(fam["D10Bound"]), "D10-half-bound": len(fam["D10HalfBound"]),
                        "unclassified": len(fam["None"])},
              states=[dict(index=i, name=n_, setup=s_) for i, (n_, s_) in enumerate(STATES)],
              scenarios=[dict(id=s["id"], state=s["state"], setup=s["setup"], call=s["call"], pid=s["pid"],
                              others=s["others"], fmts=s["fmts"], sites=res13[s["id"]]["sites"],
                              failing=[dict(k=f["k"], mode="persistent" if f["pers"] else "once",
                                            family=f["family"], site_op=f["op"], model=f["model"])
                                       for f in res13[s["id"]]["failing"]]) for s in fa])
    json.dump(js, open(os.path.join(COQ, "menus13.json"), "w"), indent=1)
    return sum(sites), fam


def main():
    if not os.path.exists(os.path.join(TH, "CrashFault.vo")):
        coqc("CrashFault.v")
    cr, fa = scenarios(CRASH_CALLS), scenarios(FAULT_CALLS, FAULT_EXTRA)
    res10, res13 = evaluate(cr, fa)
    points = gen_crash(cr, res10)
    sites, fam = gen_fault(fa, res13)
    print("C10: %d scenarios, %d crash points, 0 failing" % (len(cr), points))
    print("C13: %d scenarios, %d fault sites, %d faulted runs (x2 modes); known: D10-bound %d, D10-half-bound %d, unclassified %d"
          % (len(fa), sites, 2 * sites, len(fam["D10Bound"]), len(fam["D10HalfBound"]), len(fam["None"])))
    for s, f in fam["None"]:
        print("UNCLASSIFIED: [%s] [%s] site %d (%s) %s -> %s" % (s["setup"], s["call"], f["k"], f["op"],
                                                                 "persistent" if f["pers"] else "once", f["model"]))
    if "--no-compile" in sys.argv:
        return
    files = ["Crash10_menu.v", "Fault13_menu.v"]
    for f in files:
        coqc(f)
    shards = ["Crash10_s%d.v" % i for i in range(len(STATES))] + ["Fault13_s%d.v" % i for i in range(len(STATES) + (1 if FAULT_EXTRA else 0))]
    procs = []
    for f in shards:                       # at most 8 at a time
        while len([p for p in procs if p.poll() is None]) >= 8:
            procs[0].wait(); procs = [p for p in procs if p.poll() is None]
        procs.append(subprocess.Popen(["timeout", "1800", "coqc", "-Q", TH, "HS", f], cwd=TH))
    for p in procs:
        if p.wait() != 0:
            sys.exit("a shard failed")
    for f in ["Crash10_all.v", "Fault13_all.v"]:
        coqc(f)
    print("compiled")


if __name__ == "__main__":
    main()
