#!/usr/bin/env python3
"""gen_manifest — write /verif/MANIFEST.json from the table below (one place to edit).
Run:  python3 tools/gen_manifest.py   (validates against /root/.vp/MANIFEST.schema.json when jsonschema is importable)"""
import json
import os

VERIF = os.path.dirname(os.path.dirname(os.path.abspath(__file__)))

BASE_NOTE = ("Trusted: Coq 8.16.1 kernel (coqc, vm_compute; no native_compute), hand-written Gallina model "
             "(coq/theories) tied to /repo by the correspondence projections this check runs on every invocation "
             "(model extracted with ExtrOcamlBasic only + extract/driver.ml; a sample re-evaluated by the kernel), "
             "harness interposition/abstraction code, platform facts of DESIGN.md section 8 (hashlib, POSIX rename/unlink, "
             "fresh temp names, st_blksize>0). Theorems are closed under the global context unless the evidence file lists axioms.")
PARTIAL = (" PARTIAL: the theorem covers the logic of the modelled operations at file-system-call / lock-operation granularity; "
           "runtime behaviour below that granularity (%s) is assumed, see DESIGN.md section 9.")

# id -> (technique, level text, design ref, extra note or None)
CLAIMED = {
    "C03": ("Coq proof: refinement of the program model to a functional spec + invariant induction over histories; P-seq correspondence",
            "Theorems over all histories/states of the model (rebind rejected, binding changes only by delete), proved by refinement "
            "(api_refines) and induction; model tied to the code by differential execution of call histories; an implementation-side oracle searches for a concrete violation.",
            "DESIGN.md section 6 C03", None),
    "C04": ("Coq proof: refinement + invariant (referenced objects stable, last delete removes); P-seq correspondence",
            "Theorems for every call from every invariant state of the model; correspondence on histories in which pids share contents; implementation-side retrieve-after-every-step oracle.",
            "DESIGN.md section 6 C04", None),
    "C05": ("Coq proof: representation invariant preserved by every call (induction over histories) + delete_total; P-seq correspondence",
            "The invariant IS the property; proved for every call with any arguments and lifted to every reachable state; correspondence on full abstract disk states incl. residue; invariant evaluated directly on the implementation's disk after every call.",
            "DESIGN.md section 6 C05", None),
    "C06": ("Coq proof: verdict_iff over all strings/algorithms (layer A Verdict.v) + effect theorems on the store model; P-seq correspondence",
            "Decision function proved equal to 'size and checksum match' for both checksum paths, all algorithms and spellings; effects proved on the store model; grid correspondence with independent digests.",
            "DESIGN.md section 6 C06", None),
    "C11": ("Coq proof: refinement of metadata calls to a (pid,format)->bytes map, frame and lifetime theorems; P-seq correspondence",
            "Round-trip, isolation, delete-one/delete-all/delete_object lifetime theorems over all histories; correspondence with concatenation-colliding (pid, format) pairs; reference dictionary oracle on the implementation.",
            "DESIGN.md section 6 C11", None),
    "C02": ("Coq proof: _clean_algorithm sound/complete for all strings, per-call algorithm list independent of history (Algo.v), hasher fold (StreamModel.v); P-algo correspondence",
            "clean_sound/clean_unique/clean_complete_anycase for every string, refine_copy_history for every history (the instance list is explicit state), consume_many for the digest values; "
            "correspondence of _clean_algorithm and _refine_algorithm_list with the extracted functions; store_object histories on one instance checked against coreutils/hashlib digests.",
            "DESIGN.md section 6 C02", None),
    "C15": ("Coq proof: sharding comprehension = README layout for all depth/width/strings (Shard.v), reference-list byte format (RefsCodec.v); P-shard/P-layout correspondence",
            "shard_eq_spec, shard_concat, shard_injective, add_exact, split_unparse over all inputs; Layout.render (the four path builders + deletion markers) contained / injective / prefix-free for every configuration; whole store trees for sampled configurations compared with the extracted shard function and with an independent README-layout implementation.",
            "DESIGN.md section 6 C15", None),
    "C17": ("Coq proof: argument checks as total functions with iff-characterisations (Args.v), rejected/read-only calls issue no mutating operation (SeqProps); P-args correspondence",
            "check_*_ok_iff, first-failure order, rejected_pure / readonly_pure / unknown_pid_pure for every world; grammar of invalid values (one and two at a time) compared class-by-class with the model, with byte-for-byte tree snapshots (incl. directories and mtimes) before/after.",
            "DESIGN.md section 6 C17", None),
    "C18": ("Coq proof: reference-list codec over arbitrary code points with abstract whitespace (RefsCodec.v), shard tokens drawn from the digest only; P-refs/P-checkstr correspondence",
            "lines_codec, member_exact, remove_exact, prefix/suffix non-aliasing for all identifier lists; every rendered path component is a fixed directory name or hex (+_delete), never '..' or containing '/', and distinct addresses never share a path (Layout.v); _is_string_in_refs_file/_update_refs_file/_check_string compared with the extracted functions on adversarial related identifiers; bystander search with independent hash-derived location check.",
            "DESIGN.md section 6 C18", None),
    "C01": ("Coq proof: stream chunking / reassembly for all buffer sizes and contents, stream restore, cid = H(content) (StreamModel.v) + retrieve_stable by refinement over all histories; P-stream correspondence",
            "chunks_concat/chunks_bounds/stream_restores/store_cid_size for every content, buffer size > 0 and data kind; retrieve_stable over arbitrary histories of other calls (refinement); "
            "read-size sequences of the implementation compared with the extracted chunking; sizes around every multiple of the observed buffer x 8 kinds of data argument x 5 algorithms with coreutils digests; random histories between store and retrieve.",
            "DESIGN.md section 6 C01", None),
    "C14": ("Coq proof: constructor decision function open_decision with iff-characterisation, refusals issue no effect (Config.v); P-config correspondence",
            "open_iff, reopen_mismatch_refused, unsupported/no-yaml-with-data/missing-key/None-value refused, effects only on accept, yaml never rewritten — for all integers and strings; "
            "ordered pairs (creation configuration, reopening properties) on empty/populated/data-without-yaml directories compared decision-for-decision with the model, with full tree snapshots (dirs, mtimes) around every refused open.",
            "DESIGN.md section 6 C14", None),
    "C19": ("Coq proof: convergence of one-call and stepwise storing from every invariant state (SeqProps, by refinement + verdict lemmas); P-seq[C19] correspondence",
            "converge_valid / converge_unvalidated / converge_invalid for every Inv state; both procedures run on model and implementation from states reached by random histories, abstract states and reports compared.",
            "DESIGN.md section 6 C19", None),
    "C20": ("Coq proof: client option record -> API call mapping is well typed and value preserving, create/open agreement via the C14 decision function (Client.v); P-client correspondence",
            "client_types, client_values_* per verb, client_format_default, create-then-open both ways; calls as they reach the API (recorded by wrapping the public methods) compared with the model's mapping; effect and report compared with the API on a copy of the store.",
            "DESIGN.md section 6 C20", None),
    "C09": ("Coq proof: integrity invariant for any pool of API calls at every prefix of every schedule (Hoare-style Safe predicate over programs with thread-private temp files, Integrity.v), extended to executions in which operations fail (SafeF: the error continuation of every operation obeys the discipline under unchanged knowledge, IntegrityFaults.v); P-trace + directory observer",
            "integrity_invariant / integrity_every_prefix / single_step_publication / api_never_writes_permanent_in_place for any number of threads, any calls, every instant (a crash is a prefix); "
            "integrity_under_faults / _versions / _every_prefix: the same predicate in every configuration reachable by the faulty interleaving semantics of C08 (Bracket.gstep: any faultable operation - chunk writes and list appends included - of any thread answers AErr EFault at any time, any number of times, world unchanged), as a corollary of integrity_under_failures (ANY operation may fail with ANY error code, the flock included); the roll-back paths never write a permanent address in place and publish only by renaming a complete own temp file (api_never_writes_permanent_in_place_under_faults, api_publishes_from_own_temp_under_faults); run_fault_api_integrity for every fault plan of the C13 semantics; nothing refuted in the model (props/C09faults.v); "
            "per-call operation sequences of the implementation compared op-for-op with the model; the store directory snapshotted before every operation of 19 calls (sizes 0..multi-buffer) and checked with name=digest / complete-version / whole-cid oracles.",
            "DESIGN.md section 6 C09", "a reader racing with the bytes of a single write(2); in fault executions a failed operation is a no-op of the model: the in-place copy shutil.move falls back to when os.rename fails is not modelled, the instants inside that copy are not covered (copy_in_place_breaks_integrity)"),
    "C10": ("Coq proof: GENERAL theorem for every invariant start state, every call and every crash point (Hoare-style frame discipline + total-correctness recovery lemmas, CrashGeneral.v), plus reflective enumeration of all crash points of an 84-scenario menu by the kernel (CrashFault.v, Crash10_*.v); P-trace/P-crash correspondence",
            "C10_general_corrected: for all Inv states (no dangling binding, token-size consistency), all calls naming a pid, all n: every other pid untouched, interrupted pid served its own complete bytes or not-found/inconsistent, delete_object (Val or PidRefsDoesNotExist) then store_object succeeds and makes it retrievable; the literal statement without the two side conditions is PROVED false (witnesses in props/C10general.v); menu theorem crash_recovery for 84 scenarios x every crash point; "
            "implementation: directory state before every operation (validated against real fork+os._exit for a sample), reopened by a fresh instance, compared with run_crash and checked by the property's own oracle.",
            "DESIGN.md section 6 C10", "crash = process death with completed file-system operations persisting in order: no power-loss / write-back reordering model"),
    "C13": ("Coq proof: GENERAL theorems for every invariant state, call and fault plan (others untouched, never wrong bytes, failed store_metadata keeps the old version, the call returns with no lock left under EVERY fault plan, a failing flock included; FaultGeneral.v, FlockFaults.v) plus reflective enumeration of ALL fault sites x {one-off, persistent} of each menu scenario by the kernel, lifted to every k by run_fault_beyond (CrashFault.v, Fault13_*.v); P-trace/P-fault correspondence",
            "general: fault_others_untouched, fault_never_wrong_bytes, store_metadata_fault_intact for all Inv states / calls / fault states; fault_returns_no_lock_any (the call returns and no lock of any class is left for every Inv state, call and fault state, the plans that fail the flock itself included - the finaliser then closes a file whose flock it does not hold, answered by an error that is swallowed; FlockFaults.v, props/C08flock.v; fault_returns_no_lock is the earlier form with the hypothesis noflock); any_fault_success_whole_effect (a one-off OR persistent fault after which the call reports success left exactly the permanent files of the undisturbed call - all reachable states, all calls, all positions; FaultSuccess.v, FaultPersist.v); one_off_fault_pid_consistent (a store_object / tag_object that raises after a one-off fault leaves the pid's reference files as before the call or the pid completely unbound, never half-bound - all Inv states, pid bound or not, all variants; FaultBound.v); one_off_fault_retry / one_off_fault_intact_or_retry (after a one-off fault a raising tag_object, or store_object(pid) with any readable source and matching size / checksum, leaves the earlier binding intact, or the pid unbound AND the same call issued again at once succeeds from the world the failure left - temp files, untagged object - and binds the pid completely, others untouched; retryable_iff_succeeds: these are exactly the calls that can succeed for an unbound pid; FaultRetry.v); persistent_fault_consistent_or_D10 (a store_object / tag_object that raises after a PERSISTENT fault leaves no lock and leaves the pid's reference files as before the call, or the pid completely unbound, or is a member of the D10 family stated positively: the failing site's destination is the pid's reference file or the list of the call's cid, the pid had no reference, and now has one naming the call's cid with or without its list line - all Inv states, pid bound or not, all variants, all k: no other kind of damage exists; corollaries persistent_fault_bound_pid_consistent, persistent_fault_elsewhere_consistent; FaultPersistBound.v); the literal full statement is PROVED false (persistent read failure defeats the roll-back: C13_general_statement_false = known finding D10); the retry after a persistent fault (and, once more, the whole 'unbound and storable again, or earlier binding intact' clause for both modes) is proved on the menu: fault_safe for 77 scenarios x all sites x 2 modes except the 80 points of known13 (proved to fail: D10), one_off_all_pass, no_lock_left; implementation: OSError(EIO/ENOSPC/EACCES) injected at the same site, outcome/state/locks compared with run_fault, property oracle on the implementation.",
            "DESIGN.md section 6 C13", "faults are OSError raised at call entry of the failing operation (opens, renames, removes, mkdirs, file locks, and - since the last extension - every buffer write into a staging file and the append to a cid list; 83 scenarios incl. multi-buffer calls, 582 sites x 2 modes); the in-place rewrite / truncate of a cid list is not a site; reads of the caller's data source are searched on the implementation only; short writes / EINTR are not modelled"),
    "C07": ("Coq proof: reflective exhaustive exploration of ALL schedules of every menu scenario by a proved explorer (explore_sound, Sched.v; scenario_sound, Lin.v), one vm_compute per scenario; P-sched correspondence under a controlled scheduler",
            "general: (0) one_cid_taggers_linearizable - any number of tag_object calls of distinct pids on one cid are linearizable under every schedule, in cid-lock acquisition order (OneCid.v); (0b) one_cid_taggers_deleters_linearizable - any number of tag_object p_i c and delete_object q_j calls, pids pairwise distinct, every q_j bound to c in a start world satisfying Spec.Inv (reference, list membership, object present), are linearizable under every schedule in cid-lock acquisition order (a tagger joins with its 2nd step, a deleter with its 10th: find_object runs BEFORE the cid lock), results and whole final world equal to the sequential run; instance of prelude_pool (pools of calls that reach one shared lock after a prelude of private acquisitions and of reads made outside the lock, each read's continuation answer-independent under a stability predicate that solo runs of the other calls keep); the stability of 'q bound to c' is CrashGeneralT.solo_call_keeps_other (CrashGeneral's Hoare frame generalised to any thread and to a set of cared-for pids); the deleter's last-reference decision is taken from size_lines read inside the lock; deleters of unbound pids, store_object and delete_if_invalid stay menu-proved (OneCidDel.v, CrashGeneralT.v, props/C07onecidDel.v); (1) independence theorem - any pool of calls with pairwise disjoint footprints is linearizable under every schedule, equal to every sequential order (Indep.v); (2) mutual exclusion on every identifier and every modification of a cid reference list happens under that cid's lock, for any pool / schedule / fault pattern (Mutex.v); menu of conflicting calls: lin_pairs: 330 pairs (5 start states x 66 unordered pairs of an 11-call menu) and 245 triples of short calls, every schedule, linearizable and stored-is-retrievable, except the 27 pairs of known07 which are each PROVED to fail "
            "(D8 store vs removal of its content, D9 in-progress rejection caused by a delete; known findings); the model's witness schedule of every distinct outcome is replayed on the implementation (per-thread operation sequences, outcomes, files), "
            "plus random schedules, and - on scenarios whose witness replay diverges, on the wake-up families and (thorough) on every pair - a systematic preemption-bounded walk over the operations on which the calls conflict (sched.Dfs), judged against the implementation's own sequential runs of every order.",
            "DESIGN.md section 6 C07, 12.3", "preemption inside a single interposed operation, GIL switching; the menus use the semantics where an acquire of a held identifier is not enabled - SchedCV.v proves the final configurations of the faithful condition-variable semantics are among them"),
    "C08": ("Coq proof: lock discipline of every API program as a weakest precondition over all answers (faults included), rank argument for deadlock freedom, well-founded termination (Bracket.v; FlockFaults.v for a failing flock) - general, no menu; P-fault + P-sched correspondence",
            "no_deadlock_no_leak / progress / gstep_terminates / runs_to_completion / afterwards_every_call_returns for any pool of calls, any schedule, any pattern of I/O failures at every fault site but the flock (Bracket.v); no_deadlock_no_leak_any_fault / progress_any_fault / gstep_terminates / runs_to_completion_any_fault: the same with the flock itself among the failing operations, any thread, any number of times (FlockFaults.v, props/C08flock.v: view-based lock invariant, exact on the identifier locks; a failed flock leaves a ghost entry in the thread's view until its close); cv_no_lost_wakeup / cv_terminates in a semantics with REAL condition variables (one condition per list, notify wakes one arbitrary waiter, re-test after wake-up; SchedCV.v); "
            "implementation: every fault site of the C13 menu (writes included) and every failing read of the data source leaves the four lists empty and a follow-up life cycle (store, delete, store, delete of the pid) returns; schedules of C07/C12 scenarios, a complete walk over the orders of the synchronisation steps of the wake-up / lock-order families, a preemption-bounded walk inside critical sections, and random 3-4 thread pools of mixed object/metadata calls complete with nothing locked.",
            "DESIGN.md section 6 C08, 12.2", "a thread blocked inside the kernel, a dead Manager process; Condition.notify() wakes at least one waiter if any waits"),
    "C12": ("Coq proof: reflective exhaustive exploration of all schedules of every metadata scenario by the proved explorer; reader clause as a separate boolean; P-sched correspondence",
            "general: one_doc_writers_linearizable - any number of store_metadata / delete_metadata(pid, format) calls on one document are linearizable under every schedule, in lock-acquisition order (OneDoc.v); one_doc_writers_readers_linearizable / readers_never_partial - any number of store_metadata and retrieve_metadata calls on one document, every schedule: linearizable with each writer at its rename and each reader at its read, and a reader returns not-found or one COMPLETE version (OneDocReaders.v); one_doc_writers_readers_deleters_linearizable / readers_never_partial_del / document_never_partial_del - the same with delete_metadata(pid, format) calls in the pool, each delete at its remove, a reader's FileNotFoundError read as the not-found ValueError (LinNF.nf_norm_one, nothing else relaxed), the document at every moment the start document, a complete stored version or absent (OneDocDel.v); one_pid_delete_readers_linearizable_partial - ONE delete of a pid (delete_metadata(pid) for all formats, which handles the documents one at a time, or delete_metadata(pid, format), or delete_object(pid)) against any number of retrieve_metadata calls on any documents of that pid, every schedule: final world = the delete run alone, outcomes and world those of the order [readers that returned a document or whose document was absent at the start; the delete; readers that found their document gone] and metadata_never_partial_any_pool - ANY pool of API calls, every reached configuration: every metadata document is a complete supplied version and every returned retrieve_metadata has a not-found error or the complete content of a supplied version of its document (OnePidMeta.v; linearizability PARTIAL - pools mixing stores with whole-pid deletes over several documents are proved for pairs, triples and the 308 quadruples of OnePidQuads.v only; model sweep of all 336 such quadruples: no non-linearizable final configuration); gindep_linearizable / meta_isolation for pools on different documents (IndepMeta.v); menus: lin_pairs: 275 pairs and 414 triples from 5 start states, every schedule; the 9 pairs / 54 triples of known12 are exactly retrieve_metadata racing a delete (FileNotFoundError where the sequential run says ValueError - both 'not found'), "
            "proved linearizable with the two classes identified (LinNF.v); reader never sees a partial document on ANY scenario; witness schedules replayed on the implementation, random schedules judged against its sequential runs.",
            "DESIGN.md section 6 C12, 12.3", "a reader racing the bytes of one write(2); condition variables as for C07"),
    "C16": ("Coq proof: mode selection and creation of the cross-process primitives (Config.v), plus the C05/C08 theorems of the single program model; P-seq and P-sched correspondence run through the multiprocessing code paths; forked-worker search",
            "mode_of_env_iff, init_primitives; one model program per call for both modes, tied to BOTH textual copies of every synchronised section by running the call histories and the C07/C12 schedules in multiprocessing mode (three-way: threading, multiprocessing, model); "
            "real forked workers contending on shared pids/cids: one winner per pid, no lost reference, lists empty.",
            "DESIGN.md section 6 C16, 12.2", "multiprocessing.Lock/Condition, Manager().list() proxies and fork-safety are assumed; the stand-ins replace them in P-sched"),
}

REASON_PENDING = "check not yet registered in this snapshot: machinery under construction (see DESIGN.md section 11); not claimed until its check runs green on the unchanged tree"


def main():
    props = [json.loads(l) for l in open(os.path.join(VERIF, "properties.jsonl"))]
    checks, na = [], []
    for p in props:
        pid = p["id"]
        if pid in CLAIMED:
            tech, text, ref, extra = CLAIMED[pid]
            checks.append({
                "property_id": pid,
                "quick_cmd": "./check %s quick" % pid,
                "thorough_cmd": "./check %s thorough" % pid,
                "evidence_file": "evidence/%s.json" % pid,
                "replay_cmd_template": "./check %s --replay {path}" % pid,
                "engine": "coq-model+correspondence",
                "level_claimed": {"category": "proof", "text": text, "design_ref": ref},
                "level_note": BASE_NOTE + (PARTIAL % extra if extra else ""),
                "technique": tech,
            })
        else:
            na.append({"property_id": pid, "reason": NOT_APPLICABLE.get(pid, REASON_PENDING)})
    man = {
        "version": 1,
        "setup_cmd": "./setup.sh",
        "hooks": {
            "guard": "HASHSTORE_VERIF",
            "enable": "none needed: all observation and control is by interposition from the harness process (harness/fsmon.py); no source hook exists in /repo",
            "baseline_off_cmd": "cd /repo && /venv/bin/python -m pytest -ra -q -p no:cacheprovider --timeout=900 --continue-on-collection-errors",
            "source_commits": [],
            "add_only": True,
        },
        "engines": [{
            "name": "coq-model+correspondence",
            "path": "coq/theories, extract/, harness/",
            "serves_properties": sorted(CLAIMED),
            "kind_free_text": "machine-checked proof in Coq 8.16.1 over a hand-written executable model; model tied to /repo by a checked correspondence (differential execution of model and implementation) plus an implementation-side counter-example search",
        }],
        "checks": checks,
        "not_applicable": na,
        "notes": "fix: commits in /repo and known findings are recorded in known_findings.json; see DESIGN.md.",
    }
    json.dump(man, open(os.path.join(VERIF, "MANIFEST.json"), "w"), indent=1)
    try:
        import jsonschema
        jsonschema.validate(man, json.load(open("/root/.vp/MANIFEST.schema.json")))
        print("MANIFEST.json valid: %d checks, %d not_applicable" % (len(checks), len(na)))
    except ImportError:
        print("MANIFEST.json written (jsonschema not importable here): %d checks" % len(checks))


NOT_APPLICABLE = {}

if __name__ == "__main__":
    main()
