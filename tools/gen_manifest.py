#!/usr/bin/env python3
"""gen_manifest — write /verif/MANIFEST.json from the table below (one place to edit).
Run:  python3 tools/gen_manifest.py   (validates against /root/.vp/MANIFEST.schema.json when jsonschema is importable)"""
import json
import os

VERIF = os.path.dirname(os.path.dirname(os.path.abspath(__file__)))

BASE_NOTE = ("Trusted: Coq 8.16.1 kernel (coqc, vm_compute; no native_compute), hand-written Gallina model "
             "(coq/theories) tied to /repo by the correspondence projections this check runs on every invocation "
             "(model extracted with ExtrOcamlBasic only + extract/driver.ml; a sample re-evaluated by the kernel), "
             "harness interposition/abstraction code, platform facts of DESIGN.md section 8 (hashlib, POSIX rename/unlink, "
             "fresh temp names, st_blksize>0). Theorems are closed under the global context unless the evidence file lists axioms.")
PARTIAL = (" PARTIAL: the theorem covers the logic of the modelled operations at file-system-call / lock-operation granularity; "
           "runtime behaviour below that granularity (%s) is assumed, see DESIGN.md section 9.")

# id -> (technique, level text, design ref, extra note or None)
CLAIMED = {
    "C03": ("Coq proof: refinement of the program model to a functional spec + invariant induction over histories; P-seq correspondence",
            "Theorems over all histories/states of the model (rebind rejected, binding changes only by delete), proved by refinement "
            "(api_refines) and induction; model tied to the code by differential execution of call histories; an implementation-side oracle searches for a concrete violation.",
            "DESIGN.md section 6 C03", None),
    "C04": ("Coq proof: refinement + invariant (referenced objects stable, last delete removes); P-seq correspondence",
            "Theorems for every call from every invariant state of the model; correspondence on histories in which pids share contents; implementation-side retrieve-after-every-step oracle.",
            "DESIGN.md section 6 C04", None),
    "C05": ("Coq proof: representation invariant preserved by every call (induction over histories) + delete_total; P-seq correspondence",
            "The invariant IS the property; proved for every call with any arguments and lifted to every reachable state; correspondence on full abstract disk states incl. residue; invariant evaluated directly on the implementation's disk after every call.",
            "DESIGN.md section 6 C05", None),
    "C06": ("Coq proof: verdict_iff over all strings/algorithms (layer A Verdict.v) + effect theorems on the store model; P-seq correspondence",
            "Decision function proved equal to 'size and checksum match' for both checksum paths, all algorithms and spellings; effects proved on the store model; grid correspondence with independent digests.",
            "DESIGN.md section 6 C06", None),
    "C11": ("Coq proof: refinement of metadata calls to a (pid,format)->bytes map, frame and lifetime theorems; P-seq correspondence",
            "Round-trip, isolation, delete-one/delete-all/delete_object lifetime theorems over all histories; correspondence with concatenation-colliding (pid, format) pairs; reference dictionary oracle on the implementation.",
            "DESIGN.md section 6 C11", None),
}

REASON_PENDING = "check not yet registered in this snapshot: machinery under construction (see DESIGN.md section 11); not claimed until its check runs green on the unchanged tree"


def main():
    props = [json.loads(l) for l in open(os.path.join(VERIF, "properties.jsonl"))]
    checks, na = [], []
    for p in props:
        pid = p["id"]
        if pid in CLAIMED:
            tech, text, ref, extra = CLAIMED[pid]
            checks.append({
                "property_id": pid,
                "quick_cmd": "./check %s quick" % pid,
                "thorough_cmd": "./check %s thorough" % pid,
                "evidence_file": "evidence/%s.json" % pid,
                "replay_cmd_template": "./check %s --replay {path}" % pid,
                "engine": "coq-model+correspondence",
                "level_claimed": {"category": "proof", "text": text, "design_ref": ref},
                "level_note": BASE_NOTE + (PARTIAL % extra if extra else ""),
                "technique": tech,
            })
        else:
            na.append({"property_id": pid, "reason": NOT_APPLICABLE.get(pid, REASON_PENDING)})
    man = {
        "version": 1,
        "setup_cmd": "./setup.sh",
        "hooks": {
            "guard": "HASHSTORE_VERIF",
            "enable": "none needed: all observation and control is by interposition from the harness process (harness/fsmon.py); no source hook exists in /repo",
            "baseline_off_cmd": "cd /repo && /venv/bin/python -m pytest -ra -q -p no:cacheprovider --timeout=900 --continue-on-collection-errors",
            "source_commits": [],
            "add_only": True,
        },
        "engines": [{
            "name": "coq-model+correspondence",
            "path": "coq/theories, extract/, harness/",
            "serves_properties": sorted(CLAIMED),
            "kind_free_text": "machine-checked proof in Coq 8.16.1 over a hand-written executable model; model tied to /repo by a checked correspondence (differential execution of model and implementation) plus an implementation-side counter-example search",
        }],
        "checks": checks,
        "not_applicable": na,
        "notes": "fix: commits in /repo and known findings are recorded in known_findings.json; see DESIGN.md.",
    }
    json.dump(man, open(os.path.join(VERIF, "MANIFEST.json"), "w"), indent=1)
    try:
        import jsonschema
        jsonschema.validate(man, json.load(open("/root/.vp/MANIFEST.schema.json")))
        print("MANIFEST.json valid: %d checks, %d not_applicable" % (len(checks), len(na)))
    except ImportError:
        print("MANIFEST.json written (jsonschema not importable here): %d checks" % len(checks))


NOT_APPLICABLE = {}

if __name__ == "__main__":
    main()
