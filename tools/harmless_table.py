#!/usr/bin/env python3
"""harmless_table.py [results.json] — markdown table of a tools/harmless_matrix.py run (default /tmp/hsverif-harmless-results.json)."""
import json, os, sys
V = os.path.dirname(os.path.dirname(os.path.abspath(__file__)))
res = json.load(open(sys.argv[1] if len(sys.argv) > 1 else "/tmp/hsverif-harmless-results.json"))
print("| patch | what it changes | quiet | tie moved (no-failing-input-found) | alarm with replay |")
print("|---|---|---|---|---|")
for name in sorted(res):
    r = res[name]
    txt = ""
    p = os.path.join(V, "harmless", name + ".txt")
    if os.path.exists(p):
        txt = " ".join(open(p).read().split())[:160]
    q = [k for k, v in r.items() if v["result"] == "quiet"]
    t = [k for k, v in r.items() if v["result"] == "tie-moved"]
    a = [k for k, v in r.items() if v["result"] not in ("quiet", "tie-moved")]
    print("| %s | %s | %d | %s | %s |" % (name, txt.replace("|", "/"), len(q), " ".join(sorted(t)) or "-", " ".join(sorted(a)) or "-"))
