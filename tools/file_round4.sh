#!/bin/sh
# confirm and file the round-4 seeds that are ready (out-PROP/patchN.diff -> seeded/PROP-(N+2))
for p in C01 C02 C03 C04 C05 C06 C07 C08 C09 C10 C11 C12 C13 C14 C15 C16 C17 C18 C19 C20; do
  for n in 1 2; do
    id=$p-$((n+4))
    if [ -f /tmp/seed/out-$p/patch$n.diff ] && [ -f /tmp/seed/out-$p/demo$n.py ] && [ -f /tmp/seed/out-$p/notes$n.md ] && [ ! -d /verif/seeded/$id ]; then
      python3 /verif/tools/confirm_seed.py $p $n $id | head -1
    fi
  done
done
