#!/usr/bin/env python3
"""rekey_known13.py <signatures.jsonl> — maintenance (never run by a check): rewrite the `point` lists of the K13-* entries of
known_findings.json from a dump made with `VERIF_DUMP_SIGNATURES=<file> ./check C13 quick` on the tree the findings were
established on.  A point is named  menus13:<scenario id>:<operation> <file>#<occurrence within the call>:<persistent>."""
import json, sys, os
V = os.path.dirname(os.path.dirname(os.path.abspath(__file__)))
sigs = [json.loads(l) for l in open(sys.argv[1])]
k = json.load(open(V + "/known_findings.json"))
by = {"raised-but-bound": "K13-D10-bound", "raised-half-bound": "K13-D10-half-bound"}
pts = {}
for s in sigs:
    assert s["symptom"] in by and s["mode"] == "persistent" and s["call"] in ("so", "tag"), s
    pts.setdefault(by[s["symptom"]], set()).add(s["point"])
for e in k["known"]:
    if e["id"] in pts:
        e["signature"]["point"] = sorted(pts[e["id"]])
        print(e["id"], len(pts[e["id"]]), "points")
json.dump(k, open(V + "/known_findings.json", "w"), indent=1)
