#!/usr/bin/env python3
"""print the markdown table of seeded changes and which checks catch them (from seeded/*/meta.json)"""
import json, os, re, sys
VERIF = os.path.dirname(os.path.dirname(os.path.abspath(__file__)))
rows = []
short = {"violation with replay": "VIOLATION+replay", "no-failing-input-found": "VIOLATION no-failing-input-found", "missed": "not detected", "check timed out": "timed out"}
for sid in sorted(os.listdir(VERIF + "/seeded")):
    m = json.load(open(VERIF + "/seeded/%s/meta.json" % sid))
    need = (m.get("needs_to_manifest") or "").strip()
    title = re.sub(r"^#+\s*", "", need.split("\n")[0])[:120].replace("|", "/")
    det = m.get("detected_by") if isinstance(m.get("detected_by"), dict) else {}
    own = m["breaks_property"]
    o = det.get(own, {})
    others = sorted(p for p, v in det.items() if p != own and v.get("result") in ("violation with replay", "no-failing-input-found"))
    rows.append("| %s | %s | %s | %s | %s |" % (sid, own, title, short.get(o.get("result"), o.get("result", "not run")), " ".join(others) or "-"))
print("| seed | breaks | change (first line of the author's notes) | check of that property (quick tier) | other checks that also report it |")
print("|---|---|---|---|---|")
sys.stdout.write("\n".join(rows) + "\n")
