#!/usr/bin/env python3
"""print the markdown table of seeded changes and which checks catch them (from seeded/*/meta.json)"""
import json, os
rows = []
for sid in sorted(os.listdir("/verif/seeded")):
    m = json.load(open("/verif/seeded/%s/meta.json" % sid))
    need = (m.get("needs_to_manifest") or "").replace("\n", " ")
    first = need.split(" - ")[0] if need.startswith("#") else need
    title = need.lstrip("# ").split("\n")[0][:110]
    det = m.get("detected_by")
    if isinstance(det, dict):
        d = "; ".join("%s %s: %s" % (p, v.get("tier", ""), v.get("result", "")) for p, v in sorted(det.items()))
    else:
        d = str(det)
    rows.append("| %s | %s | %s | %s |" % (sid, m["breaks_property"], title.replace("|", "/"), d))
print("| seed | breaks | change (first line of the author's notes) | result of the checks |")
print("|---|---|---|---|")
print("\n".join(rows))
