#!/usr/bin/env python3
"""harmless_matrix.py <dir-with-*.diff> [PROP,PROP...|ALL] [tier] — false-alarm measurement: apply each behaviour-preserving
patch to a scratch worktree of /repo (HS_WT, default /tmp/harmless), run the checks against it (HS_REPO), undo.  Prints which
checks stay quiet and which report (with a replay = a false alarm of the search; `no-failing-input-found` = the tie moved)."""
import json, os, subprocess, sys, time, glob
VERIF = os.path.dirname(os.path.dirname(os.path.abspath(__file__)))
WT = os.environ.get("HS_WT", "/tmp/harmless")


def main():
    d = sys.argv[1]
    which = sys.argv[2] if len(sys.argv) > 2 else "ALL"
    tier = sys.argv[3] if len(sys.argv) > 3 else "quick"
    props = ["C%02d" % i for i in range(1, 21)] if which == "ALL" else which.split(",")
    if not os.path.isdir(WT):
        subprocess.run("git -C /repo worktree add -q --detach %s HEAD" % WT, shell=True, check=True)
    out = {}
    for pf in sorted(glob.glob(os.path.abspath(d) + "/*.diff")):
        name = os.path.basename(pf)[:-5]
        subprocess.run("git -C %s checkout -- ." % WT, shell=True)
        r = subprocess.run("git -C %s apply %s" % (WT, pf), shell=True, capture_output=True, text=True)
        if r.returncode != 0:
            print(name, "does not apply", r.stderr[:200])
            continue
        res = {}
        for p in props:
            t0 = time.time()
            env = dict(os.environ, VERIF_EVIDENCE_DIR="/tmp/hsverif-harmless-evidence", HS_REPO=WT)
            try:
                q = subprocess.run([VERIF + "/check", p, tier], capture_output=True, text=True, cwd=VERIF, timeout=1500, env=env)
                o, rc = q.stdout, q.returncode
            except subprocess.TimeoutExpired:
                o, rc = "", "timeout"
            line = [l for l in o.split("\n") if l.startswith("VIOLATION")]
            what = [l.strip() for l in o.split("\n") if l.strip().startswith(("what:", "corr[", "proof:"))][:3]
            kind = "quiet" if rc == 0 else ("tie-moved" if line and line[0].endswith("no-failing-input-found") else ("ALARM+replay" if line else "exit %s" % rc))
            res[p] = {"result": kind, "what": what, "wall_s": round(time.time() - t0, 1)}
            if kind != "quiet":
                print("%-6s %-4s %-14s %s" % (name, p, kind, " || ".join(w[:260] for w in what)), flush=True)
        print("%-6s quiet=%d tie-moved=%d alarm=%d" % (name, sum(v["result"] == "quiet" for v in res.values()),
              sum(v["result"] == "tie-moved" for v in res.values()), sum(v["result"] not in ("quiet", "tie-moved") for v in res.values())), flush=True)
        out[name] = res
        subprocess.run("git -C %s checkout -- ." % WT, shell=True)
    json.dump(out, open("/tmp/hsverif-harmless-results.json", "w"), indent=1)


if __name__ == "__main__":
    main()
