#!/usr/bin/env python3
"""confirm a seeded change delivered by a sub-agent: tests pass with it, the demonstration fails with
it and passes without it; then file it under /verif/seeded/<id>/."""
import json, os, shutil, subprocess, sys

def sh(cmd, cwd=None, env=None):
    e = dict(os.environ); e.update(env or {})
    p = subprocess.run(cmd, shell=True, cwd=cwd, env=e, capture_output=True, text=True)
    return p.returncode, (p.stdout + p.stderr)

def main(prop, n, name=None, needs=""):
    wt = "/tmp/seed/wt-%s" % prop
    out = "/tmp/seed/out-%s" % prop
    patch = "%s/patch%s.diff" % (out, n); demo = "%s/demo%s.py" % (out, n); notes = "%s/notes%s.md" % (out, n)
    env = {"PYTHONPATH": wt + "/src"}
    sh("git checkout -- .", cwd=wt)
    rc0, o0 = sh("/venv/bin/python %s" % demo, cwd="/tmp", env=env)
    rc, o = sh("git apply %s" % patch, cwd=wt)
    assert rc == 0, o
    rct, ot = sh("/venv/bin/python -m pytest -q -p no:cacheprovider --timeout=900 2>&1 | tail -1", cwd=wt, env=env)
    rc1, o1 = sh("/venv/bin/python %s" % demo, cwd="/tmp", env=env)
    sh("git checkout -- .", cwd=wt)
    ok = rc0 == 0 and "250 passed" in ot and rc1 != 0
    print(prop, n, "demo-unchanged rc=%d" % rc0, "tests:", ot.strip(), "demo-changed rc=%d" % rc1, "CONFIRMED" if ok else "REJECTED")
    if not ok:
        print(o0[-400:]); print(o1[-400:]); return 1
    sid = name or "%s-%s" % (prop, n)
    d = "/verif/seeded/%s" % sid
    os.makedirs(d, exist_ok=True)
    shutil.copy(patch, d + "/patch.diff"); shutil.copy(demo, d + "/demo.py")
    if os.path.exists(notes): shutil.copy(notes, d + "/notes.md")
    json.dump({"id": sid, "breaks_property": prop, "needs_to_manifest": needs or (open(notes).read()[:600] if os.path.exists(notes) else ""),
               "source": "independent sub-agent given only the property text and a scratch worktree",
               "confirmed": {"tests_with_change": ot.strip(), "demo_with_change_rc": rc1, "demo_without_change_rc": rc0,
                             "commands": ["git apply patch.diff (scratch worktree of /repo HEAD)", "PYTHONPATH=<wt>/src /venv/bin/python -m pytest -q -p no:cacheprovider --timeout=900", "PYTHONPATH=<wt>/src /venv/bin/python demo.py"]},
               "base_commit": subprocess.run("git -C /repo rev-parse --short HEAD", shell=True, capture_output=True, text=True).stdout.strip(),
               "detected_by": "(filled in after running the checks)"}, open(d + "/meta.json", "w"), indent=1)
    return 0

if __name__ == "__main__":
    sys.exit(main(*sys.argv[1:]))
