#!/usr/bin/env python3
"""gen_menus.py -- generate the concurrency menus of C07 and C12.

The menus (calls, start states) are written ONCE, below, in the text syntax of the extracted
model runner (coq/theories/Codec.v).  From them this script generates

  coq/theories/Menu<PP>.v        menu, start states, the scenario list as a concatenation of shard
                                 lists, the structural specification (start states x unordered
                                 pairs with repetition) and the proof that the two are equal; the
                                 list of scenarios the MODEL refutes (known<PP>), grouped in families
  coq/theories/M<PP>_<KK>.v      one closed boolean per shard, evaluated by the kernel (vm)
  coq/theories/Menu<PP>T.v, M<PP>T_<KK>.v    the same for the curated 3-thread scenarios
  coq/theories/M<PP>All.v        the lifting of the shard facts to theorems over every schedule
  coq/theories/props/C<PP>.v     the property file: statements restated in full
  coq/menus<PP>.json             for every scenario: index, shard, setup line, calls line, the
                                 model's verdict and, for the refuted ones, family + witnesses

Verdicts, witnesses and families come from the extracted runner (`schedok`, `sched`); the Coq
shards then re-establish every verdict inside the kernel, so a wrong classification here makes a
shard fail to compile rather than a theorem lie.

Costs (seconds of modelrun per scenario) drive the shard boundaries and the choice of the triples;
they are cached in coq/menus_costs.json so that regeneration is deterministic.  `--measure`
re-measures them.

usage: gen_menus.py [--measure] [--only 07|12]
"""
import itertools
import json
import os
import subprocess
import sys
import time
from concurrent.futures import ThreadPoolExecutor

ROOT = os.path.dirname(os.path.dirname(os.path.abspath(__file__)))
MODELRUN = os.path.join(ROOT, "extract", "modelrun")
THEORIES = os.path.join(ROOT, "coq", "theories")
COSTS = os.path.join(ROOT, "coq", "menus_costs.json")

# --------------------------------------------------------------------------------------------
# THE MENUS
# --------------------------------------------------------------------------------------------

SO17, SO18, SO27, SO28 = "so 1 p 7 1 n n", "so 1 p 8 1 n n", "so 2 p 7 1 n n", "so 2 p 8 1 n n"
SOU7 = "so - p 7 1 n n"
DII_WRONG, DII_RIGHT = "dii 7 n 1 0", "dii 7 o 1 1"

MENUS = {
    "07": dict(
        title="C07 -- concurrent store_object / tag_object / delete_object / delete_if_invalid_object",
        menu=[SO17, SO18, SO27, SO28, SOU7, "tag 1 7", "tag 2 7", "del 1", "del 2",
              DII_WRONG, DII_RIGHT],
        states=[("empty", []),
                ("p1->7", [SO17]),
                ("p1,p2->7", [SO17, SO27]),
                ("7 unreferenced", [SOU7]),
                ("p1->7, p2->8", [SO17, SO28])],
        nshards=16,
        q="no_extra", qall="quiescent",
        # 3-thread tier: short calls only, from the states where object 7 exists
        tmenu=["tag 1 7", "tag 2 7", "tag 3 7", "del 1", "del 2", DII_WRONG, DII_RIGHT],
        tstates=[("p1->7", [SO17]), ("p1,p2->7", [SO17, SO27]), ("7 unreferenced", [SOU7])],
        tshards=16,
        tmax_cost=0.50,          # seconds of modelrun; about 70x that under vm_compute
        # D8: p1->7; store_object(2,7) || delete_object(1)
        witness=("D8", [SO17], [SO27, "del 1"]),
        example=([SO17], [SO27, "del 1"]),
    ),
    "12": dict(
        title="C12 -- concurrent store_metadata / retrieve_metadata / delete_metadata / delete_object on one pid",
        menu=["sm 1 1 p 1 1", "sm 1 1 p 2 1", "sm 1 2 p 1 1", "rm 1 1", "dm 1 1", "dm 1 -", "del 1",
              "sm 1 1 p 3 2", "rm 1 2", "dm 1 2"],
        states=[("pid unbound, no document", []),
                ("doc(1,1)", ["sm 1 1 p 1 1"]),
                ("doc(1,1), doc(1,2)", ["sm 1 1 p 1 1", "sm 1 2 p 1 1"]),
                ("pid bound, no document", [SO17]),
                ("pid bound, doc(1,1)", [SO17, "sm 1 1 p 1 1"])],
        nshards=4,
        q="reader_ok", qall="quiescent_reader",
        tmenu=["sm 1 1 p 1 1", "sm 1 1 p 2 1", "sm 1 2 p 1 1", "rm 1 1", "dm 1 1", "dm 1 -", "del 1"],
        tstates=None,            # same as states
        tshards=16,
        tmax_cost=0.60,
        witness=("DD", ["sm 1 1 p 1 1"], ["dm 1 -", "dm 1 -"]),
        example=(["sm 1 1 p 1 1"], ["sm 1 1 p 2 1", "rm 1 1"]),
    ),
}

# families of refuted scenarios: key -> (Coq suffix, comment)
FAMILIES = {
    "D8": ("D8",
           "(D8) a store_object that finds its content already present races with the removal of\n"
           "   that content by delete_object of the last reference or by delete_if_invalid_object on the\n"
           "   unreferenced object: the store reports success but its pid is not retrievable.\n"
           "   Sub-case D8b (same mechanism, listed here, flagged in the JSON): the object was put in\n"
           "   place by the store itself and delete_if_invalid_object removes it in the window between\n"
           "   the move and the tagging (the object is unreferenced during that window).\n"
           "   Sub-case U2 (same mechanism): the store goes on to FAIL in tagging (PidRefsAlreadyExistsError:\n"
           "   its pid is bound to another cid); the final state lacks the orphan object every sequential\n"
           "   order leaves."),
    "D9": ("D9",
           "(D9) store_object(p) issued while delete_object(p) holds the pid is rejected with\n"
           "   StoreObjectForPidAlreadyInProgress although no other thread is storing p."),
    "R": ("R",
          "(R) retrieve_metadata racing with the removal of the document (delete_metadata or\n"
          "   delete_object): the reader sees the document exist, then fails to open it and raises\n"
          "   FileNotFoundError, which it never raises sequentially (absent document = ValueError).\n"
          "   It never returns a partial document (checked on these scenarios too: reader_weak_ok)."),
    "DD": ("DD",
           "(DD) delete_metadata(pid) / delete_object(pid) list the metadata directory and pick up the\n"
           "   '_delete' file another deleter has just renamed a document to; they treat it as a\n"
           "   document, and fail with FileNotFoundError when the other deleter removes it first (or\n"
           "   leave a '_delete_delete' file behind).  A deleting call fails with an error it cannot\n"
           "   produce sequentially."),
    "unclassified": ("unclassified",
                     "(unclassified) refuted by the model, fits none of the families above; sub-tags:\n"
                     "   U1  tag_object(p,c) || delete_object(p): the two calls exclude each other on different\n"
                     "       lists (reference-pid vs object-pid); the tagger fails with FileNotFoundError /\n"
                     "       PidRefsFileNotFound or both succeed and the cid list keeps p without a pid reference.\n"
                     "       (repaired: delete_object now also holds the reference-pid exclusion)."),
}
FAMILIES["mixed"] = ("mixed",
                     "(mixed) shows the patterns of several of the named families above (sub-tags say which)")
FAMILY_ORDER = ["D8", "D9", "R", "DD", "mixed", "unclassified"]

# --------------------------------------------------------------------------------------------
# model runner
# --------------------------------------------------------------------------------------------


def modelrun(line, timeout=None):
    for attempt in range(20):
        try:
            r = subprocess.run([MODELRUN], input=line + "\n", capture_output=True, text=True,
                               timeout=timeout)
        except subprocess.TimeoutExpired:
            return None
        except OSError:
            time.sleep(1.0)          # the runner is being re-linked by extract/build.sh
            continue
        return r.stdout.strip()
    raise RuntimeError("cannot execute " + MODELRUN)


def scen_line(cmd, setup, calls):
    return "%s | %s | %s" % (cmd, " ; ".join(setup), " || ".join(calls))


RUN_TIMEOUT = 30      # seconds; no scenario is ever run longer than this by the generator


def measure(line):
    best = None
    for _ in range(3):
        t = time.time()
        out = modelrun(line, timeout=RUN_TIMEOUT)
        dt = time.time() - t
        if out is None:
            return 999.0
        best = dt if best is None else min(best, dt)
        if dt > 1.0:
            break
    return round(best, 3)


# --------------------------------------------------------------------------------------------
# text -> Coq
# --------------------------------------------------------------------------------------------

SRC = {"p": "SrcPath", "m": "SrcMissing", "s": "SrcStream"}
VSZ = {"n": "VSzNone", "o": "VSzOk", "b": "VSzBad"}
VCK = {"n": "VCkNone", "o": "VCkOk", "b": "VCkBad"}
BOOL = {"0": "false", "1": "true"}


def onat(w):
    return "None" if w == "-" else "(Some %d)" % int(w)


def coq_call(text):
    w = text.split()
    k = w[0]
    if k == "so" and len(w) == 7:
        return "CStore %s %s %d %d %s %s" % (onat(w[1]), SRC[w[2]], int(w[3]), int(w[4]), VSZ[w[5]], VCK[w[6]])
    if k == "tag" and len(w) == 3:
        return "CTag %d %d" % (int(w[1]), int(w[2]))
    if k == "del" and len(w) == 2:
        return "CDelete %d" % int(w[1])
    if k == "dii" and len(w) == 5:
        return "CDelInvalid %d %s %s %s" % (int(w[1]), VSZ[w[2]], BOOL[w[3]], BOOL[w[4]])
    if k == "sm" and len(w) == 6:
        return "CStoreMeta %d %d %s %d %d" % (int(w[1]), int(w[2]), SRC[w[3]], int(w[4]), int(w[5]))
    if k == "rm" and len(w) == 3:
        return "CRetrMeta %d %d" % (int(w[1]), int(w[2]))
    if k == "dm" and len(w) == 3:
        return "CDelMeta %d %s" % (int(w[1]), onat(w[2]))
    if k == "ro" and len(w) == 2:
        return "CRetrieve %d" % int(w[1])
    raise ValueError("cannot translate call: " + text)


def coq_calls(calls):
    return "[" + "; ".join(coq_call(c) for c in calls) + "]"


def coq_scenario(setup, calls):
    return "{| sc_setup := %s; sc_calls := %s |}" % (coq_calls(setup), coq_calls(calls))


def coq_count(setup, calls):
    """number of configurations the Coq explorer visits (asks coqc; None when it is not available)"""
    import tempfile
    try:
        with tempfile.TemporaryDirectory() as d:
            with open(os.path.join(d, "Cnt.v"), "w") as f:
                f.write("From HS Require Import Base PyVal FS Ops Spec Sched Lin MenuLib.\n"
                        "Eval vm_compute in count_configs %s.\n" % coq_scenario(setup, calls))
            r = subprocess.run(["coqc", "-Q", THEORIES, "HS", "Cnt.v"], cwd=d, capture_output=True,
                               text=True, timeout=600)
        for line in r.stdout.splitlines():
            if line.strip().startswith("="):
                return int(line.split("=")[1].strip())
    except Exception:
        pass
    return None


def coq_list(items, indent="  "):
    if not items:
        return "[]"
    return "[\n" + ";\n".join(indent + "  " + it for it in items) + "\n" + indent + "]"


# --------------------------------------------------------------------------------------------
# classification of a refuted scenario from the `sched` output
# --------------------------------------------------------------------------------------------


def parse_finals(out, nthreads):
    """each final: outcomes (list), files (dict), locks, lin, retr, schedule"""
    finals = []
    for part in out.split(" ; "):
        part = part.strip()
        if not part:
            continue
        head, sched = part.rsplit(" @", 1)
        pre, rest = head.split(" {", 1)
        files_s, rest = rest.split("}[", 1)
        locks_s, flags = rest.split("]", 1)
        outs = [o.strip() for o in pre.split(" , ")]
        assert len(outs) == nthreads, part
        files = dict(kv.split("=", 1) for kv in files_s.split()) if files_s.strip() else {}
        fl = dict(kv.split("=") for kv in flags.split())
        finals.append(dict(outcomes=outs, files=files, locks=locks_s.split(), lin=int(fl["lin"]),
                           retr=int(fl["retr"]), schedule=sched.strip()))
    return finals


def tag_final(setup_files, calls, f):
    """the pattern one failing stuck configuration shows; None when it does not fail"""
    if f["lin"] == 1 and f["retr"] == 1:
        return None
    cw = [c.split() for c in calls]
    outs, files = f["outcomes"], f["files"]
    if "BLOCKED" in outs or f["locks"]:
        return "STUCK"
    if f["lin"] == 1:
        # retr = 0 only: a store_object succeeded and a delete_object of the same pid, ordered
        # after it, removed it again -- sequentially explicable; the final-state formulation of
        # [stored_retrievable] cannot tell.  Not a defect of the store.
        for i, w in enumerate(cw):
            if w[0] == "so" and w[1] != "-" and outs[i].startswith("ok:"):
                if any(v[0] == "del" and v[1] == w[1] for j, v in enumerate(cw) if j != i):
                    return "A0"
        return "other"
    for i, w in enumerate(cw):
        if w[0] == "so" and w[1] != "-" and outs[i] == "exn:StoreObjectForPidAlreadyInProgress":
            others = [v for j, v in enumerate(cw) if j != i]
            if any(v[0] == "del" and v[1] == w[1] for v in others) and \
               not any(v[0] == "so" and v[1] == w[1] for v in others):
                return "D9"
    for i, w in enumerate(cw):
        if w[0] == "so" and w[1] != "-" and outs[i].startswith("ok:"):
            p, c = w[1], w[3]
            if files.get("P" + p) == "C" + c and ("O" + c) not in files:
                return "D8a" if ("O" + c) in setup_files else "D8b"
    for i, w in enumerate(cw):
        if w[0] == "tag" and any(v[0] == "del" and v[1] == w[1] for v in cw):
            return "U1"
    for i, w in enumerate(cw):
        if w[0] == "so" and w[1] != "-" and outs[i] == "exn:PidRefsAlreadyExistsError" \
           and ("O" + w[3]) not in files and any(v[0] == "del" for v in cw):
            return "U2"
    for i, w in enumerate(cw):
        if w[0] == "rm" and outs[i] == "exn:FileNotFoundError":
            return "R"
    for i, w in enumerate(cw):
        if (w[0] == "del" or (w[0] == "dm" and w[2] == "-")) and outs[i] == "exn:FileNotFoundError":
            return "DD"
    return "other"


TAG_FAMILY = {"D8a": "D8", "D8b": "D8", "U2": "D8", "D9": "D9", "R": "R", "DD": "DD"}


def family_of(tags):
    """tags of the failing finals -> (family, subfamily).  A scenario showing patterns of several
    families is 'mixed' (3-thread scenarios mostly); anything showing a pattern outside the named
    families is 'unclassified'."""
    t = sorted(set(tags) - {"A0"})
    sub = "+".join(t) if t else "A0"
    fams = sorted(set(TAG_FAMILY.get(x, "unclassified") for x in t))
    if not fams or "unclassified" in fams:
        return "unclassified", sub
    if len(fams) == 1:
        return fams[0], sub
    return "mixed", sub


def setup_files_of(setup):
    out = modelrun("seq | " + " ; ".join(setup)) if setup else "| {}[]"
    files_s = out.split("{", 1)[1].split("}", 1)[0]
    return dict(kv.split("=", 1) for kv in files_s.split())


# --------------------------------------------------------------------------------------------
# building one property
# --------------------------------------------------------------------------------------------


def partition_contiguous(costs, k):
    """split the sequence into k contiguous non-empty segments minimising the sum of the squares of
    the segment costs (keeps the largest segment small and, unlike min-max, has no degenerate ties)"""
    n = len(costs)
    k = min(k, n)
    pre = [0.0]
    for c in costs:
        pre.append(pre[-1] + c)
    INF = float("inf")
    best = [[INF] * (n + 1) for _ in range(k + 1)]
    cut = [[0] * (n + 1) for _ in range(k + 1)]
    best[0][0] = 0.0
    for j in range(1, k + 1):
        for i in range(j, n + 1):
            for m in range(j - 1, i):
                if best[j - 1][m] == INF:
                    continue
                v = best[j - 1][m] + (pre[i] - pre[m]) ** 2
                if v < best[j][i]:
                    best[j][i], cut[j][i] = v, m
    bounds, i = [], n
    for j in range(k, 0, -1):
        bounds.append((cut[j][i], i))
        i = cut[j][i]
    return list(reversed(bounds))


def partition_lpt(costs, k):
    """greedy longest-processing-time assignment; returns list of index lists (stable order)"""
    bins = [[] for _ in range(k)]
    load = [0.0] * k
    for i in sorted(range(len(costs)), key=lambda i: (-costs[i], i)):
        b = min(range(k), key=lambda b: (load[b], b))
        bins[b].append(i)
        load[b] += costs[i]
    return [sorted(b) for b in bins if b]


class Builder:
    def __init__(self, pp, cfg, costs, force_measure):
        self.pp, self.cfg, self.costs, self.force = pp, cfg, costs, force_measure

    # ----- evaluation with the model runner -----
    def evaluate(self, scen, max_cost=None):
        """fills verdict / family / witnesses / cost of each scenario dict.
        Costs: the cached value is used when there is one (deterministic shards); the verdict run is
        timed anyway and replaces a cached value that has become badly wrong (the model changed).
        A scenario whose cached cost exceeds [max_cost] is not run at all (verdict SKIPPED); no run is
        unbounded (RUN_TIMEOUT)."""
        def work(s):
            line = scen_line("schedok", s["setup"], s["calls"])
            if self.force or line not in self.costs:
                self.costs[line] = measure(line)
            s["cost"] = self.costs[line]
            if s["cost"] >= 900:
                s["verdict"] = "TIMEOUT"
                return s
            if max_cost is not None and s["cost"] > max_cost:
                s["verdict"] = "SKIPPED"
                return s
            t0 = time.time()
            v = modelrun(line, timeout=RUN_TIMEOUT)
            dt = round(time.time() - t0, 3)
            if v is None:
                self.costs[line] = s["cost"] = 999.0
                s["verdict"] = "TIMEOUT"
                return s
            if dt > 10 * s["cost"] + 2.0:
                new_cost = min(dt, measure(line))              # stale cache entry (the model changed)
                print("note: cost of '%s' corrected %.3f -> %.3f" % (line, s["cost"], new_cost))
                self.costs[line] = s["cost"] = new_cost
                if max_cost is not None and s["cost"] > max_cost:
                    s["verdict"] = "SKIPPED"
                    return s
            s["verdict"] = v
            assert s["verdict"] in ("OK", "FAIL"), (line, s["verdict"])
            if s["verdict"] == "FAIL":
                out = modelrun(scen_line("sched", s["setup"], s["calls"]))
                finals = parse_finals(out, len(s["calls"]))
                sf = setup_files_of(s["setup"])
                seen, wit, tags = set(), [], []
                for f in finals:
                    t = tag_final(sf, s["calls"], f)
                    if t is None:
                        continue
                    tags.append(t)
                    key = (t, tuple(f["outcomes"]), tuple(sorted(f["files"].items())))
                    if key in seen:
                        continue
                    seen.add(key)
                    wit.append(dict(tag=t, outcomes=f["outcomes"],
                                    files=" ".join("%s=%s" % kv for kv in f["files"].items()),
                                    lin=f["lin"], retr=f["retr"], schedule=f["schedule"]))
                if not tags:
                    # schedok says FAIL but no failing final: fuel exhausted
                    tags = ["other"]
                s["family"], s["subfamily"] = family_of(tags)
                s["witnesses"] = wit
            return s
        with ThreadPoolExecutor(4) as ex:
            return list(ex.map(work, scen))

    def pairs(self):
        m, scen = self.cfg["menu"], []
        for sn, st in self.cfg["states"]:
            for i in range(len(m)):
                for j in range(i, len(m)):
                    scen.append(dict(state=sn, setup=st, calls=[m[i], m[j]]))
        for k, s in enumerate(scen):
            s["index"] = k
        return self.evaluate(scen)

    def triples(self):
        m = self.cfg["tmenu"]
        states = self.cfg["tstates"] or self.cfg["states"]
        scen = []
        for sn, st in states:
            for t in itertools.combinations_with_replacement(range(len(m)), 3):
                scen.append(dict(state=sn, setup=st, calls=[m[i] for i in t]))
        scen = self.evaluate(scen, self.cfg["tmax_cost"])
        keep = [s for s in scen if s["verdict"] in ("OK", "FAIL")]
        drop = [s for s in scen if s["verdict"] not in ("OK", "FAIL")]
        for k, s in enumerate(keep):
            s["index"] = k
        return keep, drop

    # ----- Coq text -----
    def known_defs(self, scen, name):
        """definitions known<name>_<family> and known<name>"""
        pp = self.pp
        out, used, ordered = [], [], []
        for fam in FAMILY_ORDER:
            members = [s for s in scen if s["verdict"] == "FAIL" and s["family"] == fam]
            if not members:
                continue
            suffix, comment = FAMILIES[fam]
            ordered.extend(members)
            used.append("%s_%s" % (name, suffix))
            out.append("(* %s *)" % comment)
            body = "[\n" + "\n".join(
                "    %s%s  (* #%d, %s: %s *)" % (coq_scenario(s["setup"], s["calls"]),
                                                   ";" if k + 1 < len(members) else "",
                                                   s["index"], s["state"], s["subfamily"])
                for k, s in enumerate(members)) + "\n  ]"
            out.append("Definition %s_%s : list scenario :=\n  %s.\n" % (name, suffix, body))
        out.append("Definition %s : list scenario :=\n  %s.\n" % (name, " ++ ".join(used) if used else "[]"))
        return "\n".join(out), ordered

    def header(self, what):
        return ("(* %s\n   %s\n   GENERATED by tools/gen_menus.py -- do not edit; edit the menu in the script. *)\n"
                % (what, self.cfg["title"]))

    def write(self, name, text):
        path = os.path.join(THEORIES, name)
        if os.path.exists(path):
            with open(path) as f:
                if f.read() == text:
                    return path          # unchanged: keep the file (and its compiled form) as it is
        with open(path, "w") as f:
            f.write(text)
        return path

    def clean(self, written):
        """remove the shard files of an earlier run that this run did not produce"""
        import glob
        keep = set(os.path.splitext(os.path.basename(f))[0] for f in written)
        for pat in ("M%s_[0-9][0-9]" % self.pp, "M%sT_[0-9][0-9]" % self.pp, "M%sR" % self.pp):
            for f in glob.glob(os.path.join(THEORIES, pat + ".v")):
                base = os.path.splitext(os.path.basename(f))[0]
                if base in keep:
                    continue
                for g in [os.path.join(THEORIES, base + e) for e in (".v", ".vo", ".vok", ".vos", ".glob")] + \
                         [os.path.join(THEORIES, "." + base + ".aux")]:
                    if os.path.exists(g):
                        os.remove(g)

    def build(self):
        pp, cfg = self.pp, self.cfg
        files = []
        imports = "From HS Require Import Base PyVal FS Ops Spec Sched Lin MenuLib"
        q, qall = cfg["q"], cfg["qall"]

        # ================= pairs =================
        scen = self.pairs()
        bounds = partition_contiguous([max(s["cost"], 0.002) for s in scen], cfg["nshards"])
        for k, (a, b) in enumerate(bounds):
            for s in scen[a:b]:
                s["shard"] = "M%s_%02d" % (pp, k)
        t = [self.header("Menu%s.v -- the 2-thread menu" % pp), imports + ".\n"]
        t.append("Definition menu%s : list call :=\n  %s.\n" % (pp, coq_list([coq_call(c) for c in cfg["menu"]])))
        t.append("(* start states, as setup histories run from the empty store:\n%s *)" %
                 "\n".join("     %d  %s" % (i, sn) for i, (sn, _) in enumerate(cfg["states"])))
        t.append("Definition states%s : list (list call) :=\n  %s.\n" %
                 (pp, coq_list([coq_calls(st) for _, st in cfg["states"]])))
        t.append("(* the menu, structurally: every start state x every unordered pair (with repetition) *)")
        t.append("Definition scenarios%s_spec : list scenario := mk_scenarios states%s (upairs menu%s).\n" % (pp, pp, pp))
        for k, (a, b) in enumerate(bounds):
            t.append("Definition shard%s_%02d : list scenario :=  (* #%d .. #%d *)\n  %s.\n" %
                     (pp, k, a, b - 1, coq_list([coq_scenario(s["setup"], s["calls"]) for s in scen[a:b]])))
        t.append("Definition scenarios%s : list scenario :=\n  %s.\n" %
                 (pp, " ++ ".join("shard%s_%02d" % (pp, k) for k in range(len(bounds)))))
        t.append("Lemma scenarios%s_is_spec : scenarios%s = scenarios%s_spec.\nProof. vm_compute. reflexivity. Qed.\n" % (pp, pp, pp))
        t.append("Lemma scenarios%s_length : length scenarios%s = %d.\nProof. vm_compute. reflexivity. Qed.\n" % (pp, pp, len(scen)))
        t.append("(* ---------- the scenarios the model refutes, by family ---------- *)\n")
        kd, self.known_pairs = self.known_defs(scen, "known" + pp)
        t.append(kd)
        t.append("Definition in_known%s : scenario -> bool := in_list known%s.\n" % (pp, pp))
        t.append("Lemma in_known%s_In : forall s, in_known%s s = true -> In s known%s.\nProof. intros s H. exact (in_list_In _ _ H). Qed.\n" % (pp, pp, pp))
        t.append("Lemma known%s_in_menu : all_in scenarios%s known%s = true.\nProof. vm_compute. reflexivity. Qed.\n" % (pp, pp, pp))
        nknown = sum(1 for s in scen if s["verdict"] == "FAIL")
        t.append("Lemma known%s_length : length known%s = %d.\nProof. vm_compute. reflexivity. Qed.\n" % (pp, pp, nknown))
        t.append("Lemma start_defined%s : forallb start_defined scenarios%s = true.\nProof. vm_compute. reflexivity. Qed." % (pp, pp))
        files.append(self.write("Menu%s.v" % pp, "\n".join(t) + "\n"))

        for k in range(len(bounds)):
            nm = "shard%s_%02d" % (pp, k)
            txt = (self.header("M%s_%02d.v -- shard %d of the 2-thread menu" % (pp, k, k)) + imports + " Menu%s.\n\n" % pp +
                   "(* the model's verdict on every scenario of the shard is exactly \"not on the known list\"\n"
                   "   (and the extra tests hold): one closed boolean, evaluated once, by the kernel *)\n"
                   "Lemma %s_exact : forallb (verdict_matches %s %s known%s) %s = true.\n"
                   "Proof. vm_cast_no_check (@eq_refl bool true). Qed.\n\n"
                   "Lemma %s_ok : forallb (fun s => orb (scenario_ok s) (in_known%s s)) %s = true.\n"
                   "Proof. exact (matches_ok_or_known _ _ _ _ %s_exact). Qed.\n"
                   % (nm, q, qall, pp, nm, nm, pp, nm, nm))
            files.append(self.write("M%s_%02d.v" % (pp, k), txt))

        # ================= triples =================
        keep, drop = self.triples()
        tbins = partition_lpt([max(s["cost"], 0.002) for s in keep], cfg["tshards"])
        for k, idxs in enumerate(tbins):
            for i in idxs:
                keep[i]["shard"] = "M%sT_%02d" % (pp, k)
        tstates = cfg["tstates"] or cfg["states"]
        t = [self.header("Menu%sT.v -- the curated 3-thread menu" % pp), imports + ".\n"]
        t.append("Definition tmenu%s : list call :=\n  %s.\n" % (pp, coq_list([coq_call(c) for c in cfg["tmenu"]])))
        t.append("Definition tstates%s : list (list call) :=\n  %s.\n" % (pp, coq_list([coq_calls(st) for _, st in tstates])))
        t.append("Definition triples%s_spec : list scenario := mk_scenarios tstates%s (utriples tmenu%s).\n" % (pp, pp, pp))
        for k, idxs in enumerate(tbins):
            t.append("Definition tshard%s_%02d : list scenario :=\n  %s.\n" %
                     (pp, k, coq_list([coq_scenario(keep[i]["setup"], keep[i]["calls"]) for i in idxs])))
        t.append("Definition triples%s : list scenario :=\n  %s.\n" %
                 (pp, " ++ ".join("tshard%s_%02d" % (pp, k) for k in range(len(tbins)))))
        t.append("(* left out: the explorer needs too long on these under vm_compute (cost = seconds in the\n"
                 "   extracted runner; the kernel's virtual machine is ~70 times slower) *)")
        t.append("Definition triples%s_skipped : list scenario :=\n  %s.\n" %
                 (pp, coq_list(["%s" % coq_scenario(s["setup"], s["calls"]) for s in drop])))
        t.append("(* the curated list and the skipped ones together are the full structural menu *)")
        t.append("Lemma triples%s_cover : forallb (in_list (triples%s ++ triples%s_skipped)) triples%s_spec = true.\nProof. vm_compute. reflexivity. Qed.\n" % (pp, pp, pp, pp))
        t.append("Lemma triples%s_in_spec : all_in triples%s_spec triples%s = true.\nProof. vm_compute. reflexivity. Qed.\n" % (pp, pp, pp))
        t.append("Lemma triples%s_length : length triples%s = %d /\\ length triples%s_skipped = %d.\nProof. vm_compute. split; reflexivity. Qed.\n" % (pp, pp, len(keep), pp, len(drop)))
        kd, self.known_triples = self.known_defs(keep, "knownT" + pp)
        t.append(kd)
        t.append("Lemma knownT%s_in_menu : all_in triples%s knownT%s = true.\nProof. vm_compute. reflexivity. Qed.\n" % (pp, pp, pp))
        t.append("Lemma start_definedT%s : forallb start_defined triples%s = true.\nProof. vm_compute. reflexivity. Qed." % (pp, pp))
        files.append(self.write("Menu%sT.v" % pp, "\n".join(t) + "\n"))
        for k in range(len(tbins)):
            nm = "tshard%s_%02d" % (pp, k)
            txt = (self.header("M%sT_%02d.v -- shard %d of the 3-thread menu" % (pp, k, k)) + imports + " Menu%sT.\n\n" % pp +
                   "Lemma %s_exact : forallb (verdict_matches %s %s knownT%s) %s = true.\n"
                   "Proof. vm_cast_no_check (@eq_refl bool true). Qed.\n"
                   % (nm, q, qall, pp, nm))
            files.append(self.write("M%sT_%02d.v" % (pp, k), txt))

        # ================= lifting =================
        files.append(self.write("M%sAll.v" % pp, self.all_file(len(bounds), len(tbins))))
        # family R: linearizable once the reader's FileNotFoundError is read as "not found" (LinNF.v)
        self.r_pairs = any(s["verdict"] == "FAIL" and s["family"] == "R" for s in scen)
        self.r_triples = any(s["verdict"] == "FAIL" and s["family"] == "R" for s in keep)
        if self.r_pairs or self.r_triples:
            files.append(self.write("M%sR.v" % pp, self.r_file()))
        files.append(self.write(os.path.join("props", "C%s.v" % pp), self.props_file(scen, keep)))

        # ================= JSON =================
        def js(s):
            d = dict(index=s["index"], shard=s["shard"], state=s["state"],
                     setup=" ; ".join(s["setup"]), calls=" || ".join(s["calls"]),
                     line=scen_line("schedok", s["setup"], s["calls"]),
                     verdict=s["verdict"], cost=s["cost"])
            if s["verdict"] == "FAIL":
                d.update(family=s["family"], subfamily=s["subfamily"], witnesses=s["witnesses"])
            return d
        def counts(l):
            c = {}
            for s in l:
                if s["verdict"] == "FAIL":
                    c[s["family"]] = c.get(s["family"], 0) + 1
            return c
        def subcounts(l):
            c = {}
            for s in l:
                if s["verdict"] == "FAIL":
                    c[s["subfamily"]] = c.get(s["subfamily"], 0) + 1
            return c
        doc = dict(
            property="C" + pp, title=cfg["title"], generator="tools/gen_menus.py",
            menu=cfg["menu"], states=[dict(name=n, setup=" ; ".join(st)) for n, st in cfg["states"]],
            families={k: FAMILIES[k][1] for k in FAMILY_ORDER},
            pairs=dict(count=len(scen), refuted=sum(1 for s in scen if s["verdict"] == "FAIL"),
                       by_family=counts(scen), by_subfamily=subcounts(scen),
                       shards=["M%s_%02d" % (pp, k) for k in range(len(bounds))],
                       scenarios=[js(s) for s in scen]),
            triples=dict(menu=cfg["tmenu"], states=[dict(name=n, setup=" ; ".join(st)) for n, st in tstates],
                         count=len(keep), refuted=sum(1 for s in keep if s["verdict"] == "FAIL"),
                         by_family=counts(keep), by_subfamily=subcounts(keep), max_cost=cfg["tmax_cost"],
                         shards=["M%sT_%02d" % (pp, k) for k in range(len(tbins))],
                         scenarios=[js(s) for s in keep],
                         skipped=[dict(setup=" ; ".join(s["setup"]), calls=" || ".join(s["calls"]),
                                       verdict=s["verdict"], cost=s["cost"]) for s in drop]))
        path = os.path.join(ROOT, "coq", "menus%s.json" % pp)
        text = json.dumps(doc, indent=1) + "\n"
        if not (os.path.exists(path) and open(path).read() == text):
            with open(path, "w") as f:
                f.write(text)
        files.append(path)
        self.clean(files)
        self.summary = doc
        return files

    # ----- M<PP>All.v -----
    def all_file(self, nsh, ntsh):
        pp, cfg = self.pp, self.cfg
        q, qall = cfg["q"], cfg["qall"]
        imp = "From HS Require Import Base PyVal FS Ops Spec Sched Lin Bracket SchedCV MenuLib MenuCV Menu%s Menu%sT" % (pp, pp)
        imp += "".join(" M%s_%02d" % (pp, k) for k in range(nsh))
        imp += "".join(" M%sT_%02d" % (pp, k) for k in range(ntsh)) + ".\n"
        t = [self.header("M%sAll.v -- from the shard booleans to statements about every schedule" % pp), imp]

        def glue(lemma, lst, prefix, n, known):
            s = "Lemma %s : forallb (verdict_matches %s %s %s) %s = true.\nProof.\n  unfold %s.\n" % (lemma, q, qall, known, lst, lst)
            for k in range(n - 1):
                s += "  apply forallb_app_intro; [exact %s_%02d_exact|].\n" % (prefix, k)
            s += "  exact %s_%02d_exact.\nQed.\n" % (prefix, n - 1)
            return s
        t.append(glue("all%s_exact" % pp, "scenarios" + pp, "shard" + pp, nsh, "known" + pp))
        t.append(glue("allT%s_exact" % pp, "triples" + pp, "tshard" + pp, ntsh, "knownT" + pp))

        concl = ("forall w0 sched c, start_world s = Some w0 ->\n"
                 "    exec (map api (sc_calls s)) sched (init_cfg (map api (sc_calls s)) w0) = Some c ->\n"
                 "    stuck (map api (sc_calls s)) c ->\n")
        for (nm, lst, known, allx) in (("pairs", "scenarios" + pp, "known" + pp, "all%s_exact" % pp),
                                       ("triples", "triples" + pp, "knownT" + pp, "allT%s_exact" % pp)):
            t.append("Theorem lin_%s%s : forall s, In s %s -> ~ In s %s ->\n    %s    lin_ok w0 (sc_calls s) c = true /\\ stored_retrievable (sc_calls s) c = true.\n"
                     "Proof.\n  intros s Hs Hk w0 sched c Hw Hex Hst.\n"
                     "  exact (scenario_sound s w0 (ok_or_known_sound _ _ (matches_ok_or_known _ _ _ _ %s) s Hs Hk)\n"
                     "                        Hw sched c Hex Hst).\nQed.\n"
                     % (nm, pp, lst, known, concl, allx))
            t.append("Theorem quiescent_%s%s : forall s, In s %s ->\n    %s    finished (map api (sc_calls s)) c = true /\\ locks (snd c) = [].\n"
                     "Proof.\n  intros s Hs w0 sched c Hw Hex Hst.\n"
                     "  pose proof (verdicts_all_sound _ _ s w0 (matches_all _ _ _ _ %s s Hs) Hw sched c Hex Hst) as HQ.\n"
                     "  %sexact (quiescent_spec _ _ HQ).\nQed.\n"
                     % (nm, pp, lst, concl, allx,
                        "" if qall == "quiescent" else "unfold quiescent_reader in HQ. apply andb_true_iff in HQ. destruct HQ as [HQ _]. "))
            if q == "reader_ok":
                rd = ("    forall i p f, nth_error (sc_calls s) i = Some (CRetrMeta p f) ->\n")
                t.append("Theorem readers_%s%s : forall s, In s %s -> ~ In s %s ->\n    %s%s"
                         "      (exists v n, thread_result (map api (sc_calls s)) c i = Some (Val (VBytes (CData v n n)))) \\/\n"
                         "      thread_result (map api (sc_calls s)) c i = Some (Exn EValueError).\n"
                         "Proof.\n  intros s Hs Hk w0 sched c Hw Hex Hst.\n"
                         "  apply reader_ok_spec.\n"
                         "  exact (verdicts_q_sound _ _ s w0 (matches_extra _ _ _ _ %s s Hs Hk) Hw sched c Hex Hst).\nQed.\n"
                         % (nm, pp, lst, known, concl, rd, allx))
                t.append("Theorem readers_weak_%s%s : forall s, In s %s ->\n    %s%s"
                         "      (exists v n, thread_result (map api (sc_calls s)) c i = Some (Val (VBytes (CData v n n)))) \\/\n"
                         "      thread_result (map api (sc_calls s)) c i = Some (Exn EValueError) \\/\n"
                         "      thread_result (map api (sc_calls s)) c i = Some (Exn EFileNotFound).\n"
                         "Proof.\n  intros s Hs w0 sched c Hw Hex Hst.\n"
                         "  pose proof (verdicts_all_sound _ _ s w0 (matches_all _ _ _ _ %s s Hs) Hw sched c Hex Hst) as HQ.\n"
                         "  unfold quiescent_reader in HQ. apply andb_true_iff in HQ. destruct HQ as [_ HQ].\n"
                         "  exact (reader_weak_ok_spec _ _ HQ).\nQed.\n"
                         % (nm, pp, lst, concl, rd, allx))
            t.append("Theorem known_%s%s_all_fail : forall s, In s %s -> scenario_ok s = false.\n"
                     "Proof.\n  intros s Hk. apply (matches_known_fail _ _ _ _ %s); [|exact Hk].\n"
                     "  exact (all_in_sound _ _ %s_in_menu s Hk).\nQed.\n"
                     % (nm, pp, known, allx, known))
        # one refuting schedule per known scenario, replayed in the kernel
        for (nm, known, members) in (("pairs", "known" + pp, self.known_pairs),
                                     ("triples", "knownT" + pp, self.known_triples)):
            items = []
            for m in members:
                w = [x for x in m["witnesses"] if x["tag"] != "A0"] or m["witnesses"]
                items.append("(%s,\n       [%s])" % (coq_scenario(m["setup"], m["calls"]),
                                                   "; ".join(w[0]["schedule"].split(","))))
            t.append("(* for every scenario of %s a schedule (found by the extracted explorer) whose final\n"
                     "   configuration fails the test *)" % known)
            t.append("Definition %s_witnesses : list (scenario * list nat) :=\n  %s.\n" % (known, coq_list(items)))
            t.append("Lemma %s_witnesses_cover : map fst %s_witnesses = %s.\nProof. vm_compute. reflexivity. Qed.\n" % (known, known, known))
            t.append("Lemma %s_witnesses_refute : forallb (fun p => refutes (fst p) (snd p)) %s_witnesses = true.\nProof. vm_compute. reflexivity. Qed.\n" % (known, known))
            t.append("Theorem known_%s%s_each_refuted : forall s, In s %s ->\n"
                     "    exists w0 sched c, start_world s = Some w0 /\\\n"
                     "    exec (map api (sc_calls s)) sched (init_cfg (map api (sc_calls s)) w0) = Some c /\\\n"
                     "    stuck (map api (sc_calls s)) c /\\\n"
                     "    (lin_ok w0 (sc_calls s) c && stored_retrievable (sc_calls s) c) = false.\n"
                     "Proof.\n  intros s Hs. rewrite <- %s_witnesses_cover in Hs. apply in_map_iff in Hs.\n"
                     "  destruct Hs as [[s' sch] [Heq Hin]]. simpl in Heq. subst s'.\n"
                     "  pose proof %s_witnesses_refute as H. rewrite forallb_forall in H.\n"
                     "  specialize (H _ Hin). simpl in H.\n"
                     "  destruct (refutes_sound _ _ H) as [w0 [c [Hw [Hex [Hst Hf]]]]].\n"
                     "  exists w0, sch, c. split; [exact Hw|]. split; [exact Hex|]. split; [exact Hst | exact Hf].\nQed.\n"
                     % (nm, pp, known, known, known))
        # transfer to the faithful condition-variable semantics (SchedCV.v, MenuCV.v)
        cvh = ("forall w0, start_world s = Some w0 ->\n"
               "    forall C, cvreachable (map api (sc_calls s)) false w0 C ->\n"
               "              cvstuck (map api (sc_calls s)) false C ->\n")
        for (nm, lst, known) in (("pairs", "scenarios" + pp, "known" + pp), ("triples", "triples" + pp, "knownT" + pp)):
            t.append("Theorem lin_%s%s_cv : forall s, In s %s -> ~ In s %s ->\n    %s"
                     "    lin_ok w0 (sc_calls s) (fst C) = true /\\ stored_retrievable (sc_calls s) (fst C) = true.\n"
                     "Proof.\n  intros s Hs Hk w0 Hw.\n"
                     "  exact (cv_transfer s w0\n"
                     "           (fun c => lin_ok w0 (sc_calls s) c = true /\\ stored_retrievable (sc_calls s) c = true) Hw\n"
                     "           (fun sched c => lin_%s%s s Hs Hk w0 sched c Hw)).\nQed.\n"
                     % (nm, pp, lst, known, cvh, nm, pp))
            if q == "reader_ok":
                t.append("Theorem readers_%s%s_cv : forall s, In s %s -> ~ In s %s ->\n    %s"
                         "    forall i p f, nth_error (sc_calls s) i = Some (CRetrMeta p f) ->\n"
                         "      (exists v n, thread_result (map api (sc_calls s)) (fst C) i = Some (Val (VBytes (CData v n n)))) \\/\n"
                         "      thread_result (map api (sc_calls s)) (fst C) i = Some (Exn EValueError).\n"
                         "Proof.\n  intros s Hs Hk w0 Hw.\n"
                         "  exact (cv_transfer s w0\n"
                         "           (fun c => forall i p f, nth_error (sc_calls s) i = Some (CRetrMeta p f) ->\n"
                         "              (exists v n, thread_result (map api (sc_calls s)) c i = Some (Val (VBytes (CData v n n)))) \\/\n"
                         "              thread_result (map api (sc_calls s)) c i = Some (Exn EValueError)) Hw\n"
                         "           (fun sched c => readers_%s%s s Hs Hk w0 sched c Hw)).\nQed.\n"
                         % (nm, pp, lst, known, cvh, nm, pp))
        t.append("Theorem menu%s_is_spec : scenarios%s = scenarios%s_spec.\nProof. exact scenarios%s_is_spec. Qed.\n" % (pp, pp, pp, pp))
        t.append("Theorem every_start_world_defined%s : forall s, In s scenarios%s -> exists w0, start_world s = Some w0.\n"
                 "Proof. exact (start_defined_all _ start_defined%s). Qed.\n" % (pp, pp, pp))
        t.append("Theorem every_start_world_definedT%s : forall s, In s triples%s -> exists w0, start_world s = Some w0.\n"
                 "Proof. exact (start_defined_all _ start_definedT%s). Qed.\n" % (pp, pp, pp))

        # refutation witness: the preferred one if the model still refutes it that way, else the
        # first scenario of the known list; none when the known list is empty
        fam, wsetup, wcalls = cfg["witness"]
        sched = None
        for m in self.known_pairs:
            if m["setup"] == wsetup and m["calls"] == wcalls:
                for w in m["witnesses"]:
                    if w["tag"].startswith(fam):
                        sched = w["schedule"]
                        break
        if sched is None and self.known_pairs:
            m = self.known_pairs[0]
            w = [x for x in m["witnesses"] if x["tag"] != "A0"] or m["witnesses"]
            fam, wsetup, wcalls, sched = w[0]["tag"], m["setup"], m["calls"], w[0]["schedule"]
        self.witness_sched = sched
        if sched is None:
            t.append("(* the model refutes no scenario of the 2-thread menu: no refutation theorem *)")
            t.append("Theorem known%s_empty : known%s = [].\nProof. reflexivity. Qed.\n" % (pp, pp))
        else:
            t.append("(* a refutation, family %s: the schedule found by the extracted explorer, replayed in the kernel *)" % fam)
            t.append("Definition witness%s : scenario := %s.\n" % (pp, coq_scenario(wsetup, wcalls)))
            t.append("Definition witness%s_sched : list nat :=\n  [%s].\n" % (pp, "; ".join(sched.split(","))))
            t.append("Lemma witness%s_refutes : refutes witness%s witness%s_sched = true.\nProof. vm_compute. reflexivity. Qed.\n" % (pp, pp, pp))
            t.append("Lemma witness%s_in_menu : In witness%s scenarios%s.\nProof. apply in_list_In. vm_compute. reflexivity. Qed.\n" % (pp, pp, pp))
            t.append("Theorem refuted%s : exists s w0 sched c, In s scenarios%s /\\ start_world s = Some w0 /\\\n"
                     "    exec (map api (sc_calls s)) sched (init_cfg (map api (sc_calls s)) w0) = Some c /\\\n"
                     "    stuck (map api (sc_calls s)) c /\\\n"
                     "    (lin_ok w0 (sc_calls s) c && stored_retrievable (sc_calls s) c) = false.\n"
                     "Proof.\n  destruct (refutes_sound _ _ witness%s_refutes) as [w0 [c [Hw [Hex [Hst Hf]]]]].\n"
                     "  exists witness%s, w0, witness%s_sched, c. split; [exact witness%s_in_menu|].\n"
                     "  split; [exact Hw|]. split; [exact Hex|]. split; [exact Hst | exact Hf].\nQed.\n"
                     % (pp, pp, pp, pp, pp, pp))
        # example: number of explored configurations
        esetup, ecalls = cfg["example"]
        t.append("Definition example%s : scenario := %s.\n" % (pp, coq_scenario(esetup, ecalls)))
        n = coq_count(esetup, ecalls)
        t.append("Definition example%s_configs : nat := %s.\n" %
                 (pp, str(n) if n is not None else "Eval vm_compute in count_configs example%s" % pp))
        self.example_count = n
        t.append("Lemma example%s_count : count_configs example%s = example%s_configs.\nProof. vm_cast_no_check (@eq_refl nat example%s_configs). Qed.\n" % (pp, pp, pp, pp))
        t.append("Lemma example%s_explore_count :\n  exists w0, start_world example%s = Some w0 /\\\n"
                 "    explore_count (map api (sc_calls example%s)) sched_fuel\n"
                 "                  [init_cfg (map api (sc_calls example%s)) w0] 0 = example%s_configs.\n"
                 "Proof.\n  apply count_configs_spec; [exact example%s_count | unfold example%s_configs; discriminate].\nQed."
                 % (pp, pp, pp, pp, pp, pp, pp))
        return "\n".join(t) + "\n"

    # ----- M<PP>R.v -----
    def r_file(self):
        pp = self.pp
        t = [self.header("M%sR.v -- the scenarios of family R are linearizable up to the reader's two not-found errors" % pp),
             "From HS Require Import Base PyVal FS Ops Spec Sched Lin MenuLib LinNF Menu%s Menu%sT.\n" % (pp, pp)]
        concl = ("forall w0 sched c, start_world s = Some w0 ->\n"
                 "    exec (map api (sc_calls s)) sched (init_cfg (map api (sc_calls s)) w0) = Some c ->\n"
                 "    stuck (map api (sc_calls s)) c ->\n"
                 "    lin_ok_nf w0 (sc_calls s) c = true /\\ stored_retrievable (sc_calls s) c = true")
        for (flag, nm, lst) in ((self.r_pairs, "pairs", "known%s_R" % pp), (self.r_triples, "triples", "knownT%s_R" % pp)):
            if not flag:
                continue
            t.append("Lemma %s_ok_nf : forallb scenario_ok_nf %s = true.\nProof. vm_cast_no_check (@eq_refl bool true). Qed.\n" % (lst, lst))
            t.append("Theorem lin_nf_%s%s_R : forall s, In s %s ->\n    %s.\nProof. exact (all_ok_nf_sound _ %s_ok_nf). Qed.\n"
                     % (nm, pp, lst, concl, lst))
        return "\n".join(t)

    # ----- props/C<PP>.v -----
    def props_file(self, scen, keep):
        pp, cfg = self.pp, self.cfg
        nsh = len(set(s["shard"] for s in scen))
        P = "C" + pp
        imp = "From HS Require Import Base PyVal FS Ops Spec Sched Lin Bracket SchedCV MenuLib MenuCV Menu%s Menu%sT M%sAll%s.\n" % (
            pp, pp, pp, (" LinNF M%sR" % pp) if (self.r_pairs or self.r_triples) else "")
        nk = sum(1 for s in scen if s["verdict"] == "FAIL")
        nkt = sum(1 for s in keep if s["verdict"] == "FAIL")
        t = ["(* %s\n   GENERATED by tools/gen_menus.py.  Statements are restated in full so that a weakened lemma no\n"
             "   longer fits.  %d two-thread scenarios (%d refuted by the model and listed in known%s),\n"
             "   %d three-thread scenarios (%d refuted, knownT%s).  All interleavings: [exec] over an\n"
             "   arbitrary schedule, [stuck] = no thread can move. *)\n%s"
             % (cfg["title"], len(scen), nk, pp, len(keep), nkt, pp, imp)]
        concl = ("forall w0 sched c, start_world s = Some w0 ->\n"
                 "    exec (map api (sc_calls s)) sched (init_cfg (map api (sc_calls s)) w0) = Some c ->\n"
                 "    stuck (map api (sc_calls s)) c ->\n")

        def thm(name, stmt, lemma, comment):
            return "(* %s *)\nTheorem %s_%s :\n  %s.\nProof. exact %s. Qed.\nPrint Assumptions %s_%s.\n" % (comment, P, name, stmt, lemma, P, name)
        t.append(thm("lin_pairs",
                     "forall s, In s scenarios%s -> ~ In s known%s ->\n    %s    lin_ok w0 (sc_calls s) c = true /\\ stored_retrievable (sc_calls s) c = true" % (pp, pp, concl),
                     "lin_pairs" + pp,
                     "every 2-thread scenario of the menu outside the known list: under every schedule the outcomes and\n"
                     "   the final files are those of some sequential order (lin_ok_spec spells [lin_ok] out)"))
        t.append(thm("menu_is_spec", "scenarios%s = scenarios%s_spec" % (pp, pp), "menu%s_is_spec" % pp,
                     "the menu is what it says: start states x unordered pairs with repetition"))
        t.append(thm("known_all_fail", "forall s, In s known%s -> scenario_ok s = false" % pp, "known_pairs%s_all_fail" % pp,
                     "no over-exclusion: the model refutes every scenario on the known list"))
        t.append(thm("known_each_refuted",
                     "forall s, In s known%s ->\n    exists w0 sched c, start_world s = Some w0 /\\\n"
                     "    exec (map api (sc_calls s)) sched (init_cfg (map api (sc_calls s)) w0) = Some c /\\\n"
                     "    stuck (map api (sc_calls s)) c /\\\n"
                     "    (lin_ok w0 (sc_calls s) c && stored_retrievable (sc_calls s) c) = false" % pp,
                     "known_pairs%s_each_refuted" % pp,
                     "and for each of them a concrete schedule is on file (known%s_witnesses) and replays" % pp))
        if self.witness_sched is not None:
            t.append(thm("refuted",
                         "exists s w0 sched c, In s scenarios%s /\\ start_world s = Some w0 /\\\n"
                         "    exec (map api (sc_calls s)) sched (init_cfg (map api (sc_calls s)) w0) = Some c /\\\n"
                         "    stuck (map api (sc_calls s)) c /\\\n"
                         "    (lin_ok w0 (sc_calls s) c && stored_retrievable (sc_calls s) c) = false" % pp,
                         "refuted" + pp,
                         "the property as worded is refuted in the model: a concrete schedule (witness%s, witness%s_sched)" % (pp, pp)))
        else:
            t.append(thm("known_empty", "known%s = []" % pp, "known%s_empty" % pp,
                         "the model refutes no scenario of the 2-thread menu (so there is no C%s_refuted)" % pp))
        t.append(thm("every_start_world_defined", "forall s, In s scenarios%s -> exists w0, start_world s = Some w0" % pp,
                     "every_start_world_defined" + pp, "non-vacuity: every setup history runs"))
        t.append(thm("quiescent_pairs",
                     "forall s, In s scenarios%s ->\n    %s    finished (map api (sc_calls s)) c = true /\\ locks (snd c) = []" % (pp, concl),
                     "quiescent_pairs" + pp,
                     "on EVERY scenario, the known ones included: all threads return and no identifier stays locked"))
        if cfg["q"] == "reader_ok":
            rd = "    forall i p f, nth_error (sc_calls s) i = Some (CRetrMeta p f) ->\n"
            t.append(thm("reader_pairs",
                         "forall s, In s scenarios%s -> ~ In s known%s ->\n    %s%s"
                         "      (exists v n, thread_result (map api (sc_calls s)) c i = Some (Val (VBytes (CData v n n)))) \\/\n"
                         "      thread_result (map api (sc_calls s)) c i = Some (Exn EValueError)" % (pp, pp, concl, rd),
                         "readers_pairs" + pp,
                         "the reader clause: a retrieve_metadata thread returns one complete version or ValueError"))
            t.append(thm("reader_never_partial_pairs",
                         "forall s, In s scenarios%s ->\n    %s%s"
                         "      (exists v n, thread_result (map api (sc_calls s)) c i = Some (Val (VBytes (CData v n n)))) \\/\n"
                         "      thread_result (map api (sc_calls s)) c i = Some (Exn EValueError) \\/\n"
                         "      thread_result (map api (sc_calls s)) c i = Some (Exn EFileNotFound)" % (pp, concl, rd),
                         "readers_weak_pairs" + pp,
                         "on EVERY scenario, the known ones included: never a partial document"))
        t.append("(* ---------- 3-thread tier ---------- *)\n")
        t.append(thm("lin_triples",
                     "forall s, In s triples%s -> ~ In s knownT%s ->\n    %s    lin_ok w0 (sc_calls s) c = true /\\ stored_retrievable (sc_calls s) c = true" % (pp, pp, concl),
                     "lin_triples" + pp, "the same for the curated 3-thread scenarios"))
        t.append(thm("knownT_all_fail", "forall s, In s knownT%s -> scenario_ok s = false" % pp, "known_triples%s_all_fail" % pp,
                     "no over-exclusion among the triples"))
        t.append(thm("triples_in_spec", "all_in triples%s_spec triples%s = true" % (pp, pp), "triples%s_in_spec" % pp,
                     "the curated triples are drawn from start states x unordered triples of the short menu"))
        t.append(thm("triples_cover", "forallb (in_list (triples%s ++ triples%s_skipped)) triples%s_spec = true" % (pp, pp, pp),
                     "triples%s_cover" % pp, "and together with the skipped ones they are all of them"))
        t.append(thm("every_start_world_defined_triples", "forall s, In s triples%s -> exists w0, start_world s = Some w0" % pp,
                     "every_start_world_definedT" + pp, "non-vacuity"))
        t.append(thm("quiescent_triples",
                     "forall s, In s triples%s ->\n    %s    finished (map api (sc_calls s)) c = true /\\ locks (snd c) = []" % (pp, concl),
                     "quiescent_triples" + pp, "all threads return, no identifier stays locked"))
        if cfg["q"] == "reader_ok":
            t.append(thm("reader_triples",
                         "forall s, In s triples%s -> ~ In s knownT%s ->\n    %s%s"
                         "      (exists v n, thread_result (map api (sc_calls s)) c i = Some (Val (VBytes (CData v n n)))) \\/\n"
                         "      thread_result (map api (sc_calls s)) c i = Some (Exn EValueError)" % (pp, pp, concl, rd),
                         "readers_triples" + pp, "the reader clause on the triples"))
        t.append("(* ---------- under the faithful condition-variable semantics (SchedCV.v) ---------- *)\n")
        cvh = ("forall w0, start_world s = Some w0 ->\n"
               "    forall C, cvreachable (map api (sc_calls s)) false w0 C ->\n"
               "              cvstuck (map api (sc_calls s)) false C ->\n")
        for (nm, lst, known) in (("pairs", "scenarios" + pp, "known" + pp), ("triples", "triples" + pp, "knownT" + pp)):
            t.append(thm("lin_%s_cv" % nm,
                         "forall s, In s %s -> ~ In s %s ->\n    %s"
                         "    lin_ok w0 (sc_calls s) (fst C) = true /\\ stored_retrievable (sc_calls s) (fst C) = true" % (lst, known, cvh),
                         "lin_%s%s_cv" % (nm, pp),
                         "every final configuration of the semantics with real condition variables (threads sleep, notify\n"
                         "   wakes one arbitrary sleeper, which re-tests; no faults) is linearizable: C%s_lin_%s composed with\n"
                         "   SchedCV.cv_final_is_sched_final and Bracket.run_history_empty_ok (MenuCV.cv_transfer)" % (pp, nm)))
            if cfg["q"] == "reader_ok":
                t.append(thm("reader_%s_cv" % nm,
                             "forall s, In s %s -> ~ In s %s ->\n    %s"
                             "    forall i p f, nth_error (sc_calls s) i = Some (CRetrMeta p f) ->\n"
                             "      (exists v n, thread_result (map api (sc_calls s)) (fst C) i = Some (Val (VBytes (CData v n n)))) \\/\n"
                             "      thread_result (map api (sc_calls s)) (fst C) i = Some (Exn EValueError)" % (lst, known, cvh),
                             "readers_%s%s_cv" % (nm, pp),
                             "the reader clause under the same semantics"))
        if self.r_pairs or self.r_triples:
            t.append("(* ---------- family R read as the property words it ---------- *)\n")
            nfc = ("forall w0 sched c, start_world s = Some w0 ->\n"
                   "    exec (map api (sc_calls s)) sched (init_cfg (map api (sc_calls s)) w0) = Some c ->\n"
                   "    stuck (map api (sc_calls s)) c ->\n"
                   "    lin_ok_nf w0 (sc_calls s) c = true /\\ stored_retrievable (sc_calls s) c = true")
            if self.r_pairs:
                t.append(thm("lin_nf_pairs_R", "forall s, In s known%s_R ->\n    %s" % (pp, nfc), "lin_nf_pairs%s_R" % pp,
                             "the scenarios of family R are linearizable once a reader's FileNotFoundError is compared as the\n"
                             "   not-found error ValueError (LinNF.lin_ok_nf: nothing else relaxed; lin_ok_nf_spec spells it out)"))
            if self.r_triples:
                t.append(thm("lin_nf_triples_R", "forall s, In s knownT%s_R ->\n    %s" % (pp, nfc), "lin_nf_triples%s_R" % pp,
                             "the same for the 3-thread scenarios of family R"))
        t.append("(* ---------- evidence ---------- *)\n")
        esetup, ecalls = cfg["example"]
        ex = coq_scenario(esetup, ecalls)
        cnt = str(self.example_count) if self.example_count is not None else "example%s_configs" % pp
        t.append("(* one concrete scenario and the number of distinct configurations the explorer visits *)\n"
                 "Example %s_example_count :\n  exists w0, start_world %s = Some w0 /\\\n"
                 "    explore_count (map api (sc_calls %s)) sched_fuel\n"
                 "                  [init_cfg (map api (sc_calls %s)) w0] 0 = %s.\n"
                 "Proof. exact example%s_explore_count. Qed.\n"
                 "Eval vm_compute in (length scenarios%s, length known%s, length triples%s, length knownT%s).\n"
                 % (P, ex, ex, ex, cnt, pp, pp, pp, pp, pp))
        return "\n".join(t)


def main():
    args = sys.argv[1:]
    force = "--measure" in args
    only = args[args.index("--only") + 1] if "--only" in args else None
    costs = {}
    if os.path.exists(COSTS):
        with open(COSTS) as f:
            costs = json.load(f)
    import hashlib
    with open(MODELRUN, "rb") as f:
        fp = hashlib.sha256(f.read()).hexdigest()
    if not force and costs.get("#modelrun") not in (None, fp):
        print("note: the model runner changed since the costs were measured; they are reused (entries that\n"
              "      are badly off get corrected as scenarios run); `--measure` re-measures all of them")
    if force or "#modelrun" not in costs:
        costs["#modelrun"] = fp
    for pp in sorted(MENUS):
        if only and pp != only:
            continue
        b = Builder(pp, MENUS[pp], costs, force)
        files = b.build()
        d = b.summary
        print("C%s: %d pairs (%d refuted: %s | %s), %d triples (%d refuted: %s; %d skipped)" %
              (pp, d["pairs"]["count"], d["pairs"]["refuted"], d["pairs"]["by_family"], d["pairs"]["by_subfamily"],
               d["triples"]["count"], d["triples"]["refuted"], d["triples"]["by_family"], len(d["triples"]["skipped"])))
        print("   witness schedule: " + str(b.witness_sched))
        for f in files:
            print("   wrote " + os.path.relpath(f, ROOT))
    text = json.dumps(dict(sorted(costs.items())), indent=0) + "\n"
    if not (os.path.exists(COSTS) and open(COSTS).read() == text):
        with open(COSTS, "w") as f:
            f.write(text)


if __name__ == "__main__":
    main()
