#!/usr/bin/env python3
"""Sweep of the extracted model: every quadruple delete_metadata(pid) + 3 calls (multisets of a 7-call menu on documents
(1,0) and (1,1)) from 4 start states; per quadruple every distinct final configuration must be linearizable, a reader's
FileNotFoundError read as ValueError.  usage: sweep_onepid_quads.py <timeout seconds per quadruple>; writes sweep_res.json"""
import itertools, subprocess, sys, time, json, os
from concurrent.futures import ThreadPoolExecutor
MR=os.path.join(os.path.dirname(os.path.abspath(__file__)), "..", "extract", "modelrun")
setups={'E':'', 'A':'sm 1 0 p 1 1', 'AB':'sm 1 0 p 1 1 ; sm 1 1 p 1 1', 'B':'sm 1 1 p 1 1'}
menu={'D':'dm 1 -','S0':'sm 1 0 p 2 1','S1':'sm 1 1 p 2 1','R0':'rm 1 0','R1':'rm 1 1','d0':'dm 1 0','d1':'dm 1 1'}
keys=list(menu)
def run(job):
    sname,combo=job
    calls=['D']+list(combo)
    line='sched | %s | %s' % (setups[sname],' || '.join(menu[k] for k in calls))
    t=time.time()
    try:
        out=subprocess.run([MR],input=line+'\n',capture_output=True,text=True,timeout=TO).stdout
    except subprocess.TimeoutExpired:
        return (sname,calls,None,None,None,line)
    dt=time.time()-t
    finals=[x.strip() for x in out.strip().split(' ; ')]
    readers=[i for i,k in enumerate(calls) if k.startswith('R')]
    good=set(); bad=[]
    def key(f,norm):
        head,rest=f.split(' {',1)
        outs=head.split(' , ')
        if norm:
            outs=[('exn:ValueError' if (i in readers and o.strip()=='exn:FileNotFoundError') else o.strip()) for i,o in enumerate(outs)]
        else: outs=[o.strip() for o in outs]
        world=rest.split(' lin=')[0]
        return (tuple(outs),world)
    for f in finals:
        if ' lin=1' in f: good.add(key(f,False))
    for f in finals:
        if ' lin=0' in f and key(f,True) not in good: bad.append(f)
    return (sname,calls,dt,len(finals),bad,line)
TO=int(sys.argv[1]); 
jobs=[(s,c) for s in setups for c in itertools.combinations_with_replacement(keys,3)]
res=[]
with ThreadPoolExecutor(12) as ex:
    for r in ex.map(run,jobs):
        res.append(r)
        s,calls,dt,n,bad,line=r
        print(s,' '.join(calls), 'TIMEOUT' if dt is None else '%.1fs finals=%d unexplained=%d'%(dt,n,len(bad)),flush=True)
        if bad:
            for b in bad[:3]: print('   ',b)
json.dump(res,open('sweep_res.json','w'))  # the run recorded in tools/onepid_quads_sweep.json
