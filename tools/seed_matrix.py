#!/usr/bin/env python3
"""seed_matrix.py <seed-id>[,<seed-id>...]|all [PROP,PROP...|own] [tier] — apply each seeded change to /repo, run the checks
(default: the check of the property the change breaks), undo it; record the result in seeded/<id>/meta.json and print a table."""
import json, os, subprocess, sys, time
VERIF = os.path.dirname(os.path.dirname(os.path.abspath(__file__)))
REPO = os.environ.get("HS_REPO", "/repo")

def run(sid, props, tier):
    d = VERIF + "/seeded/" + sid
    st = subprocess.run("git -C %s status --porcelain" % REPO, shell=True, capture_output=True, text=True).stdout.strip()
    assert st == "", "repo not clean: " + st
    r = subprocess.run("git -C %s apply %s/patch.diff" % (REPO, d), shell=True, capture_output=True, text=True)
    if r.returncode != 0:
        return {p: {"exit": None, "note": "patch does not apply: " + r.stderr[:200]} for p in props}
    res = {}
    try:
        for p in props:
            t0 = time.time()
            try:
                env = dict(os.environ, VERIF_EVIDENCE_DIR="/tmp/hsverif-seeded-evidence")
                q = subprocess.run([VERIF + "/check", p, tier], capture_output=True, text=True, cwd=VERIF, timeout=1500, env=env)
                out, rc = q.stdout, q.returncode
            except subprocess.TimeoutExpired as e:
                out, rc = (e.stdout or b"").decode() if isinstance(e.stdout, bytes) else (e.stdout or ""), "timeout"
                subprocess.run("pkill -f harness/main.py", shell=True)
            line = [l for l in out.split("\n") if l.startswith("VIOLATION")]
            what = [l.strip() for l in out.split("\n") if l.strip().startswith(("what:", "corr[", "proof:"))][:2]
            res[p] = {"exit": rc, "violation": line[0] if line else None, "what": [w[:300] for w in what], "wall_s": round(time.time() - t0, 1)}
    finally:
        subprocess.run("git -C %s checkout -- ." % REPO, shell=True)
    return res

def main():
    ids = sys.argv[1]
    ids = sorted(os.listdir(VERIF + "/seeded")) if ids == "all" else ids.split(",")
    which = sys.argv[2] if len(sys.argv) > 2 else "own"
    tier = sys.argv[3] if len(sys.argv) > 3 else "quick"
    for sid in ids:
        mp = VERIF + "/seeded/%s/meta.json" % sid
        meta = json.load(open(mp))
        props = [meta["breaks_property"]] if which == "own" else (["C%02d" % i for i in range(1, 21)] if which == "ALL" else which.split(","))
        res = run(sid, props, tier)
        det = meta.get("detected_by") if isinstance(meta.get("detected_by"), dict) else {}
        for p, r in res.items():
            kind = "missed"
            if r.get("exit") == 1 and r.get("violation"):
                kind = "no-failing-input-found" if r["violation"].endswith("no-failing-input-found") else "violation with replay"
            elif r.get("exit") == "timeout":
                kind = "check timed out"
            det[p] = {"tier": tier, "result": kind, "what": (r.get("what") or [""])[0][:240]}
            print("%-7s %-4s %-26s %s" % (sid, p, kind, (r.get("what") or [""])[0][:150]))
        meta["detected_by"] = det
        json.dump(meta, open(mp, "w"), indent=1)

if __name__ == "__main__":
    main()
