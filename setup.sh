#!/bin/sh
# Build the Coq development (full .vo), the extracted model runner, offline, from files on disk.
set -e
cd "$(dirname "$0")"
VERIF=$(pwd)
cd coq
# only tracked files take part (work in progress next to them must not break the build)
{ echo "-Q theories HS"; (git ls-files theories | grep '\.v$') 2>/dev/null || ls theories/*.v theories/props/*.v; } > _CoqProject
coq_makefile -f _CoqProject -o Makefile > /dev/null
timeout 3000 make -j16 > "$VERIF/coq/build.log" 2>&1 || { tail -50 "$VERIF/coq/build.log"; exit 1; }
cd "$VERIF"
./extract/build.sh
echo "setup ok"
